"""C19 helpers: in-process wiring of ProxyKmipClient/KMIPProxy to a fake socket, KMIP literals
(tag / enumeration numbers copied from the KMIP specification, *not* from kmip.core.enums), and
ttlvref-based encoders/decoders for request inspection and scripted responses."""
import os

from vlib import ttlvref as T
from vlib.core import HarnessError

VERSIONS = [(1, 0), (1, 1), (1, 2), (1, 3), (1, 4), (2, 0)]

# ----------------------------------------------------------------------------- tags (KMIP spec 9.1.3.1)
ACTIVATION_DATE = 0x420001
APPLICATION_DATA = 0x420002
APPLICATION_NAMESPACE = 0x420003
APPLICATION_SPECIFIC_INFORMATION = 0x420004
ATTRIBUTE = 0x420008
ATTRIBUTE_INDEX = 0x420009
ATTRIBUTE_NAME = 0x42000A
ATTRIBUTE_VALUE = 0x42000B
AUTHENTICATION = 0x42000C
BATCH_COUNT = 0x42000D
BATCH_ITEM = 0x42000F
BLOCK_CIPHER_MODE = 0x420011
CERTIFICATE = 0x420013
CERTIFICATE_TYPE = 0x42001D
CERTIFICATE_VALUE = 0x42001E
COMMON_TEMPLATE_ATTRIBUTE = 0x42001F
COMPROMISE_OCCURRENCE_DATE = 0x420021
CREDENTIAL = 0x420023
CREDENTIAL_TYPE = 0x420024
CREDENTIAL_VALUE = 0x420025
CRYPTOGRAPHIC_ALGORITHM = 0x420028
CRYPTOGRAPHIC_LENGTH = 0x42002A
CRYPTOGRAPHIC_PARAMETERS = 0x42002B
CRYPTOGRAPHIC_USAGE_MASK = 0x42002C
DEACTIVATION_DATE = 0x42002F
DERIVATION_DATA = 0x420030
DERIVATION_METHOD = 0x420031
DERIVATION_PARAMETERS = 0x420032
ENCRYPTION_KEY_INFORMATION = 0x420036
HASHING_ALGORITHM = 0x420038
INITIAL_DATE = 0x420039
INITIALIZATION_VECTOR = 0x42003A
ITERATION_COUNT = 0x42003C
IV_COUNTER_NONCE = 0x42003D
KEY_BLOCK = 0x420040
KEY_COMPRESSION_TYPE = 0x420041
KEY_FORMAT_TYPE = 0x420042
KEY_MATERIAL = 0x420043
KEY_PART_IDENTIFIER = 0x420044
KEY_VALUE = 0x420045
KEY_WRAPPING_DATA = 0x420046
KEY_WRAPPING_SPECIFICATION = 0x420047
LEASE_TIME = 0x420049
MAC_SIGNATURE = 0x42004D
MAC_SIGNATURE_KEY_INFORMATION = 0x42004E
MAXIMUM_ITEMS = 0x42004F
NAME = 0x420053
NAME_TYPE = 0x420054
NAME_VALUE = 0x420055
OBJECT_GROUP = 0x420056
OBJECT_TYPE = 0x420057
OFFSET = 0x420058
OPAQUE_DATA_TYPE = 0x420059
OPAQUE_DATA_VALUE = 0x42005A
OPAQUE_OBJECT = 0x42005B
OPERATION = 0x42005C
OPERATION_POLICY_NAME = 0x42005D
PADDING_METHOD = 0x42005F
PRIME_FIELD_SIZE = 0x420062
PRIVATE_KEY = 0x420064
PRIVATE_KEY_TEMPLATE_ATTRIBUTE = 0x420065
PRIVATE_KEY_UNIQUE_IDENTIFIER = 0x420066
PROCESS_START_DATE = 0x420067
PROTECT_STOP_DATE = 0x420068
PROTOCOL_VERSION = 0x420069
PROTOCOL_VERSION_MAJOR = 0x42006A
PROTOCOL_VERSION_MINOR = 0x42006B
PUBLIC_KEY = 0x42006D
PUBLIC_KEY_TEMPLATE_ATTRIBUTE = 0x42006E
PUBLIC_KEY_UNIQUE_IDENTIFIER = 0x42006F
QUERY_FUNCTION = 0x420074
REQUEST_HEADER = 0x420077
REQUEST_MESSAGE = 0x420078
REQUEST_PAYLOAD = 0x420079
RESPONSE_HEADER = 0x42007A
RESPONSE_MESSAGE = 0x42007B
RESPONSE_PAYLOAD = 0x42007C
RESULT_MESSAGE = 0x42007D
RESULT_REASON = 0x42007E
RESULT_STATUS = 0x42007F
REVOCATION_MESSAGE = 0x420080
REVOCATION_REASON = 0x420081
REVOCATION_REASON_CODE = 0x420082
KEY_ROLE_TYPE = 0x420083
SALT = 0x420084
SECRET_DATA = 0x420085
SECRET_DATA_TYPE = 0x420086
SPLIT_KEY = 0x420089
SPLIT_KEY_METHOD = 0x42008A
SPLIT_KEY_PARTS = 0x42008B
SPLIT_KEY_THRESHOLD = 0x42008C
STATE = 0x42008D
STORAGE_STATUS_MASK = 0x42008E
SYMMETRIC_KEY = 0x42008F
TEMPLATE_ATTRIBUTE = 0x420091
TIME_STAMP = 0x420092
UNIQUE_IDENTIFIER = 0x420094
USAGE_LIMITS_COUNT = 0x420096
USERNAME = 0x420099
VALIDITY_INDICATOR = 0x42009B
VENDOR_IDENTIFICATION = 0x42009D
WRAPPING_METHOD = 0x42009E
PASSWORD = 0x4200A1
ENCODING_OPTION = 0x4200A3
OBJECT_GROUP_MEMBER = 0x4200AC
DIGITAL_SIGNATURE_ALGORITHM = 0x4200AE
DATA = 0x4200C2
SIGNATURE_DATA = 0x4200C3
RANDOM_IV = 0x4200C5
MAC_DATA = 0x4200C6
IV_LENGTH = 0x4200CD
TAG_LENGTH = 0x4200CE
FIXED_FIELD_LENGTH = 0x4200CF
COUNTER_LENGTH = 0x4200D0
INITIAL_COUNTER_VALUE = 0x4200D1
INVOCATION_FIELD_LENGTH = 0x4200D2
OFFSET_ITEMS = 0x4200D4
LOCATED_ITEMS = 0x4200D5
AUTH_ADDITIONAL_DATA = 0x4200FE
AUTH_TAG = 0x4200FF
SENSITIVE = 0x420120
ATTRIBUTES = 0x420125
COMMON_ATTRIBUTES = 0x420126
PRIVATE_KEY_ATTRIBUTES = 0x420127
PUBLIC_KEY_ATTRIBUTES = 0x420128
ATTRIBUTE_REFERENCE = 0x42013B
CURRENT_ATTRIBUTE = 0x42013C
NEW_ATTRIBUTE = 0x42013D

# Operation enumeration (spec 9.1.3.2.27)
OPS = {
    "create": 0x01, "create_key_pair": 0x02, "register": 0x03, "rekey": 0x04, "derive_key": 0x05,
    "locate": 0x08, "check": 0x09, "get": 0x0A, "get_attributes": 0x0B,
    "get_attribute_list": 0x0C, "modify_attribute": 0x0E, "delete_attribute": 0x0F,
    "activate": 0x12, "revoke": 0x13, "destroy": 0x14, "query": 0x18,
    "rekey_key_pair": 0x1D, "discover_versions": 0x1E, "encrypt": 0x1F, "decrypt": 0x20,
    "sign": 0x21, "signature_verify": 0x22, "mac": 0x23, "set_attribute": 0x31,
}

# Object Type enumeration
OT_CERTIFICATE, OT_SYMMETRIC_KEY, OT_PUBLIC_KEY, OT_PRIVATE_KEY, OT_SPLIT_KEY = 1, 2, 3, 4, 5
OT_SECRET_DATA, OT_OPAQUE = 7, 8

STATUS_SUCCESS, STATUS_FAILED = 0, 1


def reasons_for(v):
    """Result Reason values a server speaking version v may send (spec 9.1.3.2.29)."""
    v = tuple(v)
    r = list(range(0x01, 0x12)) + [0x100]
    if v >= (1, 1):
        r.append(0x12)
    if v >= (1, 2):
        r += [0x13, 0x14, 0x15]
    if v >= (1, 4):
        r += [0x16, 0x17, 0x18]
    if v >= (2, 0):
        r += list(range(0x19, 0x27)) + [0x28, 0x29, 0x2A, 0x2B, 0x2C, 0x2D, 0x2E, 0x2F, 0x30,
                                        0x32, 0x34, 0x35, 0x36, 0x37] + list(range(0x39, 0x48))
    return r


# attribute name <-> tag (KMIP 2.0 encodes attributes by tag, 1.x by name)
ATTR_TAG = {
    "Cryptographic Algorithm": CRYPTOGRAPHIC_ALGORITHM,
    "Cryptographic Length": CRYPTOGRAPHIC_LENGTH,
    "Cryptographic Usage Mask": CRYPTOGRAPHIC_USAGE_MASK,
    "Operation Policy Name": OPERATION_POLICY_NAME,
    "Name": NAME,
    "Object Type": OBJECT_TYPE,
    "State": STATE,
    "Unique Identifier": UNIQUE_IDENTIFIER,
    "Object Group": OBJECT_GROUP,
    "Initial Date": INITIAL_DATE,
    "Activation Date": ACTIVATION_DATE,
    "Process Start Date": PROCESS_START_DATE,
    "Protect Stop Date": PROTECT_STOP_DATE,
    "Deactivation Date": DEACTIVATION_DATE,
    "Application Specific Information": APPLICATION_SPECIFIC_INFORMATION,
    "Sensitive": SENSITIVE,
    "Cryptographic Parameters": CRYPTOGRAPHIC_PARAMETERS,
}
ATTR_NAME = {v: k for k, v in ATTR_TAG.items()}
# reading direction only: every attribute tag a server answer may carry (KMIP 2.0 attribute
# references), so that the expectation names what the specification names
ATTR_NAME.update({
    CERTIFICATE_TYPE: "Certificate Type", 0x4200AD: "Certificate Length",
    0x4200AE: "Digital Signature Algorithm", 0x420034: "Digest", LEASE_TIME: "Lease Time",
    0x42004A: "Link", 0x420022: "Contact Information", 0x420048: "Last Change Date",
    0x420033: "Destroy Date", 0x420020: "Compromise Date",
    COMPROMISE_OCCURRENCE_DATE: "Compromise Occurrence Date", 0x420005: "Archive Date",
    0x420095: "Usage Limits", 0x420081: "Revocation Reason", 0x4200A8: "Fresh",
    0x4200BC: "Original Creation Date", 0x4200BB: "Key Value Present",
    0x4200FC: "Description", 0x4200FD: "Comment", 0x420121: "Always Sensitive",
    0x420122: "Extractable", 0x420123: "Never Extractable",
    0x420026: "Cryptographic Domain Parameters", 0x4200B1: "X.509 Certificate Identifier",
    0x4200B2: "X.509 Certificate Subject", 0x4200B3: "X.509 Certificate Issuer",
})

# how an attribute value is encoded (item type of the value)
ATTR_KIND = {
    "Cryptographic Algorithm": "enum", "Cryptographic Length": "int",
    "Cryptographic Usage Mask": "int", "Operation Policy Name": "text", "Name": "name",
    "Object Type": "enum", "State": "enum", "Unique Identifier": "text", "Object Group": "text",
    "Initial Date": "date", "Activation Date": "date", "Process Start Date": "date",
    "Protect Stop Date": "date", "Deactivation Date": "date",
    "Application Specific Information": "asi", "Sensitive": "bool",
}


# ----------------------------------------------------------------------------- fake socket
class FakeSocket(object):
    """sendall hands the request to `responder(bytes) -> bytes`; recv serves the reply through a
    chunk schedule (list of positive ints, cycled).  An exhausted reply reads as a closed peer."""

    def __init__(self, responder, chunks=None):
        self.responder = responder
        self.chunks = [max(1, int(c)) for c in (chunks or [])]
        self.ci = 0
        self.out = b""
        self.pos = 0
        self.requests = []
        self.replies = []
        self.recv_calls = 0
        self.recv_chunks = 0

    def sendall(self, data):
        data = bytes(data)
        self.requests.append(data)
        self.out = bytes(self.responder(data))
        self.replies.append(self.out)
        self.pos = 0

    def recv(self, n):
        self.recv_calls += 1
        if self.pos >= len(self.out):
            return b""
        k = n
        if self.chunks:
            k = max(1, min(n, self.chunks[self.ci % len(self.chunks)]))
            self.ci += 1
        out = self.out[self.pos:self.pos + k]
        self.pos += len(out)
        if out:
            self.recv_chunks += 1
        return out

    def shutdown(self, how):
        pass

    def close(self):
        pass

    def settimeout(self, t):
        pass


def kmip_version_enum(v):
    from kmip.core import enums
    return {(1, 0): enums.KMIPVersion.KMIP_1_0, (1, 1): enums.KMIPVersion.KMIP_1_1,
            (1, 2): enums.KMIPVersion.KMIP_1_2, (1, 3): enums.KMIPVersion.KMIP_1_3,
            (1, 4): enums.KMIPVersion.KMIP_1_4, (2, 0): enums.KMIPVersion.KMIP_2_0}[tuple(v)]


def make_client(v, responder, chunks=None, username=None, password=None):
    """A ProxyKmipClient marked open whose proxy talks to a FakeSocket.  No config file lookups:
    os.devnull is an (existing, empty) configuration file, so every setting takes its default or
    the explicit value."""
    from kmip.pie.client import ProxyKmipClient
    from kmip.services.kmip_protocol import KMIPProtocol
    kv = None if v is None else kmip_version_enum(v)    # None: documented default, KMIP 1.2
    client = ProxyKmipClient(hostname="127.0.0.1", port=5696, config_file=os.devnull,
                             username=username, password=password, kmip_version=kv)
    sock = FakeSocket(responder, chunks)
    client.proxy.socket = sock
    client.proxy.protocol = KMIPProtocol(sock)
    client._is_open = True
    return client, sock


def release_client(client):
    """Detach the fake socket so KMIPProxy.__del__/close() has nothing to do."""
    try:
        client.proxy.socket = None
        client._is_open = False
    except Exception:
        pass


# ----------------------------------------------------------------------------- tree helpers
def kid(node, tag):
    return T.child(node, tag) if node is not None else None


def kids(node, tag):
    return T.children(node, tag) if node is not None else []


def val(node, tag, default=None):
    c = kid(node, tag)
    if c is None or "value" not in c:
        return default
    return c["value"]


def hexs(b):
    return None if b is None else bytes(b).hex()


def unhex(s):
    return None if s is None else bytes.fromhex(s)


# ----------------------------------------------------------------------------- request inspection
def parse_request(data):
    """Independent parse of what the client emitted.  Returns dict(version, operation, payload,
    batch_count, items, credentials) or raises TTLVError."""
    msg = T.parse_one(data)
    if msg["tag"] != REQUEST_MESSAGE:
        raise T.TTLVError("top-level item 0x%06x is not a RequestMessage" % msg["tag"])
    hdr = kid(msg, REQUEST_HEADER)
    if hdr is None:
        raise T.TTLVError("no RequestHeader")
    pv = kid(hdr, PROTOCOL_VERSION)
    version = (val(pv, PROTOCOL_VERSION_MAJOR), val(pv, PROTOCOL_VERSION_MINOR))
    items = kids(msg, BATCH_ITEM)
    creds = []
    auth = kid(hdr, AUTHENTICATION)
    for c in kids(auth, CREDENTIAL):
        cv = kid(c, CREDENTIAL_VALUE)
        creds.append({"type": val(c, CREDENTIAL_TYPE), "username": val(cv, USERNAME),
                      "password": val(cv, PASSWORD)})
    out = {"version": version, "batch_count": val(hdr, BATCH_COUNT), "items": items,
           "credentials": creds, "operation": None, "payload": None}
    if items:
        out["operation"] = val(items[0], OPERATION)
        out["payload"] = kid(items[0], REQUEST_PAYLOAD)
    return out


def request_attrs(container, v):
    """Attributes inside a TemplateAttribute-like (1.x) / Attributes-like (2.0) structure as a list
    of (name, index, value_node)."""
    out = []
    if container is None:
        return out
    if tuple(v) >= (2, 0):
        for c in container.get("children", []):
            out.append((ATTR_NAME.get(c["tag"], "tag:%06x" % c["tag"]), None, c))
    else:
        for a in kids(container, ATTRIBUTE):
            out.append((val(a, ATTRIBUTE_NAME), val(a, ATTRIBUTE_INDEX), kid(a, ATTRIBUTE_VALUE)))
    return out


def name_of(value_node):
    """Name attribute value structure -> (text, type)."""
    return (val(value_node, NAME_VALUE), val(value_node, NAME_TYPE))


# ----------------------------------------------------------------------------- response building
def enc_version(v):
    return T.encode_struct(PROTOCOL_VERSION, [T.encode_integer(PROTOCOL_VERSION_MAJOR, v[0]),
                                              T.encode_integer(PROTOCOL_VERSION_MINOR, v[1])])


SERVER_HASHED_PASSWORD = 0x420155
SERVER_CORRELATION_VALUE = 0x420106


def build_response(v, operation, status, reason=None, message=None, payload_children=None,
                   timestamp=1_700_000_000, repeat=1, hdr=None):
    """A single-item ResponseMessage.  operation None = not echoed; payload_children None = no
    payload, else list of encoded children of ResponsePayload."""
    extra = []
    if hdr and hdr.get("shp") is not None:
        extra.append(T.encode_bytes(SERVER_HASHED_PASSWORD, bytes.fromhex(hdr["shp"])))
    if hdr and hdr.get("scv") is not None:
        extra.append(T.encode_text(SERVER_CORRELATION_VALUE, hdr["scv"]))
    hdr = T.encode_struct(RESPONSE_HEADER, [enc_version(v), T.encode_datetime(TIME_STAMP, timestamp)]
                          + extra + [T.encode_integer(BATCH_COUNT, repeat)])
    item = []
    if operation is not None:
        item.append(T.encode_enum(OPERATION, operation))
    item.append(T.encode_enum(RESULT_STATUS, status))
    if reason is not None:
        item.append(T.encode_enum(RESULT_REASON, reason))
    if message is not None:
        item.append(T.encode_text(RESULT_MESSAGE, message))
    if payload_children is not None:
        item.append(T.encode_struct(RESPONSE_PAYLOAD, payload_children))
    return T.encode_struct(RESPONSE_MESSAGE, [hdr] + [T.encode_struct(BATCH_ITEM, item)] * repeat)


def single_item(data):
    """Independent reading of a response: (version, item dict as ttlvref.response_items)."""
    items = T.response_items(data)
    if len(items) != 1:
        raise HarnessError("expected a single-item response, got %d items" % len(items))
    return T.response_version(data), items[0]
