"""C19 set-up (b): the real KmipEngine (vlib.harness.Server) behind the client.  The oracle is
differential: what the client returns / raises vs. the response captured on the wire and decoded
independently with ttlvref."""
import traceback

from hypothesis import strategies as st

from vlib import core
from vlib import ttlvref as T
from vlib import c19_wire as W
from vlib.c19_ops import OPS, text_s, bytes_s, nbytes_s, opt
from vlib import c19_exec as X

REF = st.one_of(st.integers(0, 7).map(lambda i: "$%d" % i), st.just("424242"))

AES_CP = {"block_cipher_mode": 1, "padding_method": 3, "cryptographic_algorithm": 3}
RSA_CP = {"padding_method": 8, "cryptographic_algorithm": 4, "hashing_algorithm": 6}
IV16 = st.binary(min_size=16, max_size=16).map(lambda b: b.hex())


def step(api, op, args):
    return st.fixed_dictionaries({"api": api if not isinstance(api, str) else st.just(api),
                                  "op": st.just(op), "args": args})


API = st.sampled_from(["pie", "pie", "proxy"])


def steps_s(v):
    """One client call against the engine; uids refer to identifiers returned earlier ($k)."""
    v = tuple(v)
    fd = st.fixed_dictionaries
    mk = [
        step(API, "create", fd({"alg": st.just(3), "len": st.sampled_from([128, 192, 256]),
                                "opn": st.none(), "name": opt(text_s),
                                "masks": st.sampled_from([None, [4, 8], [4, 8, 0x10, 0x20], [0x200, 4]])})),
        step(API, "create", fd({"alg": st.just(9), "len": st.just(256), "opn": st.none(),
                                "name": st.none(), "masks": st.just([0x80, 0x100])})),
        step("pie", "register", OPS["register"].args(v, "pie").map(
            lambda a: dict(a, opn=None))),
        step(API, "create_key_pair", fd({"alg": st.just(4), "len": st.just(1024), "opn": st.none(),
                                         "pub_name": opt(text_s), "pub_masks": st.just([2]),
                                         "priv_name": opt(text_s), "priv_masks": st.just([1])})),
    ]
    use = [
        step(API, "activate", fd({"uid": REF})),
        step(API, "destroy", fd({"uid": REF})),
        step(API, "revoke", fd({"code": st.integers(1, 7), "uid": REF, "msg": opt(text_s),
                                "date": opt(st.integers(1, 1_600_000_000))})),
        step(API, "get", fd({"uid": REF, "kws": st.none()})),
        step(API, "get", fd({"uid": REF, "kws": fd({"method": st.just(1), "enc": st.just(1),
                                                    "eki": fd({"uid": REF, "cp": st.just({"block_cipher_mode": 0xD})})})})),
        step(API, "get_attributes", fd({"uid": REF, "names": opt(st.lists(st.sampled_from(
            OPS["get_attributes"].NAMES), min_size=1, max_size=3, unique=True))})),
        step(API, "get_attribute_list", fd({"uid": REF})),
        step(API, "locate", OPS["locate"].args(v, "pie")),
        step(API, "locate", fd({"max": opt(st.integers(1, 3)), "offset": opt(st.integers(0, 2)),
                                "ssm": st.none(), "ogm": st.none(), "attrs": st.none()})),
        step(API, "encrypt", fd({"data": bytes_s, "uid": REF, "cp": st.just(AES_CP), "iv": IV16})),
        step(API, "encrypt", OPS["encrypt"].args(v, "pie").map(lambda a: dict(a, uid="$0"))),
        step(API, "decrypt", fd({"data": st.binary(min_size=16, max_size=16).map(lambda b: b.hex()),
                                 "uid": REF, "cp": st.just(AES_CP), "iv": IV16})),
        step(API, "sign", fd({"data": bytes_s, "uid": REF, "cp": st.just(RSA_CP)})),
        step(API, "signature_verify", fd({"message": bytes_s, "signature": nbytes_s, "uid": REF,
                                          "cp": st.just(RSA_CP)})),
        step(API, "mac", fd({"data": nbytes_s, "uid": REF, "alg": st.sampled_from([None, 9, 0xB])})),
        step(API, "derive_key", fd({"otype": st.sampled_from([2, 7]), "uids": st.lists(REF, min_size=1, max_size=2),
                                    "method": st.sampled_from([2, 3, 1]),
                                    "dp": fd({"cp": st.just({"hashing_algorithm": 6})},
                                             optional={"data": nbytes_s, "salt": nbytes_s,
                                                       "iter": st.integers(1, 50)}),
                                    "len": st.sampled_from([128, 256]), "alg": st.just(3)})),
        step(API, "rekey", fd({"uid": REF, "offset": opt(st.integers(0, 100))})),
    ]
    if v >= (2, 0):
        use += [step(API, "set_attribute", OPS["set_attribute"].args(v, "pie").map(lambda a: dict(a, uid="$0"))),
                step(API, "modify_attribute", OPS["modify_attribute"].args(v, "pie").map(lambda a: dict(a, uid="$1"))),
                step(API, "delete_attribute", OPS["delete_attribute"].args(v, "pie").map(lambda a: dict(a, uid="$0")))]
    else:
        use += [step(API, "modify_attribute", OPS["modify_attribute"].args(v, "pie").map(lambda a: dict(a, uid="$0"))),
                step(API, "delete_attribute", OPS["delete_attribute"].args(v, "pie").map(lambda a: dict(a, uid="$1")))]
    use.append(step("proxy", "query", OPS["query"].args(v, "proxy")))
    if v >= (1, 1):
        use.append(step("proxy", "discover_versions", OPS["discover_versions"].args(v, "proxy")))
    return st.one_of(st.one_of(*mk), st.one_of(*use), st.one_of(*use))


def engine_case_s():
    def for_v(v):
        return st.fixed_dictionaries({
            "mode": st.just("engine"), "v": st.just(list(v)),
            "steps": st.lists(steps_s(v), min_size=2, max_size=10),
            "chunks": st.lists(st.integers(1, 200), min_size=0, max_size=4)})

    def versioned_step(v):
        return steps_s(v).map(lambda stp: dict(stp, v=list(v)))

    # one client object whose kmip_version is changed between calls (client.kmip_version setter)
    switching = st.fixed_dictionaries({
        "mode": st.just("engine"), "v": st.sampled_from([list(x) for x in W.VERSIONS]),
        "steps": st.lists(st.sampled_from(W.VERSIONS).flatmap(versioned_step), min_size=2, max_size=8),
        "chunks": st.lists(st.integers(1, 200), min_size=0, max_size=4)})
    return st.one_of(st.sampled_from(W.VERSIONS).flatmap(for_v), st.sampled_from(W.VERSIONS).flatmap(for_v),
                     switching)


# ----------------------------------------------------------------------------- execution
def _resolve(x, uids):
    if isinstance(x, str) and x.startswith("$") and x[1:].isdigit():
        return uids[int(x[1:]) % len(uids)] if uids else "1"
    return x


def resolve_args(a, uids):
    a = dict(a)
    if "uid" in a:
        a["uid"] = _resolve(a["uid"], uids)
    if "uids" in a:
        a["uids"] = [_resolve(u, uids) for u in a["uids"]]
    k = a.get("kws")
    if isinstance(k, dict):
        k = dict(k)
        for key in ("eki", "mski"):
            if key in k:
                k[key] = dict(k[key], uid=_resolve(k[key]["uid"], uids))
        a["kws"] = k
    return a


def session_error_response(server, exc, stage, request):
    """What KmipSession sends when it cannot parse / process a request (session.py)."""
    from kmip.core import enums, utils, exceptions as kexc
    from kmip.core.messages import contents
    eng = server.engine
    kv = contents.protocol_version_to_kmip_version(eng.default_protocol_version)
    if stage == "decode":
        resp = eng.build_error_response(contents.ProtocolVersion(1, 0), enums.ResultReason.INVALID_MESSAGE,
                                        "Error parsing request message. See server logs for more "
                                        "information.")
    elif isinstance(exc, kexc.KmipError):
        resp = eng.build_error_response(request.request_header.protocol_version, exc.reason, str(exc))
    else:
        resp = eng.build_error_response(request.request_header.protocol_version,
                                        enums.ResultReason.GENERAL_FAILURE,
                                        "An unexpected error occurred while processing request. See "
                                        "server logs for more information.")
    s = utils.BytearrayStream()
    resp.write(s, kmip_version=kv)
    return bytes(s.buffer)


def run_engine(spec):
    from vlib import harness as H
    v = tuple(spec["v"])
    buckets, classes = [], ["mode:engine", "v:" + X.vkey(v)]
    server = H.Server()
    state = {"harness": None, "stage": None}

    def responder(req):
        try:
            H.CLOCK.tick()
            r = server.process(req, ("alice", None))
            state["stage"] = r["stage"]
            if r["resp"] is not None:
                return r["resp"]
            return session_error_response(server, r["error"], r["stage"], r.get("request"))
        except BaseException:
            state["harness"] = traceback.format_exc()
            raise

    client, sock = W.make_client(v, responder, spec.get("chunks"))
    uids = []
    nontrivial = False
    try:
        for i, stp in enumerate(spec["steps"]):
            if "v" in stp and tuple(stp["v"]) != v:
                v = tuple(stp["v"])
                client.kmip_version = W.kmip_version_enum(v)
                classes.append("version-switched-mid-session")
                nontrivial = True
            op = OPS[stp["op"]]
            api = stp["api"]
            a = resolve_args(stp["args"], uids)
            label = "step %d %s.%s" % (i, api, op.name)
            n_before = len(sock.requests)
            try:
                outcome = ("ret", op.call(api, client, a, v))
            except Exception as e:      # noqa
                outcome = ("exc", e)
            if state["harness"] is not None:
                raise core.HarnessError("engine responder failed:\n" + state["harness"])
            classes.append("op:%s.%s" % (api, op.name))
            if len(sock.requests) == n_before:
                e = outcome[1]
                if outcome[0] == "exc" and X.is_refusal(e):
                    classes.append("refused:" + type(e).__name__)
                elif outcome[0] == "exc":
                    buckets.append((core.exc_bucket(X.PID, "no-request|" + op.name, e),
                                    "%s(%r) raised %s: %s before sending anything\n%s"
                                    % (label, a, type(e).__name__, e, X._tb(e))))
                else:
                    buckets.append(("C19|no-request|returned|%s.%s" % (api, op.name), label))
                continue
            req, reply = sock.requests[-1], sock.replies[-1]
            X.check_request(req, op, api, a, v, None, buckets, label)
            # independent reading of what the server answered
            try:
                _, item = W.single_item(reply)
            except (T.TTLVError, core.HarnessError) as e:
                raise core.HarnessError("server reply not readable by ttlvref (%s): %s" % (e, reply.hex()))
            if item["status"] == 0:
                try:
                    p = op.dec(item["payload"], v)
                except Exception as e:
                    raise core.HarnessError("cannot decode %s payload: %s" % (op.name, e))
                wire = {"kind": "success", "payload": p}
                classes.append("resp:success")
                if isinstance(p.get("uid"), str) and op.name in ("create", "register", "derive_key"):
                    uids.append(p["uid"])
                if op.name == "create_key_pair":
                    uids += [p["pub"], p["priv"]]
            else:
                wire = {"kind": "failure", "reason": item["reason"], "message": item["message"]}
                classes.append("resp:failure-msg" if item["message"] is not None else "resp:failure-nomsg")
                classes.append("reason:0x%x" % (item["reason"] or 0))
                nontrivial = True
            X.judge(op, api, v, outcome, wire, buckets, label)
        if sock.recv_chunks > 2 * len(sock.replies) or v != (1, 2):
            nontrivial = nontrivial or bool(sock.replies)
        classes.append("chunks:2+" if sock.recv_chunks > 2 * len(sock.replies) else "chunks:1")
    finally:
        W.release_client(client)
        server.close()
    return {"buckets": buckets, "classes": classes, "nontrivial": nontrivial, "refused": False}
