"""C02 part A: everything the codec emits is spec-conformant TTLV (oracles over one emitted value).

Oracles (all against vlib.ttlvref / literal spec tables, never against the library reader):
  parse      ttlvref.parse_one(enc(x, v)) accepts and consumes everything; item type 11 only under
             KMIP 2.0
  primitive  for the nine primitive classes and every single-value wrapper class:
             enc(x) == ttlvref.encode_<type>(tag, value) byte for byte (BigInteger: a wider but
             correctly sign-extended multiple-of-8 encoding is accepted and counted)
  layout     every RequestHeader / ResponseHeader / BatchItem / ProtocolVersion / Attribute /
             KeyBlock / KeyValue / Name node anywhere in an emitted tree has only the children the
             spec lists, with the spec's item types, in the spec's order, none repeated unless
             the spec allows; for the top-level class each constructor field given in the spec is
             present as the child with the spec's tag
  fidelity   every leaf value placed in the spec appears in the emitted tree with its type and
             value (a field the writer leaves out altogether is C01's business and not judged)
"""
from collections import Counter

from vlib import codec_table as T
from vlib import c02_tables as L
from vlib import ttlvref

PID = "C02"

_KIND_TYPE = None


def _kind_type(kind):
    if isinstance(kind, (T.Text, T.AttrName)):
        return L.TEXT
    if isinstance(kind, T.Bytes):
        return L.BYTES
    if isinstance(kind, (T.Int, T.Mask)):
        return L.INT
    if isinstance(kind, T.Long):
        return L.LONG
    if isinstance(kind, T.Big):
        return L.BIG
    if isinstance(kind, T.Ivl):
        return L.IVL
    if isinstance(kind, T.Date):
        return L.DATE
    if isinstance(kind, T.Bool):
        return L.BOOL
    if isinstance(kind, T.Enum):
        return L.ENUM
    return None


def _enum_number(kind, val, fields):
    """The number the caller passed: the enumeration member's value (input side)."""
    from kmip.core import enums
    if kind.name == "$ENUMS":
        return None
    return getattr(enums, kind.name)[val].value


def in_domain(typ, val):
    """Is val inside the value space section 9.1.1.4 defines for the item type?"""
    if typ == L.INT:
        return -2 ** 31 <= val <= 2 ** 31 - 1
    if typ in (L.LONG, L.DATE):
        return -2 ** 63 <= val <= 2 ** 63 - 1
    if typ in (L.ENUM, L.IVL):
        return 0 <= val <= 2 ** 32 - 1
    if typ == L.TEXT:
        try:
            val.encode("utf-8")
            return True
        except UnicodeEncodeError:
            return False
    return True


def ref_encode(typ, tag, val):
    if typ == L.INT:
        return ttlvref.encode_integer(tag, val)
    if typ == L.LONG:
        return ttlvref.encode_long(tag, val)
    if typ == L.BIG:
        return ttlvref.encode_big(tag, val)
    if typ == L.ENUM:
        return ttlvref.encode_enum(tag, val)
    if typ == L.BOOL:
        return ttlvref.encode_bool(tag, val)
    if typ == L.TEXT:
        return ttlvref.encode_text(tag, val)
    if typ == L.BYTES:
        return ttlvref.encode_bytes(tag, val)
    if typ == L.DATE:
        return ttlvref.encode_datetime(tag, val)
    if typ == L.IVL:
        return ttlvref.encode_interval(tag, val)
    raise ValueError(typ)


def big_is_valid_wider(b, tag, val):
    """b is a BigInteger item for val that is longer than the minimal one but still what section
    9.1.1.4 allows: two's complement, big-endian, length a multiple of 8, no other bytes."""
    if len(b) < 16 or int.from_bytes(b[0:3], "big") != tag or b[3] != L.BIG:
        return False
    n = int.from_bytes(b[4:8], "big")
    if n % 8 or n == 0 or len(b) != 8 + n:
        return False
    return int.from_bytes(b[8:], "big", signed=True) == val


# ------------------------------------------------------------------------ single-value classes
def single_value_field(row):
    """The 'value' field of a primitive / wrapper row whose wire form is one primitive item."""
    fs = [f for f in row.fields if not f.meta]
    if len(fs) != 1 or fs[0].name != "value":
        return None
    k = fs[0].kind
    if isinstance(k, T.Var):
        return fs[0] if row.name == "Enumeration" else None
    return fs[0] if _kind_type(k) is not None else None


def intended_leaf(spec):
    """(type, python value) the caller asked to encode, for a single-value class; None if the
    spec leaves the value to the constructor's default."""
    row = T.ROWS[spec["cls"]]
    f = single_value_field(row)
    fields = spec.get("fields", {})
    if f is None or "value" not in fields:
        return None
    val = fields["value"]
    kind = f.kind
    if isinstance(kind, T.Var):             # Enumeration primitive: enum class in sibling field
        from kmip.core import enums
        return L.ENUM, getattr(enums, fields["enum"])[val].value
    typ = _kind_type(kind)
    if typ == L.ENUM:
        return typ, _enum_number(kind, val, fields)
    if typ == L.BYTES:
        return typ, bytes.fromhex(val)
    if typ == L.BOOL:
        return typ, bool(val)
    return typ, val


def _label_text(val):
    try:
        val.encode("ascii")
        return "ascii"
    except UnicodeEncodeError:
        return "non-ascii"


def check_single(spec, enc, exc):
    """Byte-for-byte oracle for a single-value class.  enc = emitted bytes or None (then exc is
    the exception the writer raised).  -> (buckets, notes)"""
    leaf = intended_leaf(spec)
    if leaf is None:
        return [], []
    typ, val = leaf
    tname = L.TYPE_NAMES[typ]
    cls = spec["cls"]
    if not in_domain(typ, val):
        return [], ["out-of-domain:" + tname]
    if enc is None:
        sub = _label_text(val) if typ == L.TEXT else _value_class(typ, val)
        return [("%s|primitive|%s|encode-raises|%s|%s" % (PID, tname, type(exc).__name__, sub),
                 "%s(%r) is inside the value space of section 9.1.1.4 but cannot be encoded: %r"
                 % (cls, val if typ != L.BYTES else val.hex(), exc))], []
    tag = int.from_bytes(enc[0:3], "big")
    want = ref_encode(typ, tag, val)
    if enc == want:
        return [], []
    if typ == L.BIG and big_is_valid_wider(enc, tag, val):
        return [], ["biginteger-wider-than-minimal"]
    return [("%s|primitive|%s|bytes-differ|%s" % (PID, tname, _diff_label(enc, want)),
             "%s value %r: emitted %s, reference %s"
             % (cls, val if typ != L.BYTES else val.hex(), enc.hex()[:200], want.hex()[:200]))], []


def _value_class(typ, val):
    if typ in (L.INT, L.LONG, L.BIG, L.DATE):
        return "negative" if val < 0 else "non-negative"
    return "any"


def _diff_label(got, want):
    if got[:3] != want[:3]:
        return "tag"
    if got[3] != want[3]:
        return "type"
    if got[4:8] != want[4:8]:
        return "length"
    if len(got) != len(want):
        return "size"
    n = int.from_bytes(want[4:8], "big")
    if got[8:8 + n] != want[8:8 + n]:
        return "value"
    return "padding"


# ------------------------------------------------------------------------ layout
def check_layout(root, top_cls=None, fields=None, v=None):
    """Spec layout of every known structure in the tree -> buckets."""
    out = []

    def walk(node, parent):
        if node["type"] == L.STRUCT:
            lay = L.LAYOUT.get(node["tag"])
            if lay is not None:
                _one(node, lay, out)
            for c in node["children"]:
                walk(c, node)
    walk(root, None)
    if top_cls in L.FIELD_TAGS and fields is not None:
        tag, fmap = L.FIELD_TAGS[top_cls]
        if root["tag"] != tag or root["type"] != L.STRUCT:
            out.append(("%s|layout|%s|wrong-structure-tag" % (PID, top_cls),
                        "emitted 0x%06x type %d, spec 0x%06x" % (root["tag"], root["type"], tag)))
        else:
            have = Counter(c["tag"] for c in root["children"])
            for fname, ctag in sorted(fmap.items()):
                if fname not in fields:
                    continue
                val = fields[fname]
                need = len(val) if isinstance(val, list) else 1
                if have.get(ctag, 0) < need:
                    out.append(("%s|layout|%s|field-not-emitted-under-spec-tag|%s"
                                % (PID, top_cls, fname),
                                "field %s given, child 0x%06x present %d time(s), expected %d"
                                % (fname, ctag, have.get(ctag, 0), need)))
    return out


def _one(node, lay, out):
    name, kids = lay
    index = {t: i for i, (t, _n, _ty, _m) in enumerate(kids)}
    last = -1
    seen = Counter()
    for c in node["children"]:
        i = index.get(c["tag"])
        if i is None:
            if (c["tag"] >> 16) == 0x54:
                continue        # vendor extension items may appear anywhere
            out.append(("%s|layout|%s|unexpected-child" % (PID, name),
                        "child 0x%06x (type %d) is not part of %s" % (c["tag"], c["type"], name)))
            continue
        t, cname, types, multiple = kids[i]
        if types is not None and c["type"] not in types:
            out.append(("%s|layout|%s|%s|wrong-item-type" % (PID, name, cname),
                        "type %d, spec says %s" % (c["type"], "/".join(L.TYPE_NAMES[x] for x in types))))
        seen[t] += 1
        if seen[t] > 1 and not multiple:
            out.append(("%s|layout|%s|%s|repeated" % (PID, name, cname), ""))
        if i < last:
            out.append(("%s|layout|%s|%s|out-of-order" % (PID, name, cname),
                        "children: " + " ".join("%06x" % k["tag"] for k in node["children"])))
        last = max(last, i)


# ------------------------------------------------------------------------ fidelity (nested leaves)
def spec_leaves(spec, v, out=None, ctx=frozenset()):
    """[(type, value)] of the leaf values a spec places in the object (conservative: anything the
    wire legitimately transforms is left out)."""
    if out is None:
        out = []
    row = T.ROWS[spec["cls"]]
    fields = spec.get("fields", {})
    for f in row.fields:
        if f.meta or f.name not in fields:
            continue
        fctx = ctx
        if f.conv and tuple(v) >= T.V20:
            fctx = ctx | {"conv20"}
        _leaves_of(f.kind, fields[f.name], fields, v, out, fctx)
    return out


def _leaves_of(kind, val, sib, v, out, ctx):
    if isinstance(kind, T.Var):
        k2 = kind.fn(sib, v, frozenset())
        if k2 is None:
            if isinstance(val, dict) and "cls" in val:
                spec_leaves(val, v, out, ctx)
            return
        return _leaves_of(k2, val, sib, v, out, ctx)
    if isinstance(kind, (T.Obj, T.AttrVal)):
        if isinstance(val, dict) and "cls" in val:
            spec_leaves(val, v, out, ctx)
        return
    if isinstance(kind, T.Lst):
        for x in val:
            _leaves_of(kind.item, x, sib, v, out, ctx)
        return
    if isinstance(kind, T.Stream):
        return
    if isinstance(kind, T.AttrName):
        if tuple(v) >= T.V20 or "conv20" in ctx:
            return          # names travel as tags / enumerations under KMIP 2.0
        out.append((L.TEXT, val))
        return
    typ = _kind_type(kind)
    if typ is None:
        return
    if typ == L.ENUM:
        n = _enum_number(kind, val, sib)
        if n is not None:
            out.append((typ, n))
    elif typ == L.BYTES:
        out.append((typ, bytes.fromhex(val)))
    elif typ == L.BOOL:
        out.append((typ, bool(val)))
    else:
        out.append((typ, val))


def tree_leaves(node, out=None):
    if out is None:
        out = []
    if "children" in node:
        for c in node["children"]:
            tree_leaves(c, out)
    else:
        t = node["type"]
        val = node["value"]
        if t == L.BYTES:
            val = bytes(val)
        out.append((t, val))
    return out


def check_fidelity(spec, root, v):
    """-> (buckets, notes)"""
    try:
        want = Counter(spec_leaves(spec, v))
    except Exception:
        return [], ["fidelity-skipped"]
    have = Counter(tree_leaves(root))
    want_distinct = Counter(t for (t, _x) in want)
    have_distinct = Counter(t for (t, _x) in have)
    out, notes = [], []
    for (t, x) in want:
        if (t, x) in have:
            continue
        if have_distinct[t] < want_distinct[t]:
            notes.append("field-left-out-by-writer")     # not judged here (C01)
            continue
        out.append(("%s|fidelity|%s|value-given-is-not-the-value-emitted" % (PID, L.TYPE_NAMES[t]),
                    "%s: %s leaf %r given but not emitted; emitted leaves of that type: %r"
                    % (spec["cls"], L.TYPE_NAMES[t], x if t != L.BYTES else x.hex(),
                       [k[1] if t != L.BYTES else k[1].hex() for k in have if k[0] == t][:6])))
    return out, notes


# ------------------------------------------------------------------------ one case
def _types_in(node, acc):
    acc.add(node["type"])
    for c in node.get("children", []):
        _types_in(c, acc)
    return acc


def judge(spec):
    """One table case -> (buckets, notes, encoding or None)."""
    name, v = spec["cls"], tuple(spec["v"])
    try:
        x = T.build(spec)
    except Exception:
        return [], ["constructor-refused"], None
    try:
        b = T.encode(x, v)
    except Exception as e:
        bk, notes = check_single(spec, None, e)
        return bk, notes + ["writer-refused"], None
    buckets, notes = [], []
    try:
        root = ttlvref.parse_one(b)
    except ttlvref.TTLVError as e:
        return [("%s|malformed|%s" % (PID, malformed_label(b, str(e))),
                 "%s under KMIP %d.%d emits %s: %s" % (name, v[0], v[1], b.hex()[:300], e))], notes, b
    if L.DATEX in _types_in(root, set()) and v < (2, 0):
        buckets.append(("%s|malformed|item-type-11-before-kmip-2.0" % PID,
                        "%s under KMIP %d.%d" % (name, v[0], v[1])))
    bk, nn = check_single(spec, b, None)
    buckets += bk
    notes += nn
    buckets += check_layout(root, name, spec.get("fields", {}), v)
    if not spec.get("probe"):
        bk, nn = check_fidelity(spec, root, v)
        buckets += bk
        notes += nn
    return buckets, notes, b


import re
_HEXTAG = re.compile(r"0x[0-9a-fA-F]{6}")
_NUM = re.compile(r"\b\d+\b")


def malformed_label(data, msg):
    """Root-cause label for a ttlvref rejection: the rule that was broken and the item type of
    the innermost item at which parsing stopped (not the class that happened to contain it)."""
    rule = _NUM.sub("N", _HEXTAG.sub("T", msg))
    if "not UTF-8" in rule:
        rule = "text string T not UTF-8"
    where = _stop_type(bytes(data))
    return "%s|at-or-after-%s" % (rule, where)


def _stop_type(data):
    """Item type name of the last item a lenient walk can still read before things go wrong."""
    last = ["start"]

    def walk(o, end, depth):
        while o + 8 <= end and depth < 64:
            tag_hi = data[o]
            typ = data[o + 3]
            ln = int.from_bytes(data[o + 4:o + 8], "big")
            if tag_hi not in (0x42, 0x54) or not 1 <= typ <= 11:
                return False
            pad = (ln + 7) // 8 * 8
            if typ == 1:
                if o + 8 + ln > end:
                    last[0] = "Structure"
                    walk(o + 8, end, depth + 1)
                    return False
                if not walk(o + 8, o + 8 + ln, depth + 1):
                    return False
                last[0] = "Structure"
            else:
                fixed = {2: 4, 5: 4, 10: 4, 3: 8, 6: 8, 9: 8, 11: 8}.get(typ)
                last[0] = L.TYPE_NAMES[typ]
                if fixed is not None and ln != fixed:
                    return False
                if o + 8 + pad > end or any(data[o + 8 + ln:o + 8 + pad]):
                    return False
            o += 8 + pad
        return o == end
    try:
        walk(0, len(data), 0)
    except Exception:
        pass
    return last[0]


# ------------------------------------------------------------------------ non-triviality (rule of C01)
def _leaf_info(spec, out):
    row = T.ROWS[spec["cls"]]
    fields = spec.get("fields", {})
    for f in row.fields:
        if f.name in fields:
            _leaf_val(f.kind, fields[f.name], out)


def _leaf_val(kind, val, out):
    if isinstance(val, dict) and "cls" in val:
        _leaf_info(val, out)
        return
    if isinstance(val, list):
        item = kind.item if isinstance(kind, T.Lst) else kind
        if len(val) == 0:
            out.append((True, None))
        for x in val:
            _leaf_val(item, x, out)
        return
    if isinstance(kind, T.Var):
        return
    if isinstance(kind, (T.Text, T.AttrName)):
        n = len(val.encode("utf-8", "surrogatepass"))
        out.append((n in T.LEN_EDGES or n >= 256 or any(ord(c) > 127 for c in val), n % 8))
    elif isinstance(kind, (T.Bytes, T.Stream)):
        n = len(val) // 2
        out.append((n in T.LEN_EDGES or n >= 256, n % 8))
    elif isinstance(kind, T.Int):
        out.append((val in T.INT_EDGES, None))
    elif isinstance(kind, (T.Long, T.Date)):
        out.append((val in T.LONG_EDGES, None))
    elif isinstance(kind, T.Ivl):
        out.append((val in T.IVL_EDGES or val == 2 ** 32, None))
    elif isinstance(kind, T.Big):
        out.append((val in T.BIG_EDGES, None))
    elif isinstance(kind, T.Bool):
        out.append((val is False, None))
    elif isinstance(kind, T.Mask):
        out.append((val == 0, None))
    else:
        out.append((False, None))


def nontrivial_key(spec):
    """-> (key, satisfies the rule): at least one optional field present or a boundary value;
    distinct by (class, version, top-level presence bitmap, text/bytes length residues)."""
    row = T.ROWS[spec["cls"]]
    fields = spec.get("fields", {})
    v = tuple(spec["v"])
    opt = [f for f in row.fields if not f.meta and f.req is not True and f.exists(v)]
    bitmap = tuple(1 if f.name in fields else 0 for f in opt)
    leaves = []
    try:
        _leaf_info(spec, leaves)
    except Exception:
        return (spec["cls"], v, bitmap, ()), any(bitmap)
    residues = tuple(sorted(set(r for _b, r in leaves if r is not None)))
    boundary = any(bd for bd, _r in leaves)
    return (spec["cls"], v, bitmap, residues), (any(bitmap) or boundary)
