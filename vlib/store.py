"""A standard template store used by several checks (built once per process, copied per case)."""
import atexit
import os
import shutil

from vlib import fixtures as F
from vlib import harness as H

_template = {}


class TemplateError(Exception):
    """The standard store could not be built; .reqs are the request specs issued so far (the last
    one is the request that did not do what the template needs), replayable on an empty store."""

    def __init__(self, reqs, why):
        Exception.__init__(self, why)
        self.reqs = reqs


class _Rec(object):
    """Client wrapper that records every request it issues as a C13-style request spec."""

    def __init__(self, client, log):
        self._c = client
        self._log = log

    def one(self, item, **hdr):
        self._log.append({"who": self._c.user, "v": list(hdr.get("v", self._c.v)),
                          "items": [item]})
        return self._c.one(item, **hdr)


def standard_template():
    """Returns (db_path, index) where index maps 'Type/STATE' -> uid, plus 'bob', 'destroyed'.
    All objects are owned by alice except index['bob']; every object carries a name, one group
    and one application-specific-information entry."""
    if "std" in _template:
        return _template["std"]
    start = H.CLOCK.now
    log = []
    try:
        return _build(log, start)
    except TemplateError:
        raise
    except Exception as e:
        H.CLOCK.now = max(start, 1_700_000_000)
        raise TemplateError(log, "%s: %s" % (type(e).__name__, str(e)[:300]))


def _build(log, start):
    H.CLOCK.now = 1_600_000_000
    s = H.Server()
    a = _Rec(H.Client(s, "alice"), log)
    idx = {}
    for t in H.OBJECT_TYPES:
        states = F.STATES if t in F.HAS_STATE else ["NONE"]
        for st in states:
            extra = [["Name", "n-%s-%s" % (t, st)], ["Object Group", "g1"],
                     ["Application Specific Information", {"ns": "ns1", "data": "d-%s" % t}]]
            r = a.one(F.register_item(t, label="%s-%s" % (t, st), extra_attrs=extra))
            assert r["status"] == "SUCCESS", r
            uid = r["payload"]["uid"]
            if st != "NONE":
                F.put_state(a, uid, st)
            idx["%s/%s" % (t, st)] = uid
    b = _Rec(H.Client(s, "bob"), log)
    r = b.one(F.create_item())
    idx["bob"] = r["payload"]["uid"]
    r = a.one(F.create_item())
    d = r["payload"]["uid"]
    assert a.one({"op": "Destroy", "uid": d})["status"] == "SUCCESS"
    idx["destroyed"] = d
    r = a.one({"op": "Register", "obj": F.obj_spec("SecretData", "salt"),
               "attrs": [["Cryptographic Usage Mask", F.ALL_MASK]]})
    idx["secret2"] = r["payload"]["uid"]
    # an object under a policy with a groups section (see policies()): access depends on the
    # requester's group list, not only on the user name
    r = b.one(F.register_item("SymmetricKey", label="team", extra_attrs=[["Operation Policy Name", "team"], ["Name", "n-team"]]))
    assert r["status"] == "SUCCESS", r
    idx["team"] = r["payload"]["uid"]
    s.stop()
    keep = s.dir
    atexit.register(shutil.rmtree, keep, True)
    _template["std"] = (s.db, idx)
    H.CLOCK.now = max(start, 1_700_000_000)
    return _template["std"]


def template_requests():
    """The requests that build the standard template, as C13-style request specs (so that a check
    can judge them like any other case when the template cannot be built)."""
    reqs = []
    for t in H.OBJECT_TYPES:
        states = F.STATES if t in F.HAS_STATE else ["NONE"]
        for st in states:
            extra = [["Name", "n-%s-%s" % (t, st)], ["Object Group", "g1"],
                     ["Application Specific Information", {"ns": "ns1", "data": "d-%s" % t}]]
            reqs.append({"who": "alice", "v": [1, 2], "items": [F.register_item(t, label="%s-%s" % (t, st), extra_attrs=extra)]})
    reqs.append({"who": "bob", "v": [1, 2], "items": [F.create_item()]})
    return reqs


def policies():
    """Built-in policies plus 'team': no preset section; group 'admins' may do everything to every
    object type, group 'staff' may only locate."""
    from kmip.core import enums
    p = H.builtin_policies()
    ots = [H.OT[t] for t in H.OBJECT_TYPES]
    p["team"] = {"groups": {
        "admins": {t: {o: enums.Policy.ALLOW_ALL for o in enums.Operation} for t in ots},
        "staff": {t: {enums.Operation.LOCATE: enums.Policy.ALLOW_ALL} for t in ots}}}
    return p


def fresh_server():
    db, idx = standard_template()
    return H.Server(policies=policies(), template=db), idx
