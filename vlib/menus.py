"""Request menus: for each operation, a list of (label, item spec) covering valid requests,
absent optionals, parameters inapplicable to the object type, unknown/custom attribute names,
unsupported algorithms / modes / paddings / hashes / sizes.  Shared by C13, C20, C02-B, C12."""
from vlib import fixtures as F

# KMIP attribute names (spec 1.0-2.0) with a well-typed sample value where vlib.harness.attr_value
# can build one.
ATTR_SAMPLES = [
    ["Unique Identifier", "1"], ["Name", "some-name"], ["Name", {"v": "uri:x", "t": "URI"}],
    ["Object Type", "SymmetricKey"], ["Cryptographic Algorithm", "AES"],
    ["Cryptographic Algorithm", "RSA"], ["Cryptographic Length", 128], ["Cryptographic Length", 0],
    ["Cryptographic Parameters", {"mode": "CBC"}], ["Certificate Type", "X_509"],
    ["Certificate Length", 100], ["Digest", None], ["Operation Policy Name", "default"],
    ["Operation Policy Name", "public"], ["Operation Policy Name", "nope"],
    ["Cryptographic Usage Mask", 0], ["Cryptographic Usage Mask", 12],
    ["Lease Time", 10], ["State", "ACTIVE"], ["State", "PRE_ACTIVE"], ["Initial Date", 1600000001],
    ["Activation Date", 5], ["Process Start Date", 5], ["Protect Stop Date", 5],
    ["Deactivation Date", 5], ["Destroy Date", 5], ["Compromise Occurrence Date", 5],
    ["Compromise Date", 5], ["Archive Date", 5], ["Last Change Date", 5],
    ["Original Creation Date", 5], ["Object Group", "g1"], ["Object Group", "g2"],
    ["Fresh", True], ["Application Specific Information", {"ns": "ns1", "data": "d1"}],
    ["Contact Information", "me"], ["Sensitive", True], ["Sensitive", False],
    ["Always Sensitive", True], ["Extractable", True], ["Never Extractable", False],
    ["x-custom", "val"],
]
ATTR_NAMES = sorted(set(a[0] for a in ATTR_SAMPLES)) + [
    "Cryptographic Domain Parameters", "X.509 Certificate Identifier", "X.509 Certificate Subject",
    "X.509 Certificate Issuer", "Certificate Identifier", "Certificate Subject",
    "Certificate Issuer", "Digital Signature Algorithm", "Usage Limits", "Revocation Reason",
    "Link", "Random Number Generator", "PKCS#12 Friendly Name", "Description", "Comment",
    "Key Value Present", "Key Value Location", "Bogus Attribute"]

# attribute name -> KMIP 2.0 tag name in kmip.core.enums.Tags (for AttributeReference)
REF_NAMES = ["Name", "Object Group", "Application Specific Information", "Cryptographic Algorithm",
             "Cryptographic Length", "Cryptographic Usage Mask", "State", "Sensitive",
             "Operation Policy Name", "Unique Identifier", "Object Type", "Initial Date",
             "Contact Information", "Certificate Type", "Link", "Digest", "Lease Time",
             "Cryptographic Parameters", "Activation Date", "Fresh", "Comment", "Description",
             "x-custom", "Bogus Attribute"]

MODES = ["CBC", "ECB", "PCBC", "CFB", "OFB", "CTR", "CMAC", "CCM", "GCM", "CBC_MAC", "XTS",
         "AES_KEY_WRAP_PADDING", "NIST_KEY_WRAP", "X9_102_AESKW", "X9_102_TDKW", "X9_102_AKW1",
         "X9_102_AKW2", "AEAD"]
PADS = ["NONE", "OAEP", "PKCS5", "SSL3", "ZEROS", "ANSI_X923", "ISO_10126", "PKCS1v15", "X931", "PSS"]
HASHES = ["MD2", "MD4", "MD5", "SHA_1", "SHA_224", "SHA_256", "SHA_384", "SHA_512", "RIPEMD_160",
          "TIGER", "WHIRLPOOL", "SHA_512_224", "SHA_512_256", "SHA3_224", "SHA3_256", "SHA3_384",
          "SHA3_512"]
ALGS = ["DES", "TRIPLE_DES", "AES", "RSA", "DSA", "ECDSA", "HMAC_SHA1", "HMAC_SHA224",
        "HMAC_SHA256", "HMAC_SHA384", "HMAC_SHA512", "HMAC_MD5", "DH", "ECDH", "ECMQV", "BLOWFISH",
        "CAMELLIA", "CAST5", "IDEA", "MARS", "RC2", "RC4", "RC5", "SKIPJACK", "TWOFISH", "EC",
        "ONE_TIME_PAD", "CHACHA20", "POLY1305", "CHACHA20_POLY1305", "SHA3_224", "SHA3_256",
        "HMAC_SHA3_224", "HMAC_SHA3_256"]
DSAS = ["MD2_WITH_RSA_ENCRYPTION", "MD5_WITH_RSA_ENCRYPTION", "SHA1_WITH_RSA_ENCRYPTION",
        "SHA224_WITH_RSA_ENCRYPTION", "SHA256_WITH_RSA_ENCRYPTION", "SHA384_WITH_RSA_ENCRYPTION",
        "SHA512_WITH_RSA_ENCRYPTION", "RSASSA_PSS", "DSA_WITH_SHA1", "DSA_WITH_SHA224",
        "DSA_WITH_SHA256", "ECDSA_WITH_SHA1", "ECDSA_WITH_SHA224", "ECDSA_WITH_SHA256",
        "ECDSA_WITH_SHA384", "ECDSA_WITH_SHA512", "SHA3_256_WITH_RSA_ENCRYPTION"]
REVOKE_CODES = ["UNSPECIFIED", "KEY_COMPROMISE", "CA_COMPROMISE", "AFFILIATION_CHANGED",
                "SUPERSEDED", "CESSATION_OF_OPERATION", "PRIVILEGE_WITHDRAWN"]
KEY_FORMATS = ["RAW", "OPAQUE", "PKCS_1", "PKCS_8", "X_509", "EC_PRIVATE_KEY",
               "TRANSPARENT_SYMMETRIC_KEY", "TRANSPARENT_RSA_PRIVATE_KEY", "PKCS_12"]
DERIVATION_METHODS = ["PBKDF2", "HASH", "HMAC", "ENCRYPT", "NIST800_108_C", "NIST800_108_F",
                      "NIST800_108_DPI", "ASYMMETRIC_KEY", "AWS_SIGNATURE_VERSION_4", "HKDF"]
QUERY_FUNCTIONS = ["QUERY_OPERATIONS", "QUERY_OBJECTS", "QUERY_SERVER_INFORMATION",
                   "QUERY_APPLICATION_NAMESPACES", "QUERY_EXTENSION_LIST", "QUERY_EXTENSION_MAP",
                   "QUERY_ATTESTATION_TYPES", "QUERY_RNGS", "QUERY_VALIDATIONS", "QUERY_PROFILES",
                   "QUERY_CAPABILITIES", "QUERY_CLIENT_REGISTRATION_METHODS",
                   "QUERY_DEFAULTS_INFORMATION", "QUERY_STORAGE_PROTECTION_MASKS"]

UNSUPPORTED_OPS = ["Rekey", "RekeyKeyPair", "Check", "GetUsageAllocation", "ObtainLease", "Archive",
                   "Recover", "Cancel", "Poll"]


def object_menu(uid, idx):
    """Requests addressing one object.  idx: standard-template index (for helper objects)."""
    m = []
    add = lambda label, item: m.append((label, item))
    wk = idx["SymmetricKey/ACTIVE"]
    # --- Get
    add("Get/plain", {"op": "Get", "uid": uid})
    for f in KEY_FORMATS:
        add("Get/fmt-" + f, {"op": "Get", "uid": uid, "fmt": f})
    add("Get/compression", {"op": "Get", "uid": uid, "comp": "EC_PUBLIC_KEY_TYPE_UNCOMPRESSED"})
    nkw = {"mode": "NIST_KEY_WRAP"}
    add("Get/wrap-valid", {"op": "Get", "uid": uid, "wrap": {"eki": {"uid": wk, "params": nkw}, "enc": "NO_ENCODING"}})
    add("Get/wrap-no-params", {"op": "Get", "uid": uid, "wrap": {"eki": {"uid": wk}, "enc": "NO_ENCODING"}})
    add("Get/wrap-no-encoding-option", {"op": "Get", "uid": uid, "wrap": {"eki": {"uid": wk, "params": nkw}}})
    add("Get/wrap-ttlv-encoding", {"op": "Get", "uid": uid, "wrap": {"eki": {"uid": wk, "params": nkw}, "enc": "TTLV_ENCODING"}})
    add("Get/wrap-mode-cbc", {"op": "Get", "uid": uid, "wrap": {"eki": {"uid": wk, "params": {"mode": "CBC"}}, "enc": "NO_ENCODING"}})
    add("Get/wrap-empty-params", {"op": "Get", "uid": uid, "wrap": {"eki": {"uid": wk, "params": {}}, "enc": "NO_ENCODING"}})
    add("Get/wrap-missing-key", {"op": "Get", "uid": uid, "wrap": {"eki": {"uid": "9999", "params": nkw}, "enc": "NO_ENCODING"}})
    add("Get/wrap-self", {"op": "Get", "uid": uid, "wrap": {"eki": {"uid": uid, "params": nkw}, "enc": "NO_ENCODING"}})
    for other in ("SymmetricKey/PRE_ACTIVE", "PublicKey/ACTIVE", "OpaqueData/NONE", "SecretData/ACTIVE", "bob", "destroyed"):
        add("Get/wrap-with-" + other, {"op": "Get", "uid": uid, "wrap": {"eki": {"uid": idx[other], "params": nkw}, "enc": "NO_ENCODING"}})
    add("Get/wrap-mac-only", {"op": "Get", "uid": uid, "wrap": {"mski": {"uid": wk, "params": {"alg": "HMAC_SHA256"}}, "enc": "NO_ENCODING"}})
    add("Get/wrap-neither", {"op": "Get", "uid": uid, "wrap": {"enc": "NO_ENCODING"}})
    add("Get/wrap-method-mac-sign", {"op": "Get", "uid": uid, "wrap": {"method": "MAC_SIGN", "eki": {"uid": wk, "params": nkw}, "enc": "NO_ENCODING"}})
    add("Get/wrap-attr-names", {"op": "Get", "uid": uid, "wrap": {"eki": {"uid": wk, "params": nkw}, "attr_names": ["Name"], "enc": "NO_ENCODING"}})
    add("Get/fmt+wrap", {"op": "Get", "uid": uid, "fmt": "RAW", "wrap": {"eki": {"uid": wk, "params": nkw}, "enc": "NO_ENCODING"}})
    # --- GetAttributes / GetAttributeList
    add("GetAttributes/all", {"op": "GetAttributes", "uid": uid})
    add("GetAttributes/empty-list", {"op": "GetAttributes", "uid": uid, "names": []})
    add("GetAttributes/every-name", {"op": "GetAttributes", "uid": uid, "names": ATTR_NAMES})
    for n in ATTR_NAMES:
        add("GetAttributes/one-" + n, {"op": "GetAttributes", "uid": uid, "names": [n]})
    add("GetAttributes/dup", {"op": "GetAttributes", "uid": uid, "names": ["Name", "Name"]})
    add("GetAttributeList", {"op": "GetAttributeList", "uid": uid})
    # --- lifecycle
    add("Activate", {"op": "Activate", "uid": uid})
    for c in REVOKE_CODES:
        add("Revoke/" + c, {"op": "Revoke", "uid": uid, "code": c})
    add("Revoke/with-message-and-date", {"op": "Revoke", "uid": uid, "code": "KEY_COMPROMISE", "msg": "why", "cdate": 5})
    add("Destroy", {"op": "Destroy", "uid": uid})
    # --- crypto
    base = {"alg": "AES", "mode": "CBC", "pad": "PKCS5"}
    blk = "00112233445566778899aabbccddeeff"
    for op in ("Encrypt", "Decrypt"):
        add(op + "/valid", {"op": op, "uid": uid, "params": base, "data": blk, "iv": blk})
        add(op + "/no-params", {"op": op, "uid": uid, "data": blk})
        add(op + "/empty-params", {"op": op, "uid": uid, "params": {}, "data": blk})
        add(op + "/no-iv", {"op": op, "uid": uid, "params": base, "data": blk})
        for mo in MODES:
            add(op + "/mode-" + mo, {"op": op, "uid": uid, "params": dict(base, mode=mo), "data": blk, "iv": blk})
            add(op + "/mode-%s-nopad-noiv" % mo, {"op": op, "uid": uid, "params": {"alg": "AES", "mode": mo}, "data": blk})
        for pa in PADS:
            add(op + "/pad-" + pa, {"op": op, "uid": uid, "params": dict(base, pad=pa), "data": blk, "iv": blk})
        add(op + "/no-pad", {"op": op, "uid": uid, "params": {"alg": "AES", "mode": "CBC"}, "data": blk, "iv": blk})
        add(op + "/no-mode", {"op": op, "uid": uid, "params": {"alg": "AES", "pad": "PKCS5"}, "data": blk, "iv": blk})
        add(op + "/no-alg", {"op": op, "uid": uid, "params": {"mode": "CBC", "pad": "PKCS5"}, "data": blk, "iv": blk})
        for al in ALGS:
            add(op + "/alg-" + al, {"op": op, "uid": uid, "params": dict(base, alg=al), "data": blk, "iv": blk})
        for n in (0, 1, 8, 12, 15, 17, 32):
            add(op + "/iv-len-%d" % n, {"op": op, "uid": uid, "params": base, "data": blk, "iv": "ab" * n})
        for n in (0, 1, 15, 17, 31, 48):
            add(op + "/data-len-%d" % n, {"op": op, "uid": uid, "params": base, "data": "cd" * n, "iv": blk})
            add(op + "/data-len-%d-nopad" % n, {"op": op, "uid": uid, "params": {"alg": "AES", "mode": "CBC", "pad": "NONE"}, "data": "cd" * n, "iv": blk})
            add(op + "/ecb-data-len-%d" % n, {"op": op, "uid": uid, "params": {"alg": "AES", "mode": "ECB"}, "data": "cd" * n})
        for tl in (None, 0, 4, 12, 16, 17, 128):
            p = {"alg": "AES", "mode": "GCM"}
            if tl is not None:
                p["tag_length"] = tl
            it = {"op": op, "uid": uid, "params": p, "data": blk, "iv": "ab" * 12, "aad": "0102"}
            if op == "Decrypt":
                it["tag"] = "ee" * (tl if tl and tl <= 16 else 16)
            add(op + "/gcm-tag-%s" % tl, it)
        add(op + "/gcm-no-aad", {"op": op, "uid": uid, "params": {"alg": "AES", "mode": "GCM", "tag_length": 16}, "data": blk, "iv": "ab" * 12})
        add(op + "/gcm-empty-iv", {"op": op, "uid": uid, "params": {"alg": "AES", "mode": "GCM", "tag_length": 16}, "data": blk, "iv": ""})
        add(op + "/ctr", {"op": op, "uid": uid, "params": {"alg": "AES", "mode": "CTR"}, "data": "cd" * 5, "iv": blk})
        add(op + "/random-iv-param", {"op": op, "uid": uid, "params": dict(base, random_iv=True, iv_length=16), "data": blk})
        add(op + "/rc4", {"op": op, "uid": uid, "params": {"alg": "RC4"}, "data": blk})
    add("Decrypt/gcm-no-tag", {"op": "Decrypt", "uid": uid, "params": {"alg": "AES", "mode": "GCM", "tag_length": 16}, "data": blk, "iv": "ab" * 12})
    add("Decrypt/bad-padding", {"op": "Decrypt", "uid": uid, "params": base, "data": "ff" * 16, "iv": blk})
    sbase = {"alg": "RSA", "hash": "SHA_256", "pad": "PKCS1v15"}
    for op in ("Sign", "SignatureVerify"):
        x = {"sig": "ab" * 128} if op == "SignatureVerify" else {}
        add(op + "/valid", dict({"op": op, "uid": uid, "params": sbase, "data": blk}, **x))
        add(op + "/no-params", dict({"op": op, "uid": uid, "data": blk}, **x))
        add(op + "/empty-params", dict({"op": op, "uid": uid, "params": {}, "data": blk}, **x))
        for h in HASHES:
            add(op + "/hash-" + h, dict({"op": op, "uid": uid, "params": dict(sbase, hash=h), "data": blk}, **x))
            add(op + "/pss-hash-" + h, dict({"op": op, "uid": uid, "params": dict(sbase, hash=h, pad="PSS"), "data": blk}, **x))
        for pa in PADS:
            add(op + "/pad-" + pa, dict({"op": op, "uid": uid, "params": dict(sbase, pad=pa), "data": blk}, **x))
        for al in ("DSA", "ECDSA", "AES", "EC", "HMAC_SHA256"):
            add(op + "/alg-" + al, dict({"op": op, "uid": uid, "params": dict(sbase, alg=al), "data": blk}, **x))
        for d in DSAS:
            add(op + "/dsa-" + d, dict({"op": op, "uid": uid, "params": {"dsa": d, "pad": "PKCS1v15"}, "data": blk}, **x))
            add(op + "/dsa-nopad-" + d, dict({"op": op, "uid": uid, "params": {"dsa": d}, "data": blk}, **x))
        add(op + "/no-hash", dict({"op": op, "uid": uid, "params": {"alg": "RSA", "pad": "PKCS1v15"}, "data": blk}, **x))
        add(op + "/no-pad", dict({"op": op, "uid": uid, "params": {"alg": "RSA", "hash": "SHA_256"}, "data": blk}, **x))
        add(op + "/no-alg", dict({"op": op, "uid": uid, "params": {"hash": "SHA_256", "pad": "PKCS1v15"}, "data": blk}, **x))
        add(op + "/empty-data", dict({"op": op, "uid": uid, "params": sbase, "data": ""}, **x))
    for dl in (0, 1, 20, 32, 64):
        add("SignatureVerify/digested-only-%d" % dl, {"op": "SignatureVerify", "uid": uid, "params": sbase,
                                                      "data": None, "digested": "5c" * dl, "sig": "ab" * 128})
        add("SignatureVerify/digested-and-data-%d" % dl, {"op": "SignatureVerify", "uid": uid, "params": sbase,
                                                          "data": blk, "digested": "5c" * dl, "sig": "ab" * 128})
    add("SignatureVerify/no-data-no-digest", {"op": "SignatureVerify", "uid": uid, "params": sbase, "data": None,
                                              "sig": "ab" * 128})
    add("SignatureVerify/no-signature", {"op": "SignatureVerify", "uid": uid, "params": sbase, "data": blk, "sig": None})
    add("SignatureVerify/stream-fields", {"op": "SignatureVerify", "uid": uid, "params": sbase, "data": blk,
                                          "sig": "ab" * 128, "corr": "0102", "init": True, "final": False})
    add("SignatureVerify/empty-sig", {"op": "SignatureVerify", "uid": uid, "params": sbase, "data": blk, "sig": ""})
    add("SignatureVerify/short-sig", {"op": "SignatureVerify", "uid": uid, "params": sbase, "data": blk, "sig": "00"})
    add("MAC/no-params", {"op": "MAC", "uid": uid, "data": blk})
    add("MAC/no-data", {"op": "MAC", "uid": uid, "params": {"alg": "HMAC_SHA256"}})
    add("MAC/empty-data", {"op": "MAC", "uid": uid, "params": {"alg": "HMAC_SHA256"}, "data": ""})
    add("MAC/empty-params", {"op": "MAC", "uid": uid, "params": {}, "data": blk})
    for al in ALGS:
        add("MAC/alg-" + al, {"op": "MAC", "uid": uid, "params": {"alg": al}, "data": blk})
    # --- DeriveKey with this object as base
    la = [["Cryptographic Length", 128], ["Cryptographic Algorithm", "AES"]]
    for me in DERIVATION_METHODS:
        add("DeriveKey/method-" + me, {"op": "DeriveKey", "uids": [uid], "method": me, "attrs": la,
                                       "dp": {"params": {"hash": "SHA_256", "alg": "AES", "mode": "CBC", "pad": "PKCS5"},
                                              "data": "0102", "salt": "0304", "iter": 3, "iv": blk}})
        add("DeriveKey/method-%s-bare" % me, {"op": "DeriveKey", "uids": [uid], "method": me, "attrs": la, "dp": {}})
        add("DeriveKey/method-%s-hmacalg" % me, {"op": "DeriveKey", "uids": [uid], "method": me, "attrs": la,
                                                 "dp": {"params": {"alg": "HMAC_SHA256"}, "data": "0102", "salt": "0304", "iter": 1}})
    dv = {"params": {"hash": "SHA_256"}, "data": "0102"}
    # every derivation method x {derivation data, salt, iteration count, IV} present / absent
    for me in DERIVATION_METHODS:
        for bits in range(16):
            dp = {"params": {"hash": "SHA_256", "alg": "AES", "mode": "CBC", "pad": "PKCS5"}}
            if bits & 1:
                dp["data"] = blk
            if bits & 2:
                dp["salt"] = "0102030405060708"
            if bits & 4:
                dp["iter"] = 2
            if bits & 8:
                dp["iv"] = blk
            add("DeriveKey/fields-%s-%d" % (me, bits), {"op": "DeriveKey", "uids": [uid], "method": me,
                                                       "attrs": la, "dp": dp})
    add("DeriveKey/secret-data", {"op": "DeriveKey", "otype": "SecretData", "uids": [uid], "method": "HASH", "attrs": [["Cryptographic Length", 64]], "dp": dv})
    add("DeriveKey/secret-data-with-alg", {"op": "DeriveKey", "otype": "SecretData", "uids": [uid], "method": "HASH", "attrs": la, "dp": dv})
    add("DeriveKey/otype-public", {"op": "DeriveKey", "otype": "PublicKey", "uids": [uid], "method": "HASH", "attrs": la, "dp": dv})
    add("DeriveKey/no-length", {"op": "DeriveKey", "uids": [uid], "method": "HASH", "attrs": [["Cryptographic Algorithm", "AES"]], "dp": dv})
    add("DeriveKey/no-alg", {"op": "DeriveKey", "uids": [uid], "method": "HASH", "attrs": [["Cryptographic Length", 128]], "dp": dv})
    add("DeriveKey/len-12", {"op": "DeriveKey", "uids": [uid], "method": "HASH", "attrs": [["Cryptographic Length", 12], ["Cryptographic Algorithm", "AES"]], "dp": dv})
    add("DeriveKey/len-0", {"op": "DeriveKey", "uids": [uid], "method": "HASH", "attrs": [["Cryptographic Length", 0], ["Cryptographic Algorithm", "AES"]], "dp": dv})
    add("DeriveKey/len-huge", {"op": "DeriveKey", "uids": [uid], "method": "HASH", "attrs": [["Cryptographic Length", 8000], ["Cryptographic Algorithm", "AES"]], "dp": dv})
    # every derivation method x lengths at the edges of the value range (the length is a signed
    # 32-bit integer on the wire)
    full = {"params": {"hash": "SHA_256", "alg": "AES", "mode": "CBC", "pad": "PKCS5"},
            "data": "0102030405060708090a0b0c0d0e0f10", "salt": "0304", "iter": 2, "iv": blk}
    for me in DERIVATION_METHODS[:5]:
        for ln in (-8, -2 ** 31, 65280, 65288, 2 ** 31 - 8):
            if me in ("PBKDF2", "NIST800_108_C") and ln > 2 ** 20:
                continue        # these would really produce (and hold) a quarter of a gigabyte
            for ot in ("SymmetricKey", "SecretData") if ln in (-8, 65288) else ("SymmetricKey",):
                add("DeriveKey/len-edge-%s-%d-%s" % (me, ln, ot),
                    {"op": "DeriveKey", "otype": ot, "uids": [uid], "method": me,
                     "attrs": [["Cryptographic Length", ln]] + ([["Cryptographic Algorithm", "AES"]] if ot == "SymmetricKey" else []),
                     "dp": full})
    add("DeriveKey/no-data-two-objects", {"op": "DeriveKey", "uids": [uid, idx["secret2"]], "method": "HASH", "attrs": la, "dp": {"params": {"hash": "SHA_256"}}})
    add("DeriveKey/no-data", {"op": "DeriveKey", "uids": [uid], "method": "HASH", "attrs": la, "dp": {"params": {"hash": "SHA_256"}}})
    add("DeriveKey/no-uids", {"op": "DeriveKey", "uids": [], "method": "HASH", "attrs": la, "dp": dv})
    add("DeriveKey/with-name-and-mask", {"op": "DeriveKey", "uids": [uid], "method": "HASH", "attrs": la + [["Name", "derived"], ["Cryptographic Usage Mask", 12]], "dp": dv})
    for h in HASHES:
        add("DeriveKey/hash-" + h, {"op": "DeriveKey", "uids": [uid], "method": "HASH", "attrs": la, "dp": {"params": {"hash": h}, "data": "0102"}})
        add("DeriveKey/pbkdf2-" + h, {"op": "DeriveKey", "uids": [uid], "method": "PBKDF2", "attrs": la, "dp": {"params": {"hash": h}, "salt": "0102", "iter": 2}})
    add("DeriveKey/pbkdf2-no-salt", {"op": "DeriveKey", "uids": [uid], "method": "PBKDF2", "attrs": la, "dp": {"params": {"hash": "SHA_256"}, "iter": 2}})
    add("DeriveKey/pbkdf2-no-iter", {"op": "DeriveKey", "uids": [uid], "method": "PBKDF2", "attrs": la, "dp": {"params": {"hash": "SHA_256"}, "salt": "01"}})
    add("DeriveKey/pbkdf2-iter-0", {"op": "DeriveKey", "uids": [uid], "method": "PBKDF2", "attrs": la, "dp": {"params": {"hash": "SHA_256"}, "salt": "01", "iter": 0}})
    add("DeriveKey/encrypt-noiv", {"op": "DeriveKey", "uids": [uid], "method": "ENCRYPT", "attrs": la, "dp": {"params": {"alg": "AES", "mode": "CBC", "pad": "PKCS5"}, "data": blk}})
    add("DeriveKey/encrypt-short-output", {"op": "DeriveKey", "uids": [uid], "method": "ENCRYPT", "attrs": [["Cryptographic Length", 256], ["Cryptographic Algorithm", "AES"]], "dp": {"params": {"alg": "AES", "mode": "ECB"}, "data": blk}})
    # --- attribute operations (1.x forms; 2.0 forms are built by version in attr_menu)
    return m


def attr_menu(uid, v):
    m = []
    add = lambda label, item: m.append((label, item))
    if tuple(v) >= (2, 0):
        for a in ATTR_SAMPLES:
            if a[0].startswith("x-") or a[0] in ("Digest", "Certificate Length", "Cryptographic Parameters"):
                continue
            add("SetAttribute/" + a[0], {"op": "SetAttribute", "uid": uid, "new": a})
            add("ModifyAttribute2/no-current-" + a[0], {"op": "ModifyAttribute", "uid": uid, "new": a})
            add("ModifyAttribute2/current-same-" + a[0], {"op": "ModifyAttribute", "uid": uid, "cur": a, "new": a})
            add("DeleteAttribute2/current-" + a[0], {"op": "DeleteAttribute", "uid": uid, "cur": a})
        add("ModifyAttribute2/name-existing", {"op": "ModifyAttribute", "uid": uid, "cur": ["Name", "n-SymmetricKey-ACTIVE"], "new": ["Name", "renamed"]})
        add("ModifyAttribute2/group-existing", {"op": "ModifyAttribute", "uid": uid, "cur": ["Object Group", "g1"], "new": ["Object Group", "g9"]})
        add("ModifyAttribute2/asi-existing", {"op": "ModifyAttribute", "uid": uid, "cur": ["Application Specific Information", {"ns": "ns1", "data": "d-SymmetricKey"}],
                                               "new": ["Application Specific Information", {"ns": "ns1", "data": "zz"}]})
        add("ModifyAttribute2/cur-other-kind", {"op": "ModifyAttribute", "uid": uid, "cur": ["Object Group", "g1"], "new": ["Name", "renamed"]})
        for t in REF_NAMES:
            add("DeleteAttribute2/ref-" + t, {"op": "DeleteAttribute", "uid": uid, "ref": {"name": t}})
        add("DeleteAttribute2/neither", {"op": "DeleteAttribute", "uid": uid})
    else:
        for a in ATTR_SAMPLES:
            for ix in (None, 0, 1, 5):
                add("ModifyAttribute/%s-idx-%s" % (a[0], ix), {"op": "ModifyAttribute", "uid": uid, "attr": a + ([ix] if ix is not None else [])})
        for n in ATTR_NAMES:
            for ix in (None, 0, 1, 7):
                add("DeleteAttribute/%s-idx-%s" % (n, ix), {"op": "DeleteAttribute", "uid": uid, "name": n, "index": ix})
        add("DeleteAttribute/no-name", {"op": "DeleteAttribute", "uid": uid})
    return m


def store_menu(idx, v):
    """Requests not aimed at one object: creators, Locate, Query, DiscoverVersions, unsupported
    operations, identifier edge cases."""
    m = []
    add = lambda label, item: m.append((label, item))
    # every cipher x every block cipher mode (the backend runs only some combinations), with an
    # IV of either block size, for Encrypt, Decrypt and DeriveKey by encryption (with/without data)
    sk = idx["SymmetricKey/ACTIVE"]
    la_ = [["Cryptographic Length", 128], ["Cryptographic Algorithm", "AES"]]
    if tuple(v) >= (1, 2):
        for al in ("DES", "TRIPLE_DES", "AES", "BLOWFISH", "CAMELLIA", "CAST5", "IDEA", "RC4", "RC2",
                   "TWOFISH", "CHACHA20", "HMAC_SHA256", "RSA"):
            for mo in MODES:
                p_ = {"alg": al, "mode": mo}
                if mo == "GCM":
                    p_["tag_length"] = 16
                for ivn in (8, 16):
                    for op in ("Encrypt", "Decrypt"):
                        it = {"op": op, "uid": sk, "params": dict(p_), "data": "00112233445566778899aabbccddeeff",
                              "iv": "ab" * ivn}
                        if mo == "GCM" and op == "Decrypt":
                            it["tag"] = "ee" * 16
                        add("%s/product-%s-%s-iv%d" % (op, al, mo, ivn), it)
    for al in ("TRIPLE_DES", "AES", "BLOWFISH", "RC4", "CHACHA20"):
        for mo in MODES:
            for data in ("00112233445566778899aabbccddeeff", None, ""):
                dp = {"params": {"alg": al, "mode": mo, "pad": "PKCS5"}, "iv": "ab" * (8 if al in ("TRIPLE_DES", "BLOWFISH") else 16)}
                if data is not None:
                    dp["data"] = data
                add("DeriveKey/product-%s-%s-%s" % (al, mo, "nodata" if data is None else len(data) // 2),
                    {"op": "DeriveKey", "uids": [sk], "method": "ENCRYPT", "attrs": la_, "dp": dp})
    # identifier edge cases for every object-addressing op
    for kind, u in (("destroyed", idx["destroyed"]), ("never", "9999"), ("absent", None),
                    ("nonnumeric", "abc"), ("empty", ""), ("other-owner", idx["bob"]), ("neg", "-1"),
                    ("huge", "9" * 30)):
        for op in ("Get", "GetAttributes", "GetAttributeList", "Activate", "Destroy"):
            add("%s/uid-%s" % (op, kind), {"op": op, "uid": u})
        add("Revoke/uid-" + kind, {"op": "Revoke", "uid": u, "code": "KEY_COMPROMISE"})
        pr = {"alg": "AES", "mode": "CBC", "pad": "PKCS5"}
        add("Encrypt/uid-" + kind, {"op": "Encrypt", "uid": u, "params": pr, "data": "00" * 16})
        add("Decrypt/uid-" + kind, {"op": "Decrypt", "uid": u, "params": pr, "data": "00" * 16, "iv": "00" * 16})
        add("Sign/uid-" + kind, {"op": "Sign", "uid": u, "params": {"alg": "RSA", "hash": "SHA_256", "pad": "PSS"}, "data": "00"})
        add("SignatureVerify/uid-" + kind, {"op": "SignatureVerify", "uid": u, "params": {"alg": "RSA", "hash": "SHA_256", "pad": "PSS"}, "data": "00", "sig": "00"})
        add("MAC/uid-" + kind, {"op": "MAC", "uid": u, "params": {"alg": "HMAC_SHA256"}, "data": "00"})
        if u is not None:
            add("DeriveKey/uid-" + kind, {"op": "DeriveKey", "uids": [u], "method": "HASH", "attrs": [["Cryptographic Length", 128], ["Cryptographic Algorithm", "AES"]], "dp": {"params": {"hash": "SHA_256"}, "data": "01"}})
        if tuple(v) >= (2, 0):
            add("SetAttribute/uid-" + kind, {"op": "SetAttribute", "uid": u, "new": ["Sensitive", True]})
            add("ModifyAttribute2/uid-" + kind, {"op": "ModifyAttribute", "uid": u, "new": ["Sensitive", True]})
            add("DeleteAttribute2/uid-" + kind, {"op": "DeleteAttribute", "uid": u, "ref": {"name": "Name"}})
        else:
            add("ModifyAttribute/uid-" + kind, {"op": "ModifyAttribute", "uid": u, "attr": ["Name", "zz", 0]})
            add("DeleteAttribute/uid-" + kind, {"op": "DeleteAttribute", "uid": u, "name": "Name", "index": 0})
    # Create
    for al in ALGS:
        for ln in (0, 1, 56, 64, 128, 168, 192, 256, 512, 100):
            add("Create/%s-%d" % (al, ln), F.create_item(alg=al, length=ln))
    add("Create/no-attrs", {"op": "Create", "attrs": []})
    add("Create/no-length", {"op": "Create", "attrs": [["Cryptographic Algorithm", "AES"], ["Cryptographic Usage Mask", 12]]})
    add("Create/no-alg", {"op": "Create", "attrs": [["Cryptographic Length", 128], ["Cryptographic Usage Mask", 12]]})
    add("Create/no-mask", {"op": "Create", "attrs": [["Cryptographic Algorithm", "AES"], ["Cryptographic Length", 128]]})
    add("Create/mask-0", F.create_item(mask=0))
    for t in ("PublicKey", "PrivateKey", "SecretData", "Certificate", "OpaqueData", "SplitKey", "Template", "PGPKey"):
        it = F.create_item()
        it["otype"] = t
        add("Create/otype-" + t, it)
    for a in ATTR_SAMPLES:
        add("Create/extra-" + a[0], F.create_item(extra_attrs=[a]))
        add("Create/extra-idx0-" + a[0], F.create_item(extra_attrs=[a + [0]]))
        add("Create/extra-idx1-" + a[0], F.create_item(extra_attrs=[a + [1]]))
        add("Create/extra-twice-" + a[0], F.create_item(extra_attrs=[a + [0], a + [1]]))
        add("Create/extra-twice-noidx-" + a[0], F.create_item(extra_attrs=[a, a]))
    add("Create/dup-alg", F.create_item(extra_attrs=[["Cryptographic Algorithm", "AES"]]))
    add("Create/two-names", F.create_item(extra_attrs=[["Name", "a", 0], ["Name", "b", 1]]))
    add("Create/two-names-same", F.create_item(extra_attrs=[["Name", "a", 0], ["Name", "a", 1]]))
    # CreateKeyPair
    for al in ("RSA", "DSA", "ECDSA", "EC", "AES", "DH", "ECDH"):
        for ln in (0, 3, 512, 1024, 1000):
            it = F.keypair_item(length=ln)
            it["common"][0] = ["Cryptographic Algorithm", al]
            add("CreateKeyPair/%s-%d" % (al, ln), it)
    add("CreateKeyPair/empty", {"op": "CreateKeyPair"})
    add("CreateKeyPair/common-only", {"op": "CreateKeyPair", "common": [["Cryptographic Algorithm", "RSA"], ["Cryptographic Length", 1024], ["Cryptographic Usage Mask", 3]]})
    add("CreateKeyPair/mismatch-length", {"op": "CreateKeyPair", "public": [["Cryptographic Algorithm", "RSA"], ["Cryptographic Length", 1024], ["Cryptographic Usage Mask", 2]],
                                          "private": [["Cryptographic Algorithm", "RSA"], ["Cryptographic Length", 2048], ["Cryptographic Usage Mask", 1]]})
    add("CreateKeyPair/mismatch-alg", {"op": "CreateKeyPair", "public": [["Cryptographic Algorithm", "RSA"], ["Cryptographic Length", 1024], ["Cryptographic Usage Mask", 2]],
                                       "private": [["Cryptographic Algorithm", "DSA"], ["Cryptographic Length", 1024], ["Cryptographic Usage Mask", 1]]})
    add("CreateKeyPair/no-private-mask", {"op": "CreateKeyPair", "common": [["Cryptographic Algorithm", "RSA"], ["Cryptographic Length", 1024]], "public": [["Cryptographic Usage Mask", 2]]})
    for a in ATTR_SAMPLES:
        it = F.keypair_item()
        it["common"] = it["common"] + [a]
        add("CreateKeyPair/common-extra-" + a[0], it)
        it = F.keypair_item()
        it["private"] = it["private"] + [a]
        add("CreateKeyPair/private-extra-" + a[0], it)
    # Register
    for t in ("SymmetricKey", "PublicKey", "PrivateKey", "SplitKey", "Certificate", "SecretData", "OpaqueData"):
        add("Register/%s-plain" % t, F.register_item(t))
        add("Register/%s-no-attrs" % t, {"op": "Register", "obj": F.obj_spec(t), "attrs": []})
        for a in ATTR_SAMPLES:
            add("Register/%s-extra-%s" % (t, a[0]), F.register_item(t, extra_attrs=[a]))
        for t2 in ("SymmetricKey", "Certificate", "OpaqueData", "Template", "PGPKey"):
            if t2 != t:
                it = F.register_item(t)
                it["otype"] = t2
                add("Register/%s-declared-as-%s" % (t, t2), it)
        if t in ("SymmetricKey", "PublicKey", "PrivateKey", "SplitKey", "SecretData"):
            o = F.obj_spec(t)
            for lab, w in (("full", {"method": "ENCRYPT", "eki": {"uid": "1", "params": {"mode": "NIST_KEY_WRAP"}}, "enc": "NO_ENCODING"}),
                           ("eki-no-params", {"method": "ENCRYPT", "eki": {"uid": "1"}, "enc": "NO_ENCODING"}),
                           ("mski", {"method": "MAC_SIGN", "mski": {"uid": "1", "params": {"alg": "HMAC_SHA256"}}, "mac": "0102"}),
                           ("mski-no-params", {"method": "MAC_SIGN", "mski": {"uid": "1"}, "mac": "0102"}),
                           ("method-only", {"method": "ENCRYPT"}),
                           ("iv", {"method": "ENCRYPT", "eki": {"uid": "1", "params": {"mode": "CBC", "random_iv": False, "iv_length": 0}}, "iv": "00" * 16})):
                add("Register/%s-wrap-%s" % (t, lab), {"op": "Register", "obj": dict(o, wrap=w), "attrs": [["Cryptographic Usage Mask", 12]]})
            for f in KEY_FORMATS:
                add("Register/%s-fmt-%s" % (t, f), {"op": "Register", "obj": dict(o, fmt=f), "attrs": [["Cryptographic Usage Mask", 12]]})
            add("Register/%s-empty-value" % t, {"op": "Register", "obj": dict(o, value=""), "attrs": [["Cryptographic Usage Mask", 12]]})
            add("Register/%s-no-alg" % t, {"op": "Register", "obj": dict(o, alg=None), "attrs": [["Cryptographic Usage Mask", 12]]})
            add("Register/%s-no-len" % t, {"op": "Register", "obj": dict(o, len=None), "attrs": [["Cryptographic Usage Mask", 12]]})
            add("Register/%s-len-0" % t, {"op": "Register", "obj": dict(o, len=0), "attrs": [["Cryptographic Usage Mask", 12]]})
    sk = F.obj_spec("SplitKey")
    # around every byte boundary of the value (bit lengths 7, 8, 9, 15, 16, 17, ... 56, 57)
    for pr in (None, 0, 1, 2 ** 31, 2 ** 62, 2 ** 63 - 1, 2 ** 63, 2 ** 64, 2 ** 127 - 1, -1,
               127, 251, 257, 32749, 65521, 65537, 2 ** 24 - 3, 2 ** 32 - 5, 2 ** 32 + 15, 2 ** 56 - 5, 2 ** 56 + 81):
        add("Register/SplitKey-prime-%s" % pr, {"op": "Register", "obj": dict(sk, prime=pr, method="POLYNOMIAL_SHARING_PRIME_FIELD"), "attrs": [["Cryptographic Usage Mask", 12]]})
    for me in ("XOR", "POLYNOMIAL_SHARING_GF_2_16", "POLYNOMIAL_SHARING_PRIME_FIELD", "POLYNOMIAL_SHARING_GF_2_8"):
        add("Register/SplitKey-method-" + me, {"op": "Register", "obj": dict(sk, method=me), "attrs": [["Cryptographic Usage Mask", 12]]})
    for parts, thr, pid in ((0, 0, 0), (1, 1, 1), (255, 255, 255), (3, 5, 9), (2 ** 31 - 1, 1, 1), (-1, -1, -1)):
        add("Register/SplitKey-parts-%d-%d-%d" % (parts, thr, pid), {"op": "Register", "obj": dict(sk, parts=parts, threshold=thr, part_id=pid), "attrs": [["Cryptographic Usage Mask", 12]]})
    for ct in ("X_509", "PGP"):
        add("Register/Certificate-" + ct, {"op": "Register", "obj": dict(F.obj_spec("Certificate"), ctype=ct), "attrs": [["Cryptographic Usage Mask", 2]]})
    add("Register/Certificate-garbage", {"op": "Register", "obj": {"type": "Certificate", "value": "00ff", "ctype": "X_509"}, "attrs": []})
    for dt in ("PASSWORD", "SEED"):
        add("Register/SecretData-" + dt, {"op": "Register", "obj": dict(F.obj_spec("SecretData"), dtype=dt), "attrs": [["Cryptographic Usage Mask", 12]]})
    # Locate
    add("Locate/all", {"op": "Locate"})
    for a in ATTR_SAMPLES:
        add("Locate/by-" + a[0], {"op": "Locate", "attrs": [a]})
    for n, t in (("Name", "n-SymmetricKey-ACTIVE"), ("Name", "n-Certificate-ACTIVE"), ("Name", "n-OpaqueData-NONE")):
        add("Locate/by-name-" + t, {"op": "Locate", "attrs": [[n, t]]})
    for t in ("SymmetricKey", "PublicKey", "PrivateKey", "SplitKey", "Certificate", "SecretData", "OpaqueData"):
        add("Locate/by-type-" + t, {"op": "Locate", "attrs": [["Object Type", t]]})
        add("Locate/by-type-%s-and-alg" % t, {"op": "Locate", "attrs": [["Object Type", t], ["Cryptographic Algorithm", "AES"]]})
        add("Locate/by-type-%s-and-len" % t, {"op": "Locate", "attrs": [["Object Type", t], ["Cryptographic Length", 128]]})
        add("Locate/by-type-%s-and-mask" % t, {"op": "Locate", "attrs": [["Object Type", t], ["Cryptographic Usage Mask", 4]]})
        add("Locate/by-type-%s-and-state" % t, {"op": "Locate", "attrs": [["Object Type", t], ["State", "ACTIVE"]]})
        add("Locate/by-type-%s-and-certtype" % t, {"op": "Locate", "attrs": [["Object Type", t], ["Certificate Type", "X_509"]]})
        add("Locate/by-type-%s-and-sensitive" % t, {"op": "Locate", "attrs": [["Object Type", t], ["Sensitive", False]]})
    for st in ("PRE_ACTIVE", "ACTIVE", "DEACTIVATED", "COMPROMISED", "DESTROYED", "DESTROYED_COMPROMISED"):
        add("Locate/by-state-" + st, {"op": "Locate", "attrs": [["State", st]]})
    for k in (1, 2, 3, 4):
        add("Locate/dates-%d" % k, {"op": "Locate", "attrs": [["Initial Date", 1600000000 + 5 * j] for j in range(k)]})
    add("Locate/dates-reversed", {"op": "Locate", "attrs": [["Initial Date", 1600000050], ["Initial Date", 1600000000]]})
    for off, mx in ((0, 0), (0, 1), (1, None), (None, 2), (100, 5), (-1, 2), (2, -1)):
        add("Locate/page-%s-%s" % (off, mx), {"op": "Locate", "offset": off, "max": mx})
    # usage-mask filters with every single bit of the 32, bits no enumeration member names
    # (vendor extensions), all bits, and combinations with a named bit
    for bit in range(32):
        add("Locate/mask-bit-%d" % bit, {"op": "Locate", "attrs": [["Cryptographic Usage Mask", 1 << bit]]})
    for mv in (0, 0x7fffffff, 0x01000004, 0x42000000, 0x00300000 | 12, 0x000fffff):
        add("Locate/mask-0x%x" % mv, {"op": "Locate", "attrs": [["Cryptographic Usage Mask", mv]]})
        add("Locate/mask-0x%x-and-type" % mv, {"op": "Locate", "attrs": [["Object Type", "SymmetricKey"],
                                                                         ["Cryptographic Usage Mask", mv]]})
    # boundary values of the other filter types
    for ln in (0, 1, -1, 2 ** 31 - 1, -2 ** 31):
        add("Locate/length-%d" % ln, {"op": "Locate", "attrs": [["Cryptographic Length", ln]]})
    for dt in (0, 1, -1, 2 ** 31, 2 ** 62):
        add("Locate/date-%d" % dt, {"op": "Locate", "attrs": [["Initial Date", dt]]})
        add("Locate/date-range-0-%d" % dt, {"op": "Locate", "attrs": [["Initial Date", 0], ["Initial Date", dt]]})
    add("Locate/storage-status", {"op": "Locate", "ssm": 1})
    add("Locate/group-member-fresh", {"op": "Locate", "ogm": "GROUP_MEMBER_FRESH"})
    add("Locate/state-twice", {"op": "Locate", "attrs": [["State", "ACTIVE"], ["State", "PRE_ACTIVE"]]})
    # Query / DiscoverVersions / unsupported operations
    for q in QUERY_FUNCTIONS:
        add("Query/" + q, {"op": "Query", "functions": [q]})
    add("Query/all", {"op": "Query", "functions": QUERY_FUNCTIONS})
    add("Query/none", {"op": "Query", "functions": []})
    for vs in ([], [[1, 0]], [[2, 0], [1, 4], [1, 0]], [[9, 9]], [[1, 0], [9, 9], [1, 2]], [[1, 2], [1, 2]]):
        add("DiscoverVersions/%s" % vs, {"op": "DiscoverVersions", "versions": vs})
    for op in UNSUPPORTED_OPS:
        add("Unsupported/" + op, {"op": op, "uid": "1"})
    return m


def header_menu():
    """Request-level variations (each wraps a simple Query/Create batch)."""
    q = {"op": "Query"}
    c = F.create_item()
    g = {"op": "Get"}
    return [
        ("hdr/ts-now", {"items": [q], "ts": "now"}),
        ("hdr/ts-stale", {"items": [q], "ts": "stale"}),
        ("hdr/ts-future", {"items": [q], "ts": "future"}),
        ("hdr/async-true", {"items": [q], "async": True}),
        ("hdr/async-false", {"items": [q], "async": False}),
        ("hdr/cont-stop", {"items": [q], "cont": "STOP"}),
        ("hdr/cont-continue", {"items": [q], "cont": "CONTINUE"}),
        ("hdr/cont-undo", {"items": [q], "cont": "UNDO"}),
        ("hdr/order-true", {"items": [q, q], "order": True}),
        ("hdr/order-false", {"items": [q, q], "order": False}),
        ("hdr/max-1", {"items": [q], "max": 1}),
        ("hdr/max-0", {"items": [q], "max": 0}),
        ("hdr/max-huge", {"items": [q], "max": 2 ** 31 - 1}),
        ("hdr/batch-two", {"items": [c, g]}),
        ("hdr/batch-no-ids", {"items": [dict(c, bid=None), dict(g, bid=None)]}),
        ("hdr/batch-some-ids", {"items": [dict(c, bid="01"), dict(g, bid=None)]}),
        ("hdr/batch-dup-ids", {"items": [dict(c, bid="01"), dict(g, bid="01")]}),
        ("hdr/batch-empty-id", {"items": [dict(c, bid=""), dict(g, bid="")]}),
        ("hdr/batch-count-mismatch", {"items": [q], "count": 3}),
        ("hdr/batch-count-zero", {"items": [q], "count": 0}),
        ("hdr/cred-user", {"items": [q], "cred": [{"kind": "user", "user": "u", "password": "p"}]}),
        ("hdr/cred-user-nopass", {"items": [q], "cred": [{"kind": "user", "user": "u"}]}),
        ("hdr/cred-device", {"items": [q], "cred": [{"kind": "device", "serial": "s", "password": "p"}]}),
        ("hdr/batch-continue-failing", {"items": [{"op": "Get", "uid": "9999"}, c, g], "cont": "CONTINUE"}),
        ("hdr/batch-stop-failing", {"items": [c, {"op": "Get", "uid": "9999"}, g]}),
    ]
