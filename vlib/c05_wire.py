"""C05 helpers: independent (ttlvref) reading of Get / GetAttributes / GetAttributeList responses.

Tag numbers come from the KMIP specification (vlib/c19_wire.py literals); enumeration *names* are
looked up in kmip.core.enums (data, not logic) only to render numbers readable.  The renderings
use the same JSON-able shapes as harness.secret_plain / harness.attr_plain so one comparison
routine serves every path."""
from kmip.core import enums as E

from vlib import ttlvref as T
from vlib import c19_wire as W

CERTIFICATE_TYPE = 0x42001D
SECRET_DATA_TYPE = 0x420086
KEY_PART_IDENTIFIER = 0x420044

ATTR_TAG = dict(W.ATTR_TAG)
ATTR_TAG["Certificate Type"] = CERTIFICATE_TYPE
ATTR_NAME = {v: k for k, v in ATTR_TAG.items()}


def ename(cls, v):
    if v is None:
        return None
    try:
        return cls(v).name
    except ValueError:
        return "UNKNOWN_0x%x" % v


def _hex(b):
    return None if b is None else bytes(b).hex()


def params(node):
    if node is None:
        return None
    d = {"mode": ename(E.BlockCipherMode, W.val(node, W.BLOCK_CIPHER_MODE)),
         "pad": ename(E.PaddingMethod, W.val(node, W.PADDING_METHOD)),
         "hash": ename(E.HashingAlgorithm, W.val(node, W.HASHING_ALGORITHM)),
         "role": ename(E.KeyRoleType, W.val(node, W.KEY_ROLE_TYPE)),
         "dsa": ename(E.DigitalSignatureAlgorithm, W.val(node, W.DIGITAL_SIGNATURE_ALGORITHM)),
         "alg": ename(E.CryptographicAlgorithm, W.val(node, W.CRYPTOGRAPHIC_ALGORITHM)),
         "random_iv": W.val(node, W.RANDOM_IV), "iv_length": W.val(node, W.IV_LENGTH),
         "tag_length": W.val(node, W.TAG_LENGTH),
         "fixed_field_length": W.val(node, W.FIXED_FIELD_LENGTH),
         "invocation_field_length": W.val(node, W.INVOCATION_FIELD_LENGTH),
         "counter_length": W.val(node, W.COUNTER_LENGTH),
         "initial_counter_value": W.val(node, W.INITIAL_COUNTER_VALUE)}
    return {k: v for k, v in d.items() if v is not None}


def _info(node):
    if node is None:
        return None
    return {"uid": W.val(node, W.UNIQUE_IDENTIFIER),
            "params": params(W.kid(node, W.CRYPTOGRAPHIC_PARAMETERS))}


def wrapping(node):
    if node is None:
        return None
    return {"method": ename(E.WrappingMethod, W.val(node, W.WRAPPING_METHOD)),
            "eki": _info(W.kid(node, W.ENCRYPTION_KEY_INFORMATION)),
            "mski": _info(W.kid(node, W.MAC_SIGNATURE_KEY_INFORMATION)),
            "mac": _hex(W.val(node, W.MAC_SIGNATURE)), "iv": _hex(W.val(node, W.IV_COUNTER_NONCE)),
            "enc": ename(E.EncodingOption, W.val(node, W.ENCODING_OPTION))}


def key_block(node):
    kv = W.kid(node, W.KEY_VALUE)
    km = None if kv is None else W.kid(kv, W.KEY_MATERIAL)
    val = None
    if km is not None:
        val = _hex(km["value"]) if "value" in km else "<structure>"
    return {"fmt": ename(E.KeyFormatType, W.val(node, W.KEY_FORMAT_TYPE)), "value": val,
            "alg": ename(E.CryptographicAlgorithm, W.val(node, W.CRYPTOGRAPHIC_ALGORITHM)),
            "len": W.val(node, W.CRYPTOGRAPHIC_LENGTH),
            "wrap": wrapping(W.kid(node, W.KEY_WRAPPING_DATA))}


_OBJ = [(W.SYMMETRIC_KEY, "SymmetricKey"), (W.PUBLIC_KEY, "PublicKey"), (W.PRIVATE_KEY, "PrivateKey"),
        (W.SPLIT_KEY, "SplitKey"), (W.SECRET_DATA, "SecretData"), (W.CERTIFICATE, "Certificate"),
        (W.OPAQUE_OBJECT, "OpaqueData")]
_OT = {W.OT_CERTIFICATE: "Certificate", W.OT_SYMMETRIC_KEY: "SymmetricKey", W.OT_PUBLIC_KEY: "PublicKey",
       W.OT_PRIVATE_KEY: "PrivateKey", W.OT_SPLIT_KEY: "SplitKey", W.OT_SECRET_DATA: "SecretData",
       W.OT_OPAQUE: "OpaqueData"}


def secret(payload):
    """The managed object inside a Get response payload, rendered like harness.secret_plain."""
    for tag, name in _OBJ:
        n = W.kid(payload, tag)
        if n is None:
            continue
        if name in ("SymmetricKey", "PublicKey", "PrivateKey"):
            d = key_block(W.kid(n, W.KEY_BLOCK))
            d["type"] = name
            return d
        if name == "SplitKey":
            d = key_block(W.kid(n, W.KEY_BLOCK))
            d.update(type=name, parts=W.val(n, W.SPLIT_KEY_PARTS), part_id=W.val(n, KEY_PART_IDENTIFIER),
                     threshold=W.val(n, W.SPLIT_KEY_THRESHOLD),
                     method=ename(E.SplitKeyMethod, W.val(n, W.SPLIT_KEY_METHOD)),
                     prime=W.val(n, W.PRIME_FIELD_SIZE))
            return d
        if name == "SecretData":
            d = key_block(W.kid(n, W.KEY_BLOCK))
            d.update(type=name, dtype=ename(E.SecretDataType, W.val(n, SECRET_DATA_TYPE)))
            return d
        if name == "Certificate":
            return {"type": name, "ctype": ename(E.CertificateType, W.val(n, CERTIFICATE_TYPE)),
                    "value": _hex(W.val(n, W.CERTIFICATE_VALUE))}
        return {"type": name, "otype": ename(E.OpaqueDataType, W.val(n, W.OPAQUE_DATA_TYPE)),
                "value": _hex(W.val(n, W.OPAQUE_DATA_VALUE))}
    return None


def read_get(payload):
    return {"uid": W.val(payload, W.UNIQUE_IDENTIFIER),
            "otype": _OT.get(W.val(payload, W.OBJECT_TYPE)), "secret": secret(payload)}


def _attr_value(name, node):
    """JSON-able value of one attribute value node, shaped like harness.value_plain."""
    if node is None:
        return None
    if name == "Name":
        return {"v": W.val(node, W.NAME_VALUE), "t": ename(E.NameType, W.val(node, W.NAME_TYPE))}
    if name == "Application Specific Information":
        return {"ns": W.val(node, W.APPLICATION_NAMESPACE), "data": W.val(node, W.APPLICATION_DATA)}
    if "children" in node:
        return "<structure>"
    v = node["value"]
    cls = {"Object Type": E.ObjectType, "State": E.State, "Cryptographic Algorithm": E.CryptographicAlgorithm,
           "Certificate Type": E.CertificateType}.get(name)
    if cls is not None:
        return ename(cls, v)
    if isinstance(v, (bytes, bytearray)):
        return bytes(v).hex()
    return v


def read_attributes(payload, v):
    """[[name, index, value]] from a GetAttributes response payload."""
    out = []
    if tuple(v) >= (2, 0):
        box = W.kid(payload, W.ATTRIBUTES)
        for c in (box or {}).get("children", []):
            name = ATTR_NAME.get(c["tag"], "tag:%06x" % c["tag"])
            out.append([name, None, _attr_value(name, c)])
    else:
        for a in W.kids(payload, W.ATTRIBUTE):
            name = W.val(a, W.ATTRIBUTE_NAME)
            out.append([name, W.val(a, W.ATTRIBUTE_INDEX), _attr_value(name, W.kid(a, W.ATTRIBUTE_VALUE))])
    return out


def read_attribute_list(payload, v):
    if tuple(v) >= (2, 0):
        return [ATTR_NAME.get(c["value"], "tag:%06x" % c["value"])
                for c in W.kids(payload, W.ATTRIBUTE_REFERENCE)]
    return [c["value"] for c in W.kids(payload, W.ATTRIBUTE_NAME)]


def single(resp):
    """(status, reason, message, payload_node) of a single-item response."""
    items = T.response_items(resp)
    if len(items) != 1:
        raise T.TTLVError("expected one batch item, got %d" % len(items))
    it = items[0]
    return it["status"], it["reason"], it["message"], it["payload"]
