"""Common machinery: collectors, bucketing, sharding, evidence, known findings.

Every check explores JSON-able *specs*.  For each executed case it records
 - whether the case is non-trivial (by the property's stated rule),
 - the classes it belongs to (histogram for the evidence),
 - the *buckets* (root-cause keys) of every oracle failure it ran into.
Oracle failures never stop the exploration (collect-then-bucket).
"""
import hashlib
import json
import multiprocessing
import os
import re
import sys
import time
import traceback

HOME = os.environ.get("VERIF_HOME", os.path.dirname(os.path.dirname(os.path.abspath(__file__))))
REPO = os.environ.get("VERIF_REPO", "/repo")
NCPU = int(os.environ.get("VERIF_JOBS", "16"))


class HarnessError(Exception):
    """The harness itself is broken (exit 2, never a VIOLATION)."""


def canon(spec):
    return json.dumps(spec, sort_keys=True, separators=(",", ":"), default=_json_default)


def _json_default(o):
    if isinstance(o, (bytes, bytearray)):
        return {"$hex": bytes(o).hex()}
    if isinstance(o, (set, frozenset)):
        return sorted(o)
    if isinstance(o, tuple):
        return list(o)
    return repr(o)


def spec_hash(spec):
    return hashlib.blake2b(canon(spec).encode(), digest_size=8).hexdigest()


def derive_seed(seed, *parts):
    h = hashlib.blake2b(repr((seed,) + parts).encode(), digest_size=8).digest()
    return int.from_bytes(h, "big") % (2 ** 31 - 1) + 1


_num = re.compile(r"0x[0-9a-fA-F]+|\b\d+\b")
_quoted = re.compile(r"'[^']*'|\"[^\"]*\"")
_hexrun = re.compile(r"\b[0-9a-fA-F]{8,}\b")
_enumrepr = re.compile(r"<\w+\.\w+: [^>]*>")
_enumname = re.compile(r"\b[A-Z]\w*\.[A-Z][A-Z_0-9a-z]*\b")
_brlist = re.compile(r"\[[^\]]*\]")


def norm_msg(msg, keep_quotes=False):
    msg = str(msg).split("\n")[0][:200]
    msg = _enumrepr.sub("E", msg)
    msg = _enumname.sub("E", msg)
    msg = _brlist.sub("[..]", msg)
    msg = _hexrun.sub("H", msg)
    if not keep_quotes:
        # a quoted value that itself holds quote or control characters (generated data echoed by
        # the message) cannot be cut out pairwise: everything from the first quote on is the value
        if any(ord(ch) < 32 or ord(ch) == 127 for ch in msg) or \
                (msg.count("'") % 2 == 1 and '"' not in msg) or (msg.count('"') % 2 == 1 and "'" not in msg):
            m = re.search(r"['\"]", msg)
            if m:
                msg = msg[:m.start()] + "Q"
        msg = _quoted.sub("Q", msg)
    msg = _num.sub("N", msg)
    return msg


def exc_site(exc, prefer="kmip"):
    """Innermost frame inside the code under test: 'file.py:function'."""
    tb = traceback.extract_tb(exc.__traceback__)
    site = None
    for fr in tb:
        fn = fr.filename.replace("\\", "/")
        if "/kmip/" in fn and "/vlib/" not in fn:
            site = "%s:%s" % (fn.split("/kmip/", 1)[1], fr.name)
    if site is None and tb:
        fr = tb[-1]
        site = "%s:%s" % (os.path.basename(fr.filename), fr.name)
    return site or "?"


def exc_bucket(pid, phase, exc, extra=None, keep_quotes=False):
    parts = [pid, phase, type(exc).__name__, exc_site(exc), norm_msg(exc, keep_quotes)]
    if extra:
        parts.insert(2, extra)
    return "|".join(parts)


class Collector(object):
    MAX_SAMPLES_PER_CLASS = 1
    MAX_SAMPLES = 8

    def __init__(self, pid):
        self.pid = pid
        self.evaluations = 0
        self.nontrivial = set()
        self.classes = {}
        self.buckets = {}      # key -> {"count": n, "example": spec, "detail": str}
        self.samples = []      # list of (class, spec)
        self._sampled_classes = set()
        self.extra = {}
        self.excluded = {}     # reason -> count (cases excluded by construction)

    def record(self, spec, nontrivial=False, classes=(), buckets=()):
        self.evaluations += 1
        if nontrivial:
            self.nontrivial.add(spec_hash(spec))
        for c in classes:
            self.classes[c] = self.classes.get(c, 0) + 1
            if (c not in self._sampled_classes and len(self.samples) < self.MAX_SAMPLES
                    and nontrivial):
                self._sampled_classes.add(c)
                self.samples.append([c, spec])
        if not self.samples and nontrivial:
            self.samples.append(["first-nontrivial", spec])
        for b in buckets:
            key, detail = (b, "") if isinstance(b, str) else (b[0], b[1])
            self.add_bucket(key, spec, detail)

    def add_bucket(self, key, spec, detail="", count=1):
        cur = self.buckets.get(key)
        size = len(canon(spec))
        if cur is None:
            self.buckets[key] = {"count": count, "example": spec, "detail": str(detail)[:2000],
                                 "size": size}
        else:
            cur["count"] += count
            if size < cur["size"]:
                cur.update(example=spec, detail=str(detail)[:2000], size=size)

    def exclude(self, reason, n=1):
        self.excluded[reason] = self.excluded.get(reason, 0) + n

    def bump(self, key, n=1):
        self.extra[key] = self.extra.get(key, 0) + n

    # --- (de)serialisation for shards
    def to_dict(self):
        return {"pid": self.pid, "evaluations": self.evaluations,
                "nontrivial": sorted(self.nontrivial), "classes": self.classes,
                "buckets": self.buckets, "samples": self.samples, "extra": self.extra,
                "excluded": self.excluded}

    def merge_dict(self, d):
        self.evaluations += d["evaluations"]
        self.nontrivial.update(d["nontrivial"])
        for k, v in d["classes"].items():
            self.classes[k] = self.classes.get(k, 0) + v
        for k, v in d["buckets"].items():
            cur = self.buckets.get(k)
            if cur is None:
                self.buckets[k] = dict(v)
            else:
                cur["count"] += v["count"]
                if v["size"] < cur["size"]:
                    cur.update(example=v["example"], detail=v["detail"], size=v["size"])
        for c, s in d["samples"]:
            if c not in self._sampled_classes and len(self.samples) < self.MAX_SAMPLES:
                self._sampled_classes.add(c)
                self.samples.append([c, s])
        for k, v in d["extra"].items():
            if isinstance(v, (int, float)):
                self.extra[k] = self.extra.get(k, 0) + v
            else:
                self.extra[k] = v
        for k, v in d["excluded"].items():
            self.excluded[k] = self.excluded.get(k, 0) + v

    def merge(self, other):
        self.merge_dict(other.to_dict())


class Ctx(object):
    def __init__(self, pid, tier, seed):
        self.pid = pid
        self.tier = tier
        self.seed = seed
        self.t0 = time.time()

    @property
    def quick(self):
        return self.tier == "quick"

    def n(self, quick, thorough):
        return quick if self.tier == "quick" else thorough


def _shard_entry(args):
    fn_module, fn_name, shard_args = args
    import importlib
    mod = importlib.import_module(fn_module)
    fn = getattr(mod, fn_name)
    try:
        res = fn(*shard_args)
        if isinstance(res, Collector):
            res = res.to_dict()
        return ("ok", res)
    except BaseException:
        return ("err", traceback.format_exc())


def run_sharded(module_name, fn_name, arg_list, jobs=None):
    """Run module.fn(*args) for each args in arg_list in forked worker processes.
    Returns list of results (collector dicts).  A worker exception is a harness error."""
    jobs = jobs or NCPU
    jobs = max(1, min(jobs, len(arg_list)))
    work = [(module_name, fn_name, a) for a in arg_list]
    if jobs == 1 or os.environ.get("VERIF_NOFORK"):
        out = [_shard_entry(w) for w in work]
    else:
        ctx = multiprocessing.get_context("fork")
        with ctx.Pool(jobs, maxtasksperchild=None) as pool:
            out = pool.map(_shard_entry, work, chunksize=1)
    res = []
    for status, val in out:
        if status != "ok":
            raise HarnessError("shard failed:\n" + val)
        res.append(val)
    return res


def merged(pid, dicts):
    col = Collector(pid)
    for d in dicts:
        col.merge_dict(d)
    return col


# ------------------------------------------------------------------ hypothesis driver
def draw_examples(strategy, n, seed, fn, max_shrinks=0):
    """Run fn(spec) on n examples drawn from a Hypothesis strategy, deterministically from seed.
    fn must not raise for oracle failures (it buckets them)."""
    import hypothesis
    from hypothesis import given, settings, HealthCheck, Phase

    @hypothesis.seed(seed)
    @settings(max_examples=n, database=None, deadline=None, derandomize=False,
              phases=[Phase.generate], report_multiple_bugs=False,
              suppress_health_check=list(HealthCheck))
    @given(strategy)
    def _t(spec):
        fn(spec)

    _t()


# ------------------------------------------------------------------ shrinking
def shrink_spec(spec, still_fails, budget=150):
    """Greedy structural shrinker over JSON-able specs: delete list elements, dict keys whose
    name starts with '?' is optional... (we simply try removing any list element / replacing
    scalars by simpler ones) while still_fails(spec) holds.  still_fails must return False on
    any harness trouble."""
    calls = [0]

    def ok(s):
        if calls[0] >= budget:
            return False
        calls[0] += 1
        try:
            return bool(still_fails(s))
        except Exception:
            return False

    def paths(node, pre=()):
        if isinstance(node, list):
            for i in range(len(node) - 1, -1, -1):
                yield pre + (i,), "del"
            for i, x in enumerate(node):
                for p in paths(x, pre + (i,)):
                    yield p
        elif isinstance(node, dict):
            for k in sorted(node, key=str):
                for p in paths(node[k], pre + (k,)):
                    yield p

    def get(node, path):
        for p in path:
            node = node[p]
        return node

    def deleted(node, path):
        node = json.loads(json.dumps(node))
        parent = get(node, path[:-1])
        del parent[path[-1]]
        return node

    improved = True
    while improved and calls[0] < budget:
        improved = False
        for path, _ in list(paths(spec)):
            try:
                cand = deleted(spec, path)
            except Exception:
                continue
            if ok(cand):
                spec = cand
                improved = True
                break
    return spec


# ------------------------------------------------------------------ known findings
def load_known(pid):
    path = os.path.join(HOME, "known_findings.json")
    if not os.path.exists(path):
        return []
    with open(path) as f:
        data = json.load(f)
    return [e for e in data.get("findings", []) if e.get("property") == pid]


def load_replay(path):
    if not os.path.isabs(path):
        path = os.path.join(HOME, path)
    with open(path) as f:
        return json.load(f)


def write_replay(pid, bucket, spec, detail=""):
    h = hashlib.blake2b(bucket.encode(), digest_size=5).hexdigest()
    rel = os.path.join("replays", "%s-%s.json" % (pid, h))
    path = os.path.join(HOME, rel)
    os.makedirs(os.path.dirname(path), exist_ok=True)
    with open(path, "w") as f:
        json.dump({"property": pid, "bucket": bucket, "detail": detail, "spec": spec}, f,
                  indent=1, sort_keys=True, default=_json_default)
    return rel


def write_evidence(pid, tier, seed, level, col, rule, assumptions, wall_s, violations,
                   known_hit, exhaustive=None, extra=None):
    cov = {
        "evaluations": col.evaluations,
        "distinct_nontrivial": len(col.nontrivial),
        "rule": rule,
        "samples": [{"class": c, "case": s} for c, s in col.samples] or [],
        "class_histogram": dict(sorted(col.classes.items())),
        "excluded_by_construction": col.excluded,
        "known_buckets_hit": known_hit,
        "all_buckets": {k: v["count"] for k, v in sorted(col.buckets.items())},
    }
    if exhaustive is not None:
        cov["exhaustive"] = bool(exhaustive)
    cov.update(col.extra)
    if extra:
        cov.update(extra)
    ev = {"property_id": pid, "tier": tier, "seed": seed, "level": level, "coverage": cov,
          "assumptions": assumptions, "wall_s": round(wall_s, 2), "violations": violations}
    if os.path.realpath(REPO) != "/repo":
        # sensitivity runs against a patched copy (VERIF_REPO) must not overwrite the evidence of
        # the real tree
        path = os.path.join(os.environ.get("VERIF_ALT_EVIDENCE", "/tmp/verif-alt-evidence"), "%s.json" % pid)
    else:
        path = os.path.join(HOME, "evidence", "%s.json" % pid)
    os.makedirs(os.path.dirname(path), exist_ok=True)
    tmp = path + ".tmp"
    with open(tmp, "w") as f:
        json.dump(ev, f, indent=1, default=_json_default)
    os.replace(tmp, path)
    return path


def log(*a):
    print(*a, file=sys.stderr, flush=True)
