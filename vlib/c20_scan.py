"""C20 helpers: canary registry, log capture (every logger, level >= INFO), and the leak scanner.

The scanner never imports kmip.  A *canary* is a byte string that must not show up in any log
text of level >= INFO nor in any Result Message.  It is searched
  raw        the bytes read as latin-1 characters, in the text as it is and after undoing Python
             escapes (\\xNN, \\n, \\', ... as produced by repr()/'{}'.format(bytes)), once and twice
  hex        in the lower-cased text with separators (space : , ; - _ quotes brackets, 0x, \\x)
             removed - so 'AA:BB', 'aa bb', "b'aabb'", '0xaa, 0xbb' are all seen
  lists      runs of >= 8 small numbers ('[12, 200, 7, ...]', '0xc 0xc8 0x7') turned back into bytes
  base64     every run of base64/urlsafe characters decoded at the four possible alignments
  integer    the whole canary as a decimal big-endian / little-endian integer
whole and as any W-byte window (W = 8, or 16 for DER-derived values), so partial leaks count."""
import base64
import binascii
import hashlib
import logging
import re
import traceback

from vlib import core

PID = "C20"


def canary_bytes(seed, idx, n):
    """Deterministic high-entropy bytes for (case seed, counter)."""
    out = b""
    j = 0
    while len(out) < n:
        out += hashlib.blake2b(("C20/%s/%s/%d" % (seed, idx, j)).encode(), digest_size=32).digest()
        j += 1
    return out[:n]


def canary_text(seed, idx, n):
    """A printable (base64 alphabet) password-like text carrying n bytes of entropy."""
    return base64.b64encode(canary_bytes(seed, "t%s" % idx, n)).decode().rstrip("=")


class Registry(object):
    """Secrets of one case: kind -> list of byte strings, with the window width per secret."""

    def __init__(self):
        self.items = []          # (kind, bytes, window)
        self._seen = set()
        self._win, self._win_n = [], -1

    def add(self, kind, value, window=8):
        value = bytes(value)
        if len(value) < window:
            return False
        k = (kind, value)
        if k in self._seen:
            return True
        self._seen.add(k)
        self.items.append((kind, value, window))
        return True

    def kinds(self):
        return sorted(set(k for k, _, _ in self.items))

    def windows(self):
        """[(kind, window bytes, latin-1 text, hex text)] de-duplicated.  8-byte windows at every
        offset; 16-byte windows (RSA private numbers) every 4 bytes, i.e. any run of >= 19
        consecutive bytes contains one."""
        if self._win_n == len(self.items):
            return self._win
        out = []
        seen = set()
        for kind, v, w in self.items:
            step = 1 if w <= 8 else 4
            last = len(v) - w
            for i in sorted(set(list(range(0, last + 1, step)) + [last])):
                win = v[i:i + w]
                if (kind, win) in seen:
                    continue
                seen.add((kind, win))
                out.append((kind, win, win.decode("latin-1"), win.hex()))
        self._win, self._win_n = out, len(self.items)
        return out

    def contains(self, data):
        """Kinds of which at least one window occurs in data (bytes): 'canary in flight'."""
        out = set()
        for kind, win, _, _ in self.windows():
            if kind not in out and win in data:
                out.add(kind)
        return sorted(out)


# ----------------------------------------------------------------------------- capture
def _kmip_site(pathname, func):
    p = (pathname or "").replace("\\", "/")
    if "/kmip/" in p:
        return "%s:%s" % (p.split("/kmip/", 1)[1], func)
    return "%s:%s" % (p.rsplit("/", 1)[-1], func)


def _logger_family(name):
    # per-session loggers are 'kmip.server.session.<thread name>'
    if name.startswith("kmip.server.session"):
        return "kmip.server.session"
    return name


class Capture(logging.Handler):
    """Keeps (logger, level, site, text) of every record with levelno >= INFO.  Attached to the
    root logger and to the loggers other checks have cut off from it (propagate=False)."""

    def __init__(self):
        logging.Handler.__init__(self, logging.NOTSET)
        self.entries = []
        self.below_info = 0
        self._last = None
        self._fmt = logging.Formatter()

    def clear(self):
        self.entries = []
        self.below_info = 0
        self._last = None

    def emit(self, record):
        if record is self._last:
            return
        self._last = record
        if record.levelno < logging.INFO:
            self.below_info += 1
            return
        try:
            text = record.getMessage()
        except Exception:
            text = "%s %% %r" % (record.msg, record.args)
        exc_site = "-"
        if record.exc_info and record.exc_info[1] is not None:
            try:
                text += "\n" + self._fmt.formatException(record.exc_info)
            except Exception:
                text += "\n" + repr(record.exc_info[1])
            exc_site = core.exc_site(record.exc_info[1])
        if record.stack_info:
            text += "\n" + str(record.stack_info)
        self.entries.append({"logger": _logger_family(record.name), "level": record.levelname,
                             "site": _kmip_site(record.pathname, record.funcName),
                             "exc_site": exc_site, "text": text})

    def add_escaped_exception(self, exc, logger="kmip.server.session", site="services/server/session.py:run"):
        """KmipSession.run() logs exceptions escaping the message loop with logger.exception(e);
        the harness drives _handle_message_loop directly, so the same text is recorded here."""
        text = "Failure handling message loop\n%s\n%s" % (
            exc, "".join(traceback.format_exception(type(exc), exc, exc.__traceback__)))
        self.entries.append({"logger": logger, "level": "ERROR", "site": site,
                             "exc_site": core.exc_site(exc), "text": text})


_capture = None
_TARGETS = ("", "kmip.server.engine", "kmip.server.session")


def install():
    """One Capture per process on the root logger and on the two loggers vlib.harness detaches
    from the root.  Levels: the 'kmip' logger is set to INFO - what KmipServer does for
    'kmip.server' by default (config logging_level=INFO) and what 'the default logging level
    (INFO)' of the property means for the client loggers; nothing is set below INFO and
    KMIPProtocol's own level handling is left alone."""
    global _capture
    if _capture is None:
        _capture = Capture()
    for name in _TARGETS:
        lg = logging.getLogger(name)
        if _capture not in lg.handlers:
            lg.addHandler(_capture)
    logging.getLogger("kmip").setLevel(logging.INFO)
    return _capture


# ----------------------------------------------------------------------------- haystacks
_ESC = re.compile(r"\\x([0-9a-fA-F]{2})|\\u([0-9a-fA-F]{4})|\\([ntr\\'\"0abfv])")
_ESC_CH = {"n": "\n", "t": "\t", "r": "\r", "\\": "\\", "'": "'", '"': '"', "0": "\0",
           "a": "\a", "b": "\b", "f": "\f", "v": "\v"}


def unescape(t):
    def sub(m):
        if m.group(1):
            return chr(int(m.group(1), 16))
        if m.group(2):
            return chr(int(m.group(2), 16))
        return _ESC_CH[m.group(3)]
    return _ESC.sub(sub, t)


_HEXSEP = re.compile(r"0x|\\x|[\s:,;\-_'\"\[\]\(\)\\]")
_NUMLIST = re.compile(r"(?:(?:0[xX][0-9a-fA-F]{1,2}|\d{1,3})[\s,;:'\"]+){7,}(?:0[xX][0-9a-fA-F]{1,2}|\d{1,3})")
_NUMTOK = re.compile(r"0[xX][0-9a-fA-F]{1,2}|\d{1,3}")
_B64RUN = re.compile(r"[A-Za-z0-9+/_\-]{11,}")
_URLSAFE = str.maketrans("-_", "+/")


def hexnorm(t):
    return _HEXSEP.sub("", t.lower())


def number_blobs(t):
    out = []
    for m in _NUMLIST.finditer(t):
        cur = bytearray()
        for tok in _NUMTOK.findall(m.group(0)):
            v = int(tok, 16) if tok[:2].lower() == "0x" else int(tok)
            if v > 255:
                if len(cur) >= 8:
                    out.append(bytes(cur))
                cur = bytearray()
            else:
                cur.append(v)
        if len(cur) >= 8:
            out.append(bytes(cur))
    return out


def base64_blobs(t):
    out = []
    for m in _B64RUN.finditer(t):
        run = m.group(0).translate(_URLSAFE)
        for off in range(4):
            s = run[off:]
            s = s[:len(s) // 4 * 4]
            if len(s) < 12:
                continue
            try:
                out.append(base64.b64decode(s))
            except (binascii.Error, ValueError):
                pass
    return out


class Haystack(object):
    def __init__(self, text):
        self.text = text
        u1 = unescape(text)
        u2 = unescape(u1)
        self.raw = [text] + ([u1] if u1 != text else []) + ([u2] if u2 != u1 else [])
        self.hex = hexnorm(text)
        self.blobs = number_blobs(text) + base64_blobs(text)

    def find(self, win, s, hx):
        """Form in which the window occurs, or None."""
        for i, r in enumerate(self.raw):
            if s in r:
                return "raw" if i == 0 else "escaped"
        if hx in self.hex:
            return "hex"
        for b in self.blobs:
            if win in b:
                return "list/base64"
        return None


def _snip(text, n=300):
    text = text.replace("\n", " | ")
    return text if len(text) <= n else text[:n] + "..."


def scan_text(text, registry, hay=None):
    """[(kind, form)] of canaries visible in text (first window per kind)."""
    hay = hay or Haystack(text)
    found = {}
    for kind, win, raw, hx in registry.windows():
        if kind in found:
            continue
        f = hay.find(win, raw, hx)
        if f:
            found[kind] = f
    for kind, v, _ in registry.items:
        if kind in found or len(v) > 64:
            continue
        for n in (int.from_bytes(v, "big"), int.from_bytes(v, "little")):
            if str(n) in text:
                found[kind] = "integer"
    return sorted(found.items())


def scan_entries(entries, registry):
    """Findings [(entry, kind, form)] over captured log entries.  One joined pre-scan keeps the
    common (clean) case cheap."""
    if not entries or not registry.items:
        return []
    texts = {}
    for e in entries:
        texts.setdefault(e["text"], []).append(e)
    joined = "\n\x00\n".join(texts)
    if not scan_text(joined, registry):
        return []
    out = []
    for text, es in texts.items():
        for kind, form in scan_text(text, registry):
            out.append((es[0], kind, form))
    return out


# ----------------------------------------------------------------------------- whole messages
_HEXRUN = re.compile(r"[0-9a-f]{64,}")
FRAME_MIN = 32          # bytes of a frame that count as 'a whole message encoding'


def scan_frames(entries, frames):
    """Findings [(entry, direction, form)]: a record containing >= 32 consecutive bytes of a
    request/response frame in hex (any separator style), or >= 47 consecutive bytes raw / in
    escaped form (checked on 16-byte-aligned 32-byte windows that contain a TTLV tag prefix, so
    that a long text attribute quoted in a message is not mistaken for a message encoding)."""
    out = []
    if not frames or not entries:
        return out
    uniq = []
    seen = set()
    for d, f in frames:
        if f not in seen and len(f) >= FRAME_MIN:
            seen.add(f)
            uniq.append((d, f))
    texts = {}
    for e in entries:
        texts.setdefault(e["text"], e)
    joined = "\n\x00\n".join(texts)
    hex_suspect = _HEXRUN.search(hexnorm(joined)) is not None
    raw_windows = []
    for d, f in uniq:
        for i in range(0, len(f) - FRAME_MIN + 1, 16):
            w = f[i:i + FRAME_MIN]
            if b"\x42\x00" in w:
                raw_windows.append((d, w.decode("latin-1")))
    ju = unescape(joined)
    raw_suspect = any(s in joined or s in ju for _, s in raw_windows)
    if not hex_suspect and not raw_suspect:
        return out
    fhex = [(d, f.hex()) for d, f in uniq]
    for text, e in texts.items():
        dirs = set()
        form = None
        if hex_suspect:
            for m in _HEXRUN.finditer(hexnorm(text)):
                run = m.group(0)
                for d, fh in fhex:
                    if d in dirs:
                        continue
                    for i in range(0, len(run) - 2 * FRAME_MIN + 1):
                        if run[i:i + 2 * FRAME_MIN] in fh:
                            dirs.add(d)
                            form = "hex"
                            break
        if not dirs and raw_suspect:
            tu = unescape(text)
            for d, s in raw_windows:
                if d in dirs:
                    continue
                if s in text:
                    dirs.add(d)
                    form = form or "raw"
                elif s in tu:
                    dirs.add(d)
                    form = form or "escaped"
        if dirs:
            out.append((e, "+".join(sorted(dirs)), form))
    return out


def selfcheck():
    """The scanner must see a planted secret in every advertised form and nothing in clean text;
    otherwise the run is worthless (harness error, never a verdict)."""
    import base64 as b64
    c = canary_bytes("selfcheck", 1, 24)
    reg = Registry()
    reg.add("k", c)
    part = c[5:17]
    forms = {
        "raw": "x" + c.decode("latin-1") + "y",
        "repr": "value=%r" % (c,),
        "repr-of-repr": repr("value=%r" % (part,)),
        "hex": "key " + c.hex(),
        "hex-upper-colon": ":".join("%02X" % b for b in part),
        "hex-0x-list": ", ".join("0x%02x" % b for b in part),
        "hex-short-list": str([hex(b) for b in part]),
        "hexlify-repr": "Request encoding: %s" % (__import__("binascii").hexlify(b"\x42\x00" + c),),
        "decimal-list": str(list(part)),
        "base64": b64.b64encode(b"ab" + c + b"z").decode(),
        "base64-urlsafe": b64.urlsafe_b64encode(b"\xfb\xff\xfe" + part).decode().rstrip("="),
        "integer": "n=%d" % int.from_bytes(c, "big"),
        "traceback": "Traceback (most recent call last):\n  File \"x.py\", line 1\nValueError: bad key %r" % (part,),
    }
    for name, text in forms.items():
        if not scan_text(text, reg):
            raise core.HarnessError("C20 scanner self-check: form %r not detected" % name)
    clean = ("Processing operation: Register\nRegistered a SymmetricKey with ID: 31\n"
             "Traceback (most recent call last):\n  File \"/repo/kmip/services/server/engine.py\", line 1\n"
             "ValueError: Invalid key size (96) for 3DES. " + canary_bytes("selfcheck", 2, 24).hex())
    if scan_text(clean, reg):
        raise core.HarnessError("C20 scanner self-check: clean text flagged")
    frame = b"\x42\x00\x78\x01\x00\x00\x00\x90" + canary_bytes("selfcheck", 3, 144)
    e = {"text": "Request encoding: %s" % frame[16:60].hex().upper(), "logger": "l", "site": "s",
         "exc_site": "-", "level": "INFO"}
    if not scan_frames([e], [("request", frame)]):
        raise core.HarnessError("C20 scanner self-check: frame hex not detected")
    e2 = dict(e, text="Bad message: %r" % (frame[:80],))
    if not scan_frames([e2], [("request", frame)]):
        raise core.HarnessError("C20 scanner self-check: escaped frame bytes not detected")
    e3 = dict(e, text="Session client identity: alice " + frame[16:40].hex())
    if scan_frames([e3], [("request", frame)]):
        raise core.HarnessError("C20 scanner self-check: short frame excerpt flagged")


def log_bucket(entry, what, kind):
    return "%s|%s|%s|%s|exc@%s|%s" % (PID, what, entry["logger"], entry["site"], entry["exc_site"], kind)


def log_detail(entry, kind, form):
    return "%s canary visible (%s form) in %s record of %s: %s" % (
        kind, form, entry["level"], entry["logger"], _snip(entry["text"], 600))
