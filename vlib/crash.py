"""Crash injection: run one request in a forked child that dies (os._exit) at the k-th SQL event
(before/after every statement, at commit, after commit), or is SIGKILLed by the parent."""
import json
import os
import shutil
import signal
import tempfile
import time

import sqlalchemy
from sqlalchemy import event

from vlib import harness as H


class Events(object):
    """Counts SQLAlchemy events on an engine's data store; optionally dies at event k."""

    def __init__(self, server, die_at=None):
        self.log = []
        self.die_at = die_at
        eng = server.engine._data_store
        event.listen(eng, "before_cursor_execute", self._before)
        event.listen(eng, "after_cursor_execute", self._after)
        event.listen(eng, "commit", self._commit)
        event.listen(eng, "rollback", self._rollback)
        event.listen(server.engine._data_store_session_factory, "after_commit", self._after_commit)

    def _hit(self, kind, sql=""):
        k = len(self.log)
        self.log.append((kind, sql.strip().split(" ", 1)[0].upper() if sql else ""))
        if self.die_at is not None and k == self.die_at:
            os._exit(17)

    def _before(self, conn, cursor, statement, parameters, context, executemany):
        self._hit("before", statement)

    def _after(self, conn, cursor, statement, parameters, context, executemany):
        self._hit("after", statement)

    def _commit(self, conn):
        self._hit("commit")

    def _rollback(self, conn):
        self._hit("rollback")

    def _after_commit(self, session):
        self._hit("after_commit")


def calibrate(template_db, policies, send):
    """Run `send(server)` uncrashed on a copy; returns (event log, result of send, server dir)."""
    srv = H.Server(policies=policies, template=template_db)
    ev = Events(srv)
    out = send(srv)
    return ev.log, out, srv


def crashed_run(template_db, policies, send, die_at, workdir=None, inplace=False):
    """Fork a child that opens the engine on a private copy of the database, runs send(server)
    and dies at event index die_at (None: runs to completion).  Returns (db_path, dir, info) where
    info = {"acked": bool, "ack": <what send returned, JSON>, "exit": code}."""
    if inplace:
        d = os.path.dirname(template_db)
        db = template_db
    else:
        d = tempfile.mkdtemp(prefix="vcrash-", dir=workdir)
        db = os.path.join(d, "kmip.db")
        shutil.copyfile(template_db, db)
    rfd, wfd = os.pipe()
    pid = os.fork()
    if pid == 0:
        code = 1
        try:
            os.close(rfd)
            srv = H.Server(policies=policies, db=db)
            Events(srv, die_at=die_at)
            out = send(srv)
            os.write(wfd, json.dumps(out, default=repr).encode())
            code = 0
        except BaseException as e:     # harness trouble inside the child
            try:
                os.write(wfd, json.dumps({"child_error": repr(e)}).encode())
            except Exception:
                pass
            code = 3
        finally:
            os._exit(code)
    os.close(wfd)
    chunks = []
    while True:
        b = os.read(rfd, 65536)
        if not b:
            break
        chunks.append(b)
    os.close(rfd)
    _, status = os.waitpid(pid, 0)
    code = os.WEXITSTATUS(status) if os.WIFEXITED(status) else -os.WTERMSIG(status)
    data = b"".join(chunks)
    ack = None
    if data:
        try:
            ack = json.loads(data.decode())
        except Exception:
            ack = {"child_error": "garbled pipe"}
    return db, d, {"acked": ack is not None and "child_error" not in (ack or {}), "ack": ack, "exit": code}


def killed_workload(template_db, policies, sends, kill_after_s, workdir=None):
    """Child runs sends[i](server) one after the other, writing one line per completed request
    to a pipe; the parent SIGKILLs it after kill_after_s seconds.  Returns (db, dir, n_acked, exit)."""
    d = tempfile.mkdtemp(prefix="vkill-", dir=workdir)
    db = os.path.join(d, "kmip.db")
    shutil.copyfile(template_db, db)
    rfd, wfd = os.pipe()
    pid = os.fork()
    if pid == 0:
        try:
            os.close(rfd)
            srv = H.Server(policies=policies, db=db)
            os.write(wfd, b"R\n")
            for s in sends:
                s(srv)
                os.write(wfd, b"A\n")
        finally:
            os._exit(0)
    os.close(wfd)
    # wait for the child to be ready, then let it run for the drawn time
    first = os.read(rfd, 2)
    t0 = time.time()
    while time.time() - t0 < kill_after_s:
        time.sleep(0.0002)
    try:
        os.kill(pid, signal.SIGKILL)
    except ProcessLookupError:
        pass
    data = first
    while True:
        b = os.read(rfd, 65536)
        if not b:
            break
        data += b
    os.close(rfd)
    _, status = os.waitpid(pid, 0)
    code = os.WEXITSTATUS(status) if os.WIFEXITED(status) else -os.WTERMSIG(status)
    return db, d, data.count(b"A"), code
