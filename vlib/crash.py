"""Crash injection: run one request in a forked child that dies (os._exit) at the k-th SQL event
(before/after every statement, at commit, after commit), or is SIGKILLed by the parent."""
import json
import os
import shutil
import signal
import tempfile
import time

import sqlalchemy
from sqlalchemy import event

from vlib import harness as H


class Events(object):
    """Counts SQLAlchemy events on an engine's data store; optionally dies at event k."""

    def __init__(self, server, die_at=None):
        self.log = []
        self.die_at = die_at
        eng = server.engine._data_store
        event.listen(eng, "before_cursor_execute", self._before)
        event.listen(eng, "after_cursor_execute", self._after)
        event.listen(eng, "commit", self._commit)
        event.listen(eng, "rollback", self._rollback)
        event.listen(server.engine._data_store_session_factory, "after_commit", self._after_commit)

    def _hit(self, kind, sql=""):
        k = len(self.log)
        self.log.append((kind, sql.strip().split(" ", 1)[0].upper() if sql else ""))
        if self.die_at is not None and k == self.die_at:
            os._exit(17)

    def _before(self, conn, cursor, statement, parameters, context, executemany):
        self._hit("before", statement)

    def _after(self, conn, cursor, statement, parameters, context, executemany):
        self._hit("after", statement)

    def _commit(self, conn):
        self._hit("commit")

    def _rollback(self, conn):
        self._hit("rollback")

    def _after_commit(self, session):
        self._hit("after_commit")


def calibrate(template_db, policies, send):
    """Run `send(server)` uncrashed on a copy; returns (event log, result of send, server dir)."""
    srv = H.Server(policies=policies, template=template_db)
    ev = Events(srv)
    out = send(srv)
    return ev.log, out, srv


def crashed_run(template_db, policies, send, die_at, workdir=None, inplace=False):
    """Fork a child that opens the engine on a private copy of the database, runs send(server)
    and dies at event index die_at (None: runs to completion).  Returns (db_path, dir, info) where
    info = {"acked": bool, "ack": <what send returned, JSON>, "exit": code}."""
    if inplace:
        d = os.path.dirname(template_db)
        db = template_db
    else:
        d = tempfile.mkdtemp(prefix="vcrash-", dir=workdir)
        db = os.path.join(d, "kmip.db")
        shutil.copyfile(template_db, db)
    rfd, wfd = os.pipe()
    pid = os.fork()
    if pid == 0:
        code = 1
        try:
            os.close(rfd)
            srv = H.Server(policies=policies, db=db)
            Events(srv, die_at=die_at)
            out = send(srv)
            os.write(wfd, json.dumps(out, default=repr).encode())
            code = 0
        except BaseException as e:     # harness trouble inside the child
            try:
                os.write(wfd, json.dumps({"child_error": repr(e)}).encode())
            except Exception:
                pass
            code = 3
        finally:
            os._exit(code)
    os.close(wfd)
    chunks = []
    while True:
        b = os.read(rfd, 65536)
        if not b:
            break
        chunks.append(b)
    os.close(rfd)
    _, status = os.waitpid(pid, 0)
    code = os.WEXITSTATUS(status) if os.WIFEXITED(status) else -os.WTERMSIG(status)
    data = b"".join(chunks)
    ack = None
    if data:
        try:
            ack = json.loads(data.decode())
        except Exception:
            ack = {"child_error": "garbled pipe"}
    return db, d, {"acked": ack is not None and "child_error" not in (ack or {}), "ack": ack, "exit": code}


def killed_workload(template_db, policies, sends, kill_after_s, workdir=None):
    """Child runs sends[i](server) one after the other, writing one line per completed request
    to a pipe; the parent SIGKILLs it after kill_after_s seconds.  Returns (db, dir, n_acked, exit)."""
    d = tempfile.mkdtemp(prefix="vkill-", dir=workdir)
    db = os.path.join(d, "kmip.db")
    shutil.copyfile(template_db, db)
    rfd, wfd = os.pipe()
    pid = os.fork()
    if pid == 0:
        try:
            os.close(rfd)
            srv = H.Server(policies=policies, db=db)
            os.write(wfd, b"R\n")
            for s in sends:
                s(srv)
                os.write(wfd, b"A\n")
        finally:
            os._exit(0)
    os.close(wfd)
    # wait for the child to be ready, then let it run for the drawn time
    first = os.read(rfd, 2)
    t0 = time.time()
    while time.time() - t0 < kill_after_s:
        time.sleep(0.0002)
    try:
        os.kill(pid, signal.SIGKILL)
    except ProcessLookupError:
        pass
    data = first
    while True:
        b = os.read(rfd, 65536)
        if not b:
            break
        data += b
    os.close(rfd)
    _, status = os.waitpid(pid, 0)
    code = os.WEXITSTATUS(status) if os.WIFEXITED(status) else -os.WTERMSIG(status)
    return db, d, data.count(b"A"), code


# ------------------------------------------------------------------ death at a chosen system call
# SQLite does its file I/O in C; the only place where "the process dies between two writes of one
# COMMIT" can be produced deterministically is the system-call boundary.  strace (ptrace) attaches
# to the forked child and delivers SIGKILL when the k-th call of one system call that touches the
# database file, its journal / WAL files or the directory is entered.
SYSCALLS = ("pwrite64", "write", "pwritev", "writev", "fsync", "fdatasync", "ftruncate", "unlink",
            "unlinkat", "rename", "renameat", "renameat2")
_strace = {}


def _paths(db):
    d = os.path.dirname(db)
    return [db, db + "-journal", db + "-wal", db + "-shm", d]


def _attach(pid, db, out, inject):
    import subprocess
    args = ["strace", "-p", str(pid), "-e", "trace=" + ",".join(SYSCALLS), "-o", out]
    for p in _paths(db):
        args += ["-P", p]
    if inject is not None:
        args += ["-e", "inject=%s:signal=KILL:when=%d" % inject]
    p = subprocess.Popen(args, stdout=subprocess.DEVNULL, stderr=subprocess.DEVNULL)
    t0 = time.time()
    while True:
        try:
            with open("/proc/%d/status" % pid) as f:
                s = f.read()
        except OSError:
            s = ""
        if s and "TracerPid:\t0\n" not in s:
            return p
        if p.poll() is not None or time.time() - t0 > 40:     # a loaded machine attaches slowly
            try:
                p.kill()
            except OSError:
                pass
            return None
        time.sleep(0.0005)


def strace_available():
    """Can strace attach to a forked child and kill it at a chosen system call here?  (cached)"""
    if "ok" in _strace:
        return _strace["ok"], _strace.get("why", "")
    ok, why = False, ""
    d = tempfile.mkdtemp(prefix="vsys-")
    try:
        if shutil.which("strace") is None:
            why = "strace is not installed"
        else:
            f = os.path.join(d, "probe.db")
            open(f, "wb").close()
            r, w = os.pipe()
            pid = os.fork()
            if pid == 0:
                try:
                    os.close(w)
                    os.read(r, 1)
                    fd = os.open(f, os.O_WRONLY)
                    os.pwrite(fd, b"x", 0)
                    os.pwrite(fd, b"y", 1)
                finally:
                    os._exit(0)
            os.close(r)
            p = _attach(pid, f, os.path.join(d, "trace"), ("pwrite64", 2))
            os.write(w, b"g")
            os.close(w)
            _, status = os.waitpid(pid, 0)
            if p is not None:
                p.wait()
            with open(f, "rb") as fh:
                data = fh.read()
            if p is None:
                why = "strace cannot attach to a forked child (ptrace not permitted)"
            elif not os.WIFSIGNALED(status) or data not in (b"x", b"xy"):
                why = "strace did not deliver the kill at the chosen call (status %r)" % status
            else:
                ok = True
    except Exception as e:
        why = "probe failed: %r" % (e,)
    finally:
        shutil.rmtree(d, ignore_errors=True)
    _strace["ok"], _strace["why"] = ok, why
    return ok, why


def syscall_run(template_db, policies, send, inject=None, workdir=None):
    """Fork a child that opens the engine on a private copy of the database and runs send(server)
    under strace; inject = (syscall name, k): SIGKILL on entering the k-th such call on the
    database files, None: trace only.  Returns (db, dir, info) with info = {acked, ack, exit,
    killed, calls: {syscall: count}} (calls only for trace-only runs)."""
    d = tempfile.mkdtemp(prefix="vsys-", dir=workdir)
    db = os.path.join(d, "kmip.db")
    shutil.copyfile(template_db, db)
    trace = os.path.join(d, "strace.out")
    go_r, go_w = os.pipe()
    rfd, wfd = os.pipe()
    pid = os.fork()
    if pid == 0:
        code = 1
        try:
            os.close(rfd)
            os.close(go_w)
            srv = H.Server(policies=policies, db=db)
            os.write(wfd, b"R")
            os.read(go_r, 1)
            out = send(srv)
            os.write(wfd, json.dumps(out, default=repr).encode())
            code = 0
        except BaseException as e:
            try:
                os.write(wfd, json.dumps({"child_error": repr(e)}).encode())
            except Exception:
                pass
            code = 3
        finally:
            os._exit(code)
    os.close(wfd)
    os.close(go_r)
    first = os.read(rfd, 1)
    p = _attach(pid, db, trace, inject) if first == b"R" else None
    try:
        os.write(go_w, b"g")
    except OSError:
        pass
    os.close(go_w)
    chunks = []
    while True:
        b = os.read(rfd, 65536)
        if not b:
            break
        chunks.append(b)
    os.close(rfd)
    _, status = os.waitpid(pid, 0)
    if p is not None:
        try:
            p.wait(timeout=20)
        except Exception:
            p.kill()
    code = os.WEXITSTATUS(status) if os.WIFEXITED(status) else -os.WTERMSIG(status)
    data = b"".join(chunks)
    ack = None
    if data:
        try:
            ack = json.loads(data.decode())
        except Exception:
            ack = {"child_error": "garbled pipe"}
    info = {"acked": ack is not None and "child_error" not in (ack or {}), "ack": ack, "exit": code,
            "killed": code == -signal.SIGKILL, "attached": p is not None}
    if inject is None:
        calls = {}
        order = []
        try:
            with open(trace) as f:
                for line in f:
                    name = line.split("(", 1)[0].split()[-1] if "(" in line else ""
                    if name in SYSCALLS:
                        calls[name] = calls.get(name, 0) + 1
                        order.append(name)
        except OSError:
            pass
        info["calls"] = calls
        info["order"] = order
    try:
        os.remove(trace)
    except OSError:
        pass
    return db, d, info


# ------------------------------------------------------------------ death during the FIRST start
class ClassEvents(object):
    """Counts SQLAlchemy events of EVERY engine of the process (listeners on the Engine class), so
    that the statements of KmipEngine.__init__ (schema creation) are seen; dies at event k."""

    def __init__(self, die_at=None):
        from sqlalchemy.engine import Engine
        self.log = []
        self.die_at = die_at
        event.listen(Engine, "before_cursor_execute", self._before)
        event.listen(Engine, "after_cursor_execute", self._after)
        event.listen(Engine, "commit", self._commit)

    def _hit(self, kind, sql=""):
        k = len(self.log)
        self.log.append((kind, " ".join(sql.strip().split()[:3]).upper() if sql else ""))
        if self.die_at is not None and k == self.die_at:
            os._exit(17)

    def _before(self, conn, cursor, statement, parameters, context, executemany):
        self._hit("before", statement)

    def _after(self, conn, cursor, statement, parameters, context, executemany):
        self._hit("after", statement)

    def _commit(self, conn):
        self._hit("commit")


def startup_run(policies, send, die_at=None, inject=None, trace=False, workdir=None):
    """Fork a child that starts a server on a database file that does not exist yet (the schema
    is created), then runs send(server).  die_at = k: os._exit at the k-th SQLAlchemy event of
    the process; inject = (syscall, k): SIGKILL at that system call (strace); trace=True: strace
    attached without injection (calibration).  -> (db, dir, info); info['events'] is the event
    log of an uncrashed, untraced run."""
    d = tempfile.mkdtemp(prefix="vstart-", dir=workdir)
    db = os.path.join(d, "kmip.db")
    tracef = os.path.join(d, "strace.out")
    use_strace = trace or inject is not None
    go_r, go_w = os.pipe()
    rfd, wfd = os.pipe()
    pid = os.fork()
    if pid == 0:
        code = 1
        try:
            os.close(rfd)
            os.close(go_w)
            ev = ClassEvents(die_at=die_at)
            os.write(wfd, b"R")
            os.read(go_r, 1)
            srv = H.Server(policies=policies, db=db)
            out = send(srv)
            os.write(wfd, json.dumps({"out": out, "events": ev.log}, default=repr).encode())
            code = 0
        except BaseException as e:
            try:
                os.write(wfd, json.dumps({"child_error": repr(e)}).encode())
            except Exception:
                pass
            code = 3
        finally:
            os._exit(code)
    os.close(wfd)
    os.close(go_r)
    first = os.read(rfd, 1)
    p = None
    if use_strace and first == b"R":
        p = _attach(pid, db, tracef, inject)
    try:
        os.write(go_w, b"g")
    except OSError:
        pass
    os.close(go_w)
    chunks = []
    while True:
        b = os.read(rfd, 65536)
        if not b:
            break
        chunks.append(b)
    os.close(rfd)
    _, status = os.waitpid(pid, 0)
    if p is not None:
        try:
            p.wait(timeout=20)
        except Exception:
            p.kill()
    code = os.WEXITSTATUS(status) if os.WIFEXITED(status) else -os.WTERMSIG(status)
    data = b"".join(chunks)
    ack = None
    if data:
        try:
            ack = json.loads(data.decode())
        except Exception:
            ack = {"child_error": "garbled pipe"}
    ok = ack is not None and "child_error" not in (ack or {})
    info = {"acked": ok, "ack": (ack or {}).get("out") if ok else ack, "exit": code,
            "killed": code == -signal.SIGKILL, "attached": p is not None or not use_strace,
            "events": (ack or {}).get("events") if ok else None}
    if trace and inject is None:
        calls = {}
        try:
            with open(tracef) as f:
                for line in f:
                    name = line.split("(", 1)[0].split()[-1] if "(" in line else ""
                    if name in SYSCALLS:
                        calls[name] = calls.get(name, 0) + 1
        except OSError:
            pass
        info["calls"] = calls
    try:
        os.remove(tracef)
    except OSError:
        pass
    return db, d, info
