"""In-process PyKMIP server harness: real KmipEngine on a real SQLite file, real KmipSession
with a scripted fake connection, deterministic clock, request builders from JSON-able specs,
observers (raw SQLite dump and API dump as every identity)."""
import datetime
import warnings
warnings.filterwarnings("ignore")
import logging
import os
import shutil
import sqlite3
import struct
import tempfile
import time as _realtime

from kmip.core import attributes as cattr
from kmip.core import enums
from kmip.core import objects as cobj
from kmip.core import primitives
from kmip.core import secrets as csec
from kmip.core import utils as cutils
from kmip.core import policy as cpolicy
from kmip.core.factories import attributes as attr_factory_mod
from kmip.core.messages import contents, messages, payloads
from kmip.services.server import engine as engine_mod
from kmip.services.server import session as session_mod

from vlib import ttlvref

VERSIONS = [(1, 0), (1, 1), (1, 2), (1, 3), (1, 4), (2, 0)]


# ------------------------------------------------------------------------------ cost bound
class _CostBound(object):
    """Stands for a `cryptography` sub-module inside kmip.services.server.crypto.engine and
    refuses the two calls whose cost is unbounded in a request field (RSA modulus size, PBKDF2
    iteration count): a mangled request (one flipped bit in a length) would otherwise occupy a
    worker for hours.  Resource use is not among the properties; the refusal is an error the
    crypto engine already turns into an ordinary error result."""

    def __init__(self, mod):
        self._mod = mod

    def __getattr__(self, name):
        return getattr(self._mod, name)

    def generate_private_key(self, public_exponent, key_size, *a, **k):
        if isinstance(key_size, int) and key_size > 4096:
            raise ValueError("harness cost bound: RSA modulus of %d bits" % key_size)
        return self._mod.generate_private_key(public_exponent, key_size, *a, **k)

    def PBKDF2HMAC(self, *a, **k):
        it = k.get("iterations", a[3] if len(a) > 3 else 0)
        if isinstance(it, int) and it > 2_000_000:
            from kmip.core import exceptions as kexc   # this call site has no handler of its own
            raise kexc.InvalidField("harness cost bound: %d PBKDF2 iterations" % it)
        return self._mod.PBKDF2HMAC(*a, **k)


def _install_cost_bound():
    from kmip.services.server.crypto import engine as ce
    if not isinstance(ce.rsa, _CostBound):
        ce.rsa = _CostBound(ce.rsa)
    if not isinstance(ce.pbkdf2, _CostBound):
        ce.pbkdf2 = _CostBound(ce.pbkdf2)


_install_cost_bound()
_AF = attr_factory_mod.AttributeFactory()


def KV(v):
    return {(1, 0): enums.KMIPVersion.KMIP_1_0, (1, 1): enums.KMIPVersion.KMIP_1_1,
            (1, 2): enums.KMIPVersion.KMIP_1_2, (1, 3): enums.KMIPVersion.KMIP_1_3,
            (1, 4): enums.KMIPVersion.KMIP_1_4, (2, 0): enums.KMIPVersion.KMIP_2_0}[tuple(v)]


# ------------------------------------------------------------------------------ clock
class Clock(object):
    """Replaces the `time` module inside kmip.services.server.engine (and session)."""

    def __init__(self, start=1_700_000_000):
        self.now = start

    def time(self):
        return float(self.now)

    def tick(self, n=1):
        self.now += n

    def __getattr__(self, name):
        return getattr(_realtime, name)


CLOCK = Clock()


def install_clock():
    engine_mod.time = CLOCK
    return CLOCK


def uninstall_clock():
    engine_mod.time = _realtime


# ------------------------------------------------------------------------------ log capture
class Capture(logging.Handler):
    def __init__(self, level=logging.DEBUG):
        logging.Handler.__init__(self, level)
        self.records = []

    def emit(self, record):
        self.records.append(record)

    def clear(self):
        self.records = []


_engine_capture = None


def engine_capture():
    """A handler on 'kmip.server.engine' capturing WARNING+ records (General Failure evidence)."""
    global _engine_capture
    if _engine_capture is None:
        _engine_capture = Capture(logging.WARNING)
        lg = logging.getLogger("kmip.server.engine")
        lg.addHandler(_engine_capture)
        lg.propagate = False
        sl = logging.getLogger("kmip.server.session")
        sl.propagate = False
        sl.addHandler(logging.NullHandler())
        # sqlalchemy/other noise off
        logging.getLogger("kmip").addHandler(logging.NullHandler())
    return _engine_capture


def internal_errors(cap):
    """Exceptions that took the engine's catch-all path: the record that follows the WARNING
    'Error occurred while processing operation.' on logger kmip.server.engine.  (Handled
    exceptions that handlers log with logger.exception before raising a specific KMIP error are
    not internal errors.)"""
    out = []
    recs = cap.records
    for i, r in enumerate(recs):
        if (r.name == "kmip.server.engine" and r.exc_info and r.exc_info[1] is not None and i > 0
                and recs[i - 1].name == "kmip.server.engine"
                and recs[i - 1].getMessage().startswith("Error occurred while processing operation")):
            out.append(r.exc_info[1])
    return out


# ------------------------------------------------------------------------------ certificates
_cert_cache = {}
_cert_key = None


def make_cert(cns=("alice",), eku="client", layout="separate", issuer_cn=None):
    """Real DER certificate. cns: tuple of common names; eku in None|'server'|'client'|'both'.
    layout: 'separate' = every CN in an RDN of its own; 'multi' = all CNs in ONE multi-valued
    RDN (CN=a+CN=b); 'multi-ou' = one multi-valued RDN holding the CNs and an OU; 'cn-first' =
    CNs before the organisation RDN.  issuer_cn: the issuer gets a name of its own with that
    common name (otherwise self-issued)."""
    global _cert_key
    from cryptography import x509
    from cryptography.hazmat.primitives import hashes, serialization
    from cryptography.hazmat.primitives.asymmetric import ec
    from cryptography.x509.oid import NameOID, ExtendedKeyUsageOID
    key = (tuple(cns), eku, layout, issuer_cn)
    if key in _cert_cache:
        return _cert_cache[key]
    if _cert_key is None:
        _cert_key = ec.generate_private_key(ec.SECP256R1())
    org = x509.NameAttribute(NameOID.ORGANIZATION_NAME, u"verif")
    cnattrs = [x509.NameAttribute(NameOID.COMMON_NAME, cn) for cn in cns]
    if layout == "separate":
        name = x509.Name([org] + cnattrs)
    elif layout == "cn-first":
        name = x509.Name(cnattrs + [org])
    elif layout in ("multi", "multi-ou"):
        inner = list(cnattrs)
        if layout == "multi-ou":
            inner.append(x509.NameAttribute(NameOID.ORGANIZATIONAL_UNIT_NAME, u"unit"))
        rdns = [x509.RelativeDistinguishedName([org])]
        if inner:
            rdns.append(x509.RelativeDistinguishedName(inner))
        name = x509.Name(rdns)
    else:
        raise ValueError("unknown certificate layout %r" % (layout,))
    issuer = name
    if issuer_cn is not None:
        issuer = x509.Name([x509.NameAttribute(NameOID.ORGANIZATION_NAME, u"verif-ca"),
                            x509.NameAttribute(NameOID.COMMON_NAME, issuer_cn)])
    b = (x509.CertificateBuilder().subject_name(name).issuer_name(issuer)
         .public_key(_cert_key.public_key()).serial_number(1000 + len(_cert_cache))
         .not_valid_before(datetime.datetime(2020, 1, 1))
         .not_valid_after(datetime.datetime(2040, 1, 1)))
    if eku is not None:
        ANY = x509.ObjectIdentifier("2.5.29.37.0")       # anyExtendedKeyUsage
        usages = {"server": [ExtendedKeyUsageOID.SERVER_AUTH],
                  "client": [ExtendedKeyUsageOID.CLIENT_AUTH],
                  "both": [ExtendedKeyUsageOID.SERVER_AUTH, ExtendedKeyUsageOID.CLIENT_AUTH],
                  # usages that are not client authentication
                  "any": [ANY], "server+any": [ExtendedKeyUsageOID.SERVER_AUTH, ANY],
                  "other": [ExtendedKeyUsageOID.CODE_SIGNING, ExtendedKeyUsageOID.EMAIL_PROTECTION,
                            ExtendedKeyUsageOID.OCSP_SIGNING, ExtendedKeyUsageOID.TIME_STAMPING],
                  "client+any": [ExtendedKeyUsageOID.CLIENT_AUTH, ANY]}[eku]
        b = b.add_extension(x509.ExtendedKeyUsage(usages), critical=False)
    cert = b.sign(_cert_key, hashes.SHA256())
    der = cert.public_bytes(serialization.Encoding.DER)
    _cert_cache[key] = der
    return der


class FakeConnection(object):
    """Scripted socket: recv follows a chunk schedule; sendall is captured."""

    def __init__(self, data=b"", chunks=None, cert=None):
        self.data = bytes(data)
        self.pos = 0
        self.chunks = list(chunks or [])
        self.ci = 0
        self.sent = []
        self.cert = cert
        self.recv_calls = 0

    def feed(self, data):
        self.data += bytes(data)

    def recv(self, n):
        self.recv_calls += 1
        if self.pos >= len(self.data):
            return b""
        k = n
        if self.chunks:
            k = max(1, min(n, self.chunks[self.ci % len(self.chunks)]))
            self.ci += 1
        out = self.data[self.pos:self.pos + k]
        self.pos += len(out)
        return out

    def sendall(self, b):
        self.sent.append(bytes(b))

    def getpeercert(self, binary_form=False):
        return self.cert

    def fileno(self):
        # a real socket has a descriptor number, and the operating system hands the number of a
        # closed connection to the next one: every scripted connection reports the same number
        return 7

    def cipher(self):
        return ("TLS_FAKE", "TLSv1.2", 256)

    def shared_ciphers(self):
        return None

    def do_handshake(self):
        pass

    def shutdown(self, how):
        pass

    def close(self):
        pass


# ------------------------------------------------------------------------------ server
def builtin_policies():
    import copy
    return copy.deepcopy(cpolicy.policies)


class Server(object):
    def __init__(self, policies=None, template=None, keep=False, db=None):
        engine_capture()
        install_clock()
        if db is not None:
            # use an existing database file in place (e.g. the survivor of a crashed process)
            self.dir = os.path.dirname(db)
            self.db = db
            self.own_dir = False
        else:
            self.dir = tempfile.mkdtemp(prefix="vkmip-", dir=os.environ.get("VERIF_TMP", None))
            self.db = os.path.join(self.dir, "kmip.db")
            self.own_dir = True
            if template:
                shutil.copyfile(template, self.db)
        self.policies = policies if policies is not None else builtin_policies()
        self.engine = None
        self.engines = []
        self.start()

    def start(self):
        self.engine = engine_mod.KmipEngine(policies=self.policies, database_path=self.db)
        self.engines.append(self.engine)
        return self.engine

    def stop(self):
        if self.engine is not None:
            try:
                s = getattr(self.engine, "_data_session", None)
                if s is not None:
                    s.close()
            except Exception:
                pass
            self.engine._data_store.dispose()
            self.engine = None

    def restart(self):
        self.stop()
        return self.start()

    def fresh_engine_on_copy(self):
        """A second Server on a byte copy of the database (the original is left untouched)."""
        self.checkpoint()
        return Server(policies=self.policies, template=self.db)

    def checkpoint(self):
        pass

    def close(self):
        self.stop()
        if self.own_dir:
            shutil.rmtree(self.dir, ignore_errors=True)

    # --- request execution
    def process(self, req_bytes, identity=("alice", None), default_version=(1, 2)):
        """What a session does between receive and send, minus certificate handling:
        decode with the library, call engine.process_request, encode.  Returns
        dict(resp=bytes|None, error=exception|None, stage=...)."""
        cap = engine_capture()
        cap.clear()
        req = messages.RequestMessage()
        try:
            req.read(cutils.BytearrayStream(req_bytes), kmip_version=KV(default_version))
        except Exception as e:
            return {"resp": None, "error": e, "stage": "decode", "internal": []}
        try:
            resp, max_size, pv = self.engine.process_request(req, tuple(identity))
            kv = contents.protocol_version_to_kmip_version(pv)
        except Exception as e:
            return {"resp": None, "error": e, "stage": "request", "internal": internal_errors(cap),
                    "request": req}
        s = cutils.BytearrayStream()
        try:
            resp.write(s, kmip_version=kv)
        except Exception as e:
            return {"resp": None, "error": e, "stage": "encode", "internal": internal_errors(cap),
                    "request": req}
        return {"resp": bytes(s.buffer), "error": None, "stage": "ok", "max": max_size,
                "internal": internal_errors(cap), "version": (pv.major, pv.minor), "request": req}

    def session(self, data, cn="alice", chunks=None, cert="default", tls_client_auth=True,
                auth_settings=None, max_loops=50, conn_hook=None):
        """Run a real KmipSession message loop over `data`; returns (connection, loop_exceptions).
        conn_hook(conn) is called with the scripted connection before the loop starts."""
        if cert == "default":
            cert = make_cert((cn,), "client")
        conn = FakeConnection(data, chunks, cert)
        if conn_hook is not None:
            conn_hook(conn)
        sess = session_mod.KmipSession(self.engine, conn, ("127.0.0.1", 5696), name="verif",
                                       enable_tls_client_auth=tls_client_auth,
                                       auth_settings=auth_settings)
        from kmip.core import exceptions as kexc
        errors = []
        loops = 0
        while loops < max_loops:
            loops += 1
            try:
                sess._handle_message_loop()
            except kexc.ConnectionClosed:
                break
            except Exception as e:  # the real run() logs and continues
                errors.append(e)
                if conn.pos >= len(conn.data):
                    break
        conn.loops = loops
        return conn, errors

    # --- observers
    def raw_dump(self, skip_cols=()):
        """Table dump through stdlib sqlite3 (not through the engine)."""
        con = sqlite3.connect("file:%s?mode=ro" % self.db, uri=True)
        try:
            out = {}
            tabs = [r[0] for r in con.execute(
                "select name from sqlite_master where type='table' order by name")]
            for t in tabs:
                if t == "sqlite_sequence":
                    continue
                cur = con.execute("select * from %s" % t)
                cols = [d[0] for d in cur.description]
                rows = []
                for r in cur.fetchall():
                    rows.append([_plain(x) for x in r])
                rows.sort(key=lambda r: repr(r))
                out[t] = {"cols": cols, "rows": rows}
            return out
        finally:
            con.close()

    def sqlite_sequence(self):
        con = sqlite3.connect("file:%s?mode=ro" % self.db, uri=True)
        try:
            try:
                return dict(con.execute("select name, seq from sqlite_sequence").fetchall())
            except sqlite3.OperationalError:
                return {}
        finally:
            con.close()


def _plain(x):
    if isinstance(x, (bytes, bytearray, memoryview)):
        return bytes(x).hex()
    return x


# ------------------------------------------------------------------------------ enums from names
def en(cls, name):
    if name is None:
        return None
    if isinstance(name, int) and not isinstance(name, bool):
        return cls(name)
    return cls[name]


OP = {
    "Create": enums.Operation.CREATE, "CreateKeyPair": enums.Operation.CREATE_KEY_PAIR,
    "Register": enums.Operation.REGISTER, "DeriveKey": enums.Operation.DERIVE_KEY,
    "Locate": enums.Operation.LOCATE, "Get": enums.Operation.GET,
    "GetAttributes": enums.Operation.GET_ATTRIBUTES,
    "GetAttributeList": enums.Operation.GET_ATTRIBUTE_LIST,
    "Activate": enums.Operation.ACTIVATE, "Revoke": enums.Operation.REVOKE,
    "Destroy": enums.Operation.DESTROY, "Query": enums.Operation.QUERY,
    "DiscoverVersions": enums.Operation.DISCOVER_VERSIONS,
    "Encrypt": enums.Operation.ENCRYPT, "Decrypt": enums.Operation.DECRYPT,
    "Sign": enums.Operation.SIGN, "SignatureVerify": enums.Operation.SIGNATURE_VERIFY,
    "MAC": enums.Operation.MAC, "SetAttribute": enums.Operation.SET_ATTRIBUTE,
    "ModifyAttribute": enums.Operation.MODIFY_ATTRIBUTE,
    "DeleteAttribute": enums.Operation.DELETE_ATTRIBUTE,
    # decodable but unsupported by the server
    "Rekey": enums.Operation.REKEY, "RekeyKeyPair": enums.Operation.REKEY_KEY_PAIR,
    "Check": enums.Operation.CHECK, "GetUsageAllocation": enums.Operation.GET_USAGE_ALLOCATION,
    "ObtainLease": enums.Operation.OBTAIN_LEASE, "Archive": enums.Operation.ARCHIVE,
    "Recover": enums.Operation.RECOVER, "Cancel": enums.Operation.CANCEL,
    "Poll": enums.Operation.POLL,
}
OP_NAME = {v: k for k, v in OP.items()}

OBJECT_TYPES = ["SymmetricKey", "PublicKey", "PrivateKey", "SplitKey", "Certificate",
                "SecretData", "OpaqueData"]
OT = {"SymmetricKey": enums.ObjectType.SYMMETRIC_KEY, "PublicKey": enums.ObjectType.PUBLIC_KEY,
      "PrivateKey": enums.ObjectType.PRIVATE_KEY, "SplitKey": enums.ObjectType.SPLIT_KEY,
      "Certificate": enums.ObjectType.CERTIFICATE, "SecretData": enums.ObjectType.SECRET_DATA,
      "OpaqueData": enums.ObjectType.OPAQUE_DATA, "Template": enums.ObjectType.TEMPLATE,
      "PGPKey": enums.ObjectType.PGP_KEY}
OT_NAME = {v: k for k, v in OT.items()}


def hx(s):
    if s is None:
        return None
    if isinstance(s, (bytes, bytearray)):
        return bytes(s)
    return bytes.fromhex(s)


# ------------------------------------------------------------------------------ attribute specs
def attr_value(name, val):
    """Library attribute value object from a JSON-able value."""
    if name == "Name":
        if isinstance(val, dict):
            return cattr.Name.create(val["v"], en(enums.NameType, val.get("t", "UNINTERPRETED_TEXT_STRING")))
        return cattr.Name.create(val, enums.NameType.UNINTERPRETED_TEXT_STRING)
    if name == "Cryptographic Usage Mask":
        return cattr.CryptographicUsageMask(val)
    if name == "Cryptographic Algorithm":
        return cattr.CryptographicAlgorithm(en(enums.CryptographicAlgorithm, val))
    if name == "Cryptographic Length":
        return cattr.CryptographicLength(val)
    if name == "Object Type":
        return cattr.ObjectType(OT[val] if val in OT else en(enums.ObjectType, val))
    if name == "State":
        return cattr.State(en(enums.State, val))
    if name == "Unique Identifier":
        return cattr.UniqueIdentifier(val)
    if name == "Operation Policy Name":
        return cattr.OperationPolicyName(val)
    if name == "Object Group":
        return primitives.TextString(val, enums.Tags.OBJECT_GROUP)
    if name == "Application Specific Information":
        return cattr.ApplicationSpecificInformation(application_namespace=val["ns"],
                                                    application_data=val["data"])
    if name == "Sensitive":
        return primitives.Boolean(val, enums.Tags.SENSITIVE)
    if name in ("Always Sensitive", "Extractable", "Never Extractable", "Fresh"):
        return primitives.Boolean(val, enums.Tags[name.upper().replace(" ", "_")])
    if name == "Certificate Type":
        return primitives.Enumeration(enums.CertificateType, en(enums.CertificateType, val),
                                      tag=enums.Tags.CERTIFICATE_TYPE)
    if name == "Contact Information":
        return cattr.ContactInformation(val)
    if name == "Cryptographic Parameters":
        return crypto_params(val)
    if name == "Lease Time":
        return primitives.Interval(val, enums.Tags.LEASE_TIME)
    if name == "Certificate Length":
        return primitives.Integer(val, enums.Tags.CERTIFICATE_LENGTH)
    if name.endswith(" Date"):
        tag = enums.Tags[name.upper().replace(" ", "_")]
        return primitives.DateTime(val, tag)
    if name == "Digest":
        return cattr.Digest()
    if name.startswith("x-") or name.startswith("y-"):
        return cattr.CustomAttribute(val)
    raise ValueError("attr_value: unknown attribute %r" % name)


def attribute(spec):
    """spec = [name, value] or [name, value, index]."""
    name, val = spec[0], spec[1]
    idx = spec[2] if len(spec) > 2 else None
    return cobj.Attribute(
        attribute_name=cobj.Attribute.AttributeName(name),
        attribute_index=None if idx is None else cobj.Attribute.AttributeIndex(idx),
        attribute_value=attr_value(name, val))


def template(attr_specs, cls=cobj.TemplateAttribute):
    if attr_specs is None:
        return None
    return cls(attributes=[attribute(a) for a in attr_specs])


def crypto_params(p):
    if p is None:
        return None
    return cattr.CryptographicParameters(
        block_cipher_mode=en(enums.BlockCipherMode, p.get("mode")),
        padding_method=en(enums.PaddingMethod, p.get("pad")),
        hashing_algorithm=en(enums.HashingAlgorithm, p.get("hash")),
        key_role_type=en(enums.KeyRoleType, p.get("role")),
        digital_signature_algorithm=en(enums.DigitalSignatureAlgorithm, p.get("dsa")),
        cryptographic_algorithm=en(enums.CryptographicAlgorithm, p.get("alg")),
        random_iv=p.get("random_iv"), iv_length=p.get("iv_length"),
        tag_length=p.get("tag_length"), fixed_field_length=p.get("fixed_field_length"),
        invocation_field_length=p.get("invocation_field_length"),
        counter_length=p.get("counter_length"),
        initial_counter_value=p.get("initial_counter_value"))


def wrapping_data(w):
    if w is None:
        return None
    eki = w.get("eki")
    mski = w.get("mski")
    return cobj.KeyWrappingData(
        wrapping_method=en(enums.WrappingMethod, w.get("method", "ENCRYPT")),
        encryption_key_information=None if eki is None else cobj.EncryptionKeyInformation(
            unique_identifier=eki.get("uid"), cryptographic_parameters=crypto_params(eki.get("params"))),
        mac_signature_key_information=None if mski is None else cobj.MACSignatureKeyInformation(
            unique_identifier=mski.get("uid"), cryptographic_parameters=crypto_params(mski.get("params"))),
        mac_signature=hx(w.get("mac")), iv_counter_nonce=hx(w.get("iv")),
        encoding_option=en(enums.EncodingOption, w.get("enc")))


def key_block(o):
    return cobj.KeyBlock(
        key_format_type=cmisc_kft(o.get("fmt", "RAW")),
        key_compression_type=None,
        key_value=cobj.KeyValue(cobj.KeyMaterial(hx(o["value"]))),
        cryptographic_algorithm=None if o.get("alg") is None else cattr.CryptographicAlgorithm(
            en(enums.CryptographicAlgorithm, o["alg"])),
        cryptographic_length=None if o.get("len") is None else cattr.CryptographicLength(o["len"]),
        key_wrapping_data=wrapping_data(o.get("wrap")))


def cmisc_kft(name):
    from kmip.core import misc
    return misc.KeyFormatType(en(enums.KeyFormatType, name))


def secret(o):
    """Core managed-object from spec {type, value(hex), alg, len, fmt, ...}."""
    t = o["type"]
    if t == "SymmetricKey":
        return csec.SymmetricKey(key_block(o))
    if t == "PublicKey":
        return csec.PublicKey(key_block(o))
    if t == "PrivateKey":
        return csec.PrivateKey(key_block(o))
    if t == "SplitKey":
        return csec.SplitKey(
            split_key_parts=o.get("parts", 3), key_part_identifier=o.get("part_id", 1),
            split_key_threshold=o.get("threshold", 2),
            split_key_method=en(enums.SplitKeyMethod, o.get("method", "XOR")),
            prime_field_size=o.get("prime"), key_block=key_block(o))
    if t == "Certificate":
        return csec.Certificate(certificate_type=en(enums.CertificateType, o.get("ctype", "X_509")),
                                certificate_value=hx(o["value"]))
    if t == "SecretData":
        oo = dict(o)
        oo.setdefault("fmt", "OPAQUE")
        return csec.SecretData(
            secret_data_type=csec.SecretData.SecretDataType(
                en(enums.SecretDataType, o.get("dtype", "PASSWORD"))),
            key_block=key_block(oo))
    if t == "OpaqueData":
        return csec.OpaqueObject(
            opaque_data_type=csec.OpaqueObject.OpaqueDataType(
                en(enums.OpaqueDataType, o.get("otype", "NONE"))),
            opaque_data_value=csec.OpaqueObject.OpaqueDataValue(hx(o["value"])))
    raise ValueError("secret: unknown type %r" % t)


# ------------------------------------------------------------------------------ payloads
def _uid_attr(u):
    return None if u is None else cattr.UniqueIdentifier(u)


def build_payload(it, v):
    """(Operation, RequestPayload) from an item spec under version v (tuple)."""
    op = it["op"]
    P = payloads
    u = it.get("uid")
    if op == "Create":
        return OP[op], P.CreateRequestPayload(object_type=OT[it.get("otype", "SymmetricKey")],
                                              template_attribute=template(it.get("attrs", [])))
    if op == "CreateKeyPair":
        return OP[op], P.CreateKeyPairRequestPayload(
            common_template_attribute=template(it.get("common"), cobj.CommonTemplateAttribute
                                               ) if False else _cta(it.get("common")),
            private_key_template_attribute=_pta(it.get("private")),
            public_key_template_attribute=_puta(it.get("public")))
    if op == "Register":
        o = it["obj"]
        return OP[op], P.RegisterRequestPayload(object_type=OT[it.get("otype", o["type"])],
                                                template_attribute=template(it.get("attrs", [])),
                                                managed_object=secret(o))
    if op == "DeriveKey":
        dp = it.get("dp", {})
        return OP[op], P.DeriveKeyRequestPayload(
            object_type=OT[it.get("otype", "SymmetricKey")],
            unique_identifiers=it.get("uids", []),
            derivation_method=en(enums.DerivationMethod, it.get("method", "HASH")),
            derivation_parameters=cattr.DerivationParameters(
                cryptographic_parameters=crypto_params(dp.get("params", {})),
                initialization_vector=hx(dp.get("iv")), derivation_data=hx(dp.get("data")),
                salt=hx(dp.get("salt")), iteration_count=dp.get("iter")),
            template_attribute=template(it.get("attrs", [])))
    if op == "Locate":
        return OP[op], P.LocateRequestPayload(
            maximum_items=it.get("max"), offset_items=it.get("offset"),
            storage_status_mask=it.get("ssm"),
            object_group_member=en(enums.ObjectGroupMember, it.get("ogm")),
            attributes=[attribute(a) for a in it.get("attrs", [])])
    if op == "Get":
        kws = it.get("wrap")
        spec = None
        if kws is not None:
            eki = kws.get("eki")
            mski = kws.get("mski")
            spec = cobj.KeyWrappingSpecification(
                wrapping_method=en(enums.WrappingMethod, kws.get("method", "ENCRYPT")),
                encryption_key_information=None if eki is None else cobj.EncryptionKeyInformation(
                    unique_identifier=eki.get("uid"),
                    cryptographic_parameters=crypto_params(eki.get("params"))),
                mac_signature_key_information=None if mski is None else
                cobj.MACSignatureKeyInformation(
                    unique_identifier=mski.get("uid"),
                    cryptographic_parameters=crypto_params(mski.get("params"))),
                attribute_names=kws.get("attr_names"),
                encoding_option=en(enums.EncodingOption, kws.get("enc")))
        return OP[op], P.GetRequestPayload(
            unique_identifier=u, key_format_type=en(enums.KeyFormatType, it.get("fmt")),
            key_compression_type=en(enums.KeyCompressionType, it.get("comp")),
            key_wrapping_specification=spec)
    if op == "GetAttributes":
        return OP[op], P.GetAttributesRequestPayload(unique_identifier=u,
                                                     attribute_names=it.get("names"))
    if op == "GetAttributeList":
        return OP[op], P.GetAttributeListRequestPayload(unique_identifier=u)
    if op == "Activate":
        return OP[op], P.ActivateRequestPayload(unique_identifier=_uid_attr(u))
    if op == "Revoke":
        return OP[op], P.RevokeRequestPayload(
            unique_identifier=_uid_attr(u),
            revocation_reason=cobj.RevocationReason(
                code=en(enums.RevocationReasonCode, it.get("code", "UNSPECIFIED")),
                message=it.get("msg")),
            compromise_occurrence_date=None if it.get("cdate") is None else primitives.DateTime(
                it["cdate"], enums.Tags.COMPROMISE_OCCURRENCE_DATE))
    if op == "Destroy":
        return OP[op], P.DestroyRequestPayload(unique_identifier=_uid_attr(u))
    if op == "Query":
        return OP[op], P.QueryRequestPayload(
            query_functions=[en(enums.QueryFunction, q) for q in it.get("functions", ["QUERY_OPERATIONS"])])
    if op == "DiscoverVersions":
        return OP[op], P.DiscoverVersionsRequestPayload(
            protocol_versions=[contents.ProtocolVersion(a, b) for a, b in it.get("versions", [])])
    if op == "Encrypt":
        return OP[op], P.EncryptRequestPayload(
            unique_identifier=u, cryptographic_parameters=crypto_params(it.get("params")),
            data=hx(it.get("data", "")), iv_counter_nonce=hx(it.get("iv")),
            auth_additional_data=hx(it.get("aad")))
    if op == "Decrypt":
        return OP[op], P.DecryptRequestPayload(
            unique_identifier=u, cryptographic_parameters=crypto_params(it.get("params")),
            data=hx(it.get("data", "")), iv_counter_nonce=hx(it.get("iv")),
            auth_additional_data=hx(it.get("aad")), auth_tag=hx(it.get("tag")))
    if op == "Sign":
        return OP[op], P.SignRequestPayload(
            unique_identifier=u, cryptographic_parameters=crypto_params(it.get("params")),
            data=hx(it.get("data", "")))
    if op == "SignatureVerify":
        kw = {}
        if it.get("digested") is not None:
            kw["digested_data"] = hx(it["digested"])
        for k_, f_ in (("corr", "correlation_value"), ("init", "init_indicator"), ("final", "final_indicator")):
            if it.get(k_) is not None:
                kw[f_] = hx(it[k_]) if k_ == "corr" else it[k_]
        return OP[op], P.SignatureVerifyRequestPayload(
            unique_identifier=u, cryptographic_parameters=crypto_params(it.get("params")),
            data=None if it.get("data", "") is None else hx(it.get("data", "")),
            signature_data=None if it.get("sig", "") is None else hx(it.get("sig", "")), **kw)
    if op == "MAC":
        return OP[op], P.MACRequestPayload(
            unique_identifier=_uid_attr(u), cryptographic_parameters=crypto_params(it.get("params")),
            data=None if it.get("data") is None else cobj.Data(hx(it["data"])))
    if op == "SetAttribute":
        return OP[op], P.SetAttributeRequestPayload(
            unique_identifier=u,
            new_attribute=cobj.NewAttribute(attribute=attr_value(it["new"][0], it["new"][1])))
    if op == "ModifyAttribute":
        if tuple(v) >= (2, 0):
            cur = it.get("cur")
            return OP[op], P.ModifyAttributeRequestPayload(
                unique_identifier=u,
                current_attribute=None if cur is None else cobj.CurrentAttribute(
                    attribute=attr_value(cur[0], cur[1])),
                new_attribute=cobj.NewAttribute(attribute=attr_value(it["new"][0], it["new"][1])))
        return OP[op], P.ModifyAttributeRequestPayload(unique_identifier=u,
                                                       attribute=attribute(it["attr"]))
    if op == "DeleteAttribute":
        if tuple(v) >= (2, 0):
            cur = it.get("cur")
            ref = it.get("ref")
            return OP[op], P.DeleteAttributeRequestPayload(
                unique_identifier=u,
                current_attribute=None if cur is None else cobj.CurrentAttribute(
                    attribute=attr_value(cur[0], cur[1])),
                attribute_reference=None if ref is None else cobj.AttributeReference(
                    vendor_identification=ref.get("vendor", "x"), attribute_name=ref["name"]))
        return OP[op], P.DeleteAttributeRequestPayload(
            unique_identifier=u, attribute_name=it.get("name"), attribute_index=it.get("index"))
    # operations the server does not implement (decodable)
    if op == "Rekey":
        return OP[op], P.RekeyRequestPayload(unique_identifier=u)
    if op == "RekeyKeyPair":
        return OP[op], P.RekeyKeyPairRequestPayload(
            private_key_uuid=None if u is None else cattr.PrivateKeyUniqueIdentifier(u))
    if op == "Check":
        return OP[op], P.CheckRequestPayload(unique_identifier=u)
    if op == "GetUsageAllocation":
        return OP[op], P.GetUsageAllocationRequestPayload(unique_identifier=u, usage_limits_count=1)
    if op == "ObtainLease":
        return OP[op], P.ObtainLeaseRequestPayload(unique_identifier=u)
    if op == "Archive":
        return OP[op], P.ArchiveRequestPayload(unique_identifier=u)
    if op == "Recover":
        return OP[op], P.RecoverRequestPayload(unique_identifier=u)
    if op == "Cancel":
        return OP[op], P.CancelRequestPayload(asynchronous_correlation_value=b"\x01\x02")
    if op == "Poll":
        return OP[op], P.PollRequestPayload(asynchronous_correlation_value=b"\x01\x02")
    raise ValueError("build_payload: unknown op %r" % op)


def _cta(a):
    return None if a is None else cobj.CommonTemplateAttribute(attributes=[attribute(x) for x in a])


def _pta(a):
    return None if a is None else cobj.PrivateKeyTemplateAttribute(attributes=[attribute(x) for x in a])


def _puta(a):
    return None if a is None else cobj.PublicKeyTemplateAttribute(attributes=[attribute(x) for x in a])


def build_request(spec):
    """RequestMessage object from spec {v:[ma,mi], items:[...], max?, async?, cont?, order?, ts?,
    cred?, count?}.  items[i].bid = hex batch id or None; if 'bid' is missing and there are
    several items, ids 01,02,.. are assigned."""
    v = tuple(spec.get("v", (1, 2)))
    items = []
    n = len(spec["items"])
    for i, it in enumerate(spec["items"]):
        op, payload = build_payload(it, v)
        if "bid" in it:
            bid = it["bid"]
        else:
            bid = ("%02x" % (i + 1)) if n > 1 else None
        items.append(messages.RequestBatchItem(
            operation=primitives.Enumeration(enums.Operation, op, enums.Tags.OPERATION),
            unique_batch_item_id=None if bid is None else contents.UniqueBatchItemID(hx(bid)),
            request_payload=payload))
    auth = None
    if spec.get("cred") is not None:
        creds = []
        for c in spec["cred"]:
            if c.get("kind", "user") == "user":
                creds.append(cobj.Credential(
                    credential_type=enums.CredentialType.USERNAME_AND_PASSWORD,
                    credential_value=cobj.UsernamePasswordCredential(
                        username=c.get("user", "u"), password=c.get("password"))))
            else:
                creds.append(cobj.Credential(
                    credential_type=enums.CredentialType.DEVICE,
                    credential_value=cobj.DeviceCredential(
                        device_serial_number=c.get("serial"), password=c.get("password"),
                        device_identifier=c.get("device"), network_identifier=c.get("network"),
                        machine_identifier=c.get("machine"), media_identifier=c.get("media"))))
        auth = contents.Authentication(creds)
    hdr = messages.RequestHeader(
        protocol_version=contents.ProtocolVersion(v[0], v[1]),
        maximum_response_size=None if spec.get("max") is None else contents.MaximumResponseSize(spec["max"]),
        asynchronous_indicator=None if spec.get("async") is None else contents.AsynchronousIndicator(spec["async"]),
        authentication=auth,
        batch_error_cont_option=None if spec.get("cont") is None else contents.BatchErrorContinuationOption(
            en(enums.BatchErrorContinuationOption, spec["cont"])),
        batch_order_option=None if spec.get("order") is None else contents.BatchOrderOption(spec["order"]),
        time_stamp=None if spec.get("ts") is None else contents.TimeStamp(spec["ts"]),
        batch_count=contents.BatchCount(spec.get("count", n)))
    return messages.RequestMessage(request_header=hdr, batch_items=items)


def encode_request(spec):
    req = build_request(spec)
    s = cutils.BytearrayStream()
    v = tuple(spec.get("v", (1, 2)))
    kv = KV(v) if v in VERSIONS else enums.KMIPVersion.KMIP_1_2
    req.write(s, kmip_version=kv)
    return bytes(s.buffer)


# ------------------------------------------------------------------------------ responses
def decode_response(data, v):
    m = messages.ResponseMessage()
    m.read(cutils.BytearrayStream(data), kmip_version=KV(v))
    return m


def attr_plain(a):
    """JSON-able (name, index, value) of a core Attribute."""
    name = a.attribute_name.value
    idx = None if a.attribute_index is None else a.attribute_index.value
    return [name, idx, value_plain(a.attribute_value)]


def value_plain(v):
    if v is None:
        return None
    if isinstance(v, cattr.Name):
        return {"v": v.name_value.value, "t": v.name_type.value.name}
    if isinstance(v, cattr.ApplicationSpecificInformation):
        return {"ns": v.application_namespace, "data": v.application_data}
    if isinstance(v, cattr.CryptographicParameters):
        return "CryptographicParameters"
    x = getattr(v, "value", v)
    if hasattr(x, "name") and hasattr(x, "value") and not isinstance(x, (int, str, bytes)):
        return x.name
    if isinstance(x, (bytes, bytearray)):
        return bytes(x).hex()
    return x


def _kwd_plain(w):
    if w is None:
        return None
    def info(i):
        if i is None:
            return None
        p = i.cryptographic_parameters
        return {"uid": i.unique_identifier,
                "params": None if p is None else params_plain(p)}
    return {"method": None if w.wrapping_method is None else w.wrapping_method.name,
            "eki": info(w.encryption_key_information),
            "mski": info(w.mac_signature_key_information),
            "mac": None if w.mac_signature is None else bytes(w.mac_signature).hex(),
            "iv": None if w.iv_counter_nonce is None else bytes(w.iv_counter_nonce).hex(),
            "enc": None if w.encoding_option is None else w.encoding_option.name}


def params_plain(p):
    def n(e):
        return None if e is None else e.name
    d = {"mode": n(p.block_cipher_mode), "pad": n(p.padding_method), "hash": n(p.hashing_algorithm),
         "role": n(p.key_role_type), "dsa": n(p.digital_signature_algorithm),
         "alg": n(p.cryptographic_algorithm), "random_iv": p.random_iv, "iv_length": p.iv_length,
         "tag_length": p.tag_length, "fixed_field_length": p.fixed_field_length,
         "invocation_field_length": p.invocation_field_length, "counter_length": p.counter_length,
         "initial_counter_value": p.initial_counter_value}
    return {k: v for k, v in d.items() if v is not None}


def secret_plain(s):
    """JSON-able rendering of a core secret object as returned by Get."""
    def kb(k):
        km = k.key_value.key_material if k.key_value is not None else None
        val = getattr(km, "value", km)
        return {"fmt": k.key_format_type.value.name if k.key_format_type else None,
                "value": None if val is None else bytes(val).hex() if isinstance(val, (bytes, bytearray)) else repr(val),
                "alg": None if k.cryptographic_algorithm is None else k.cryptographic_algorithm.value.name,
                "len": None if k.cryptographic_length is None else k.cryptographic_length.value,
                "wrap": _kwd_plain(k.key_wrapping_data)}
    if isinstance(s, csec.SplitKey):
        d = kb(s.key_block)
        d.update(type="SplitKey", parts=s.split_key_parts, part_id=s.key_part_identifier,
                 threshold=s.split_key_threshold,
                 method=None if s.split_key_method is None else s.split_key_method.name,
                 prime=s.prime_field_size)
        return d
    if isinstance(s, csec.SymmetricKey):
        d = kb(s.key_block); d["type"] = "SymmetricKey"; return d
    if isinstance(s, csec.PublicKey):
        d = kb(s.key_block); d["type"] = "PublicKey"; return d
    if isinstance(s, csec.PrivateKey):
        d = kb(s.key_block); d["type"] = "PrivateKey"; return d
    if isinstance(s, csec.SecretData):
        d = kb(s.key_block); d["type"] = "SecretData"
        d["dtype"] = s.secret_data_type.value.name
        return d
    if isinstance(s, csec.Certificate):
        return {"type": "Certificate", "ctype": s.certificate_type.value.name,
                "value": bytes(s.certificate_value.value).hex()}
    if isinstance(s, csec.OpaqueObject):
        return {"type": "OpaqueData", "otype": s.opaque_data_type.value.name,
                "value": bytes(s.opaque_data_value.value).hex()}
    return {"type": type(s).__name__}


def payload_plain(op, p):
    """JSON-able summary of a response payload (decoded by the library)."""
    if p is None:
        return None
    P = payloads
    g = lambda x: getattr(x, "value", x)
    if isinstance(p, P.CreateResponsePayload):
        return {"uid": p.unique_identifier, "otype": OT_NAME.get(p.object_type)}
    if isinstance(p, P.CreateKeyPairResponsePayload):
        return {"priv": p.private_key_unique_identifier, "pub": p.public_key_unique_identifier}
    if isinstance(p, (P.RegisterResponsePayload, P.DeriveKeyResponsePayload)):
        return {"uid": p.unique_identifier}
    if isinstance(p, P.LocateResponsePayload):
        return {"uids": list(p.unique_identifiers)}
    if isinstance(p, P.GetResponsePayload):
        return {"uid": p.unique_identifier, "otype": OT_NAME.get(p.object_type),
                "secret": secret_plain(p.secret)}
    if isinstance(p, P.GetAttributesResponsePayload):
        return {"uid": p.unique_identifier, "attrs": [attr_plain(a) for a in p.attributes]}
    if isinstance(p, P.GetAttributeListResponsePayload):
        return {"uid": p.unique_identifier, "names": list(p.attribute_names)}
    if isinstance(p, (P.ActivateResponsePayload, P.RevokeResponsePayload, P.DestroyResponsePayload)):
        return {"uid": g(p.unique_identifier)}
    if isinstance(p, P.QueryResponsePayload):
        return {"operations": [o.name for o in (p.operations or [])],
                "vendor": p.vendor_identification}
    if isinstance(p, P.DiscoverVersionsResponsePayload):
        return {"versions": [[x.major, x.minor] for x in p.protocol_versions]}
    if isinstance(p, P.EncryptResponsePayload):
        return {"uid": p.unique_identifier, "data": _h(p.data), "iv": _h(p.iv_counter_nonce),
                "tag": _h(p.auth_tag)}
    if isinstance(p, P.DecryptResponsePayload):
        return {"uid": p.unique_identifier, "data": _h(p.data)}
    if isinstance(p, P.SignResponsePayload):
        return {"uid": p.unique_identifier, "sig": _h(p.signature_data)}
    if isinstance(p, P.SignatureVerifyResponsePayload):
        return {"uid": p.unique_identifier,
                "valid": None if p.validity_indicator is None else p.validity_indicator.name}
    if isinstance(p, P.MACResponsePayload):
        return {"uid": g(p.unique_identifier), "mac": _h(g(p.mac_data))}
    if isinstance(p, P.SetAttributeResponsePayload):
        return {"uid": p.unique_identifier}
    if isinstance(p, (P.ModifyAttributeResponsePayload, P.DeleteAttributeResponsePayload)):
        return {"uid": p.unique_identifier,
                "attr": None if p.attribute is None else attr_plain(p.attribute)}
    return {"class": type(p).__name__}


def _h(b):
    return None if b is None else bytes(b).hex()


def response_plain(data, v):
    """[{op, bid, status, reason, message, payload}] using the library decoder; when the library
    cannot decode the server's response (a codec defect, judged by C01/C19) fall back to the
    independent parser: payload is then None and 'undecodable' is set."""
    try:
        m = decode_response(data, v)
    except Exception as e:
        out = []
        for it in ttlvref.response_items(data):
            def nm(cls, val):
                try:
                    return None if val is None else cls(val).name
                except ValueError:
                    return "UNKNOWN_%s" % val
            op = nm(enums.Operation, it["operation"])
            out.append({"op": OP_NAME.get(enums.Operation(it["operation"]), op) if it["operation"] is not None and op and not op.startswith("UNKNOWN") else op,
                        "bid": None if it["batch_id"] is None else bytes(it["batch_id"]).hex(),
                        "status": nm(enums.ResultStatus, it["status"]),
                        "reason": nm(enums.ResultReason, it["reason"]),
                        "message": it["message"], "payload": None,
                        "undecodable": "%s: %s" % (type(e).__name__, e)})
        return out
    out = []
    for bi in m.batch_items:
        op = None if bi.operation is None else bi.operation.value
        out.append({
            "op": OP_NAME.get(op, None if op is None else op.name),
            "bid": None if bi.unique_batch_item_id is None else bytes(bi.unique_batch_item_id.value).hex(),
            "status": bi.result_status.value.name,
            "reason": None if bi.result_reason is None else bi.result_reason.value.name,
            "message": None if bi.result_message is None else bi.result_message.value,
            "payload": payload_plain(op, bi.response_payload)})
    return out


# ------------------------------------------------------------------------------ one-call helper
class Client(object):
    """Convenience driver: issue item specs as an identity under a version; returns plain results.
    Every response passes through the envelope invariant; problems are appended to .envelope."""
    undecodable_responses = 0       # responses the library could not decode (process-wide count)

    def __init__(self, server, user="alice", groups=None, v=(1, 2)):
        self.server = server
        self.user = user
        self.groups = groups
        self.v = tuple(v)
        self.envelope = []      # envelope problems seen
        self.internal = []      # internal exceptions seen (General Failure evidence)

    def request(self, items, tick=True, **hdr):
        spec = dict(hdr)
        spec["v"] = list(hdr.get("v", self.v))
        spec["items"] = items
        data = encode_request(spec)
        if tick:
            CLOCK.tick()
        r = self.server.process(data, (self.user, self.groups))
        r["spec"] = spec
        if r["internal"]:
            self.internal.extend(r["internal"])
        if r["resp"] is not None:
            probs = ttlvref.check_response_envelope(r["resp"], tuple(spec["v"]))
            if probs:
                self.envelope.append((spec, probs))
            try:
                r["items"] = response_plain(r["resp"], tuple(spec["v"]))
            except Exception as e:
                # the server sent something its own library cannot decode: not a harness problem
                r["items"] = None
                r["error"] = e
                r["stage"] = "response-undecodable"
        else:
            r["items"] = None
        return r

    def one(self, item, **hdr):
        r = self.request([item], **hdr)
        if r["items"] is None:
            if r.get("stage") == "response-undecodable":
                Client.undecodable_responses += 1
            return {"status": "REQUEST_ERROR", "reason": type(r["error"]).__name__,
                    "message": str(r["error"]), "payload": None, "op": item["op"], "bid": None}
        return r["items"][0]


def all_mask():
    m = 0
    for e in enums.CryptographicUsageMask:
        m |= e.value
    return m


MASK = {e.name: e.value for e in enums.CryptographicUsageMask}
