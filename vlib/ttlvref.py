"""Independent TTLV reference (KMIP spec section 9.1).  No import of kmip.

parse(bytes) -> list of nodes; node = dict(tag=int, type=int, length=int, value=..., children=[...])
encode_* -> reference encodings of the ten primitive item types.
"""
import struct

STRUCTURE, INTEGER, LONG_INTEGER, BIG_INTEGER, ENUMERATION, BOOLEAN, TEXT_STRING, \
    BYTE_STRING, DATE_TIME, INTERVAL = range(1, 11)
DATE_TIME_EXTENDED = 11  # KMIP 2.0

# Tag numbers (KMIP specification, Tag table) used by the envelope checker
T_BATCH_COUNT = 0x42000D
T_BATCH_ITEM = 0x42000F
T_OPERATION = 0x42005C
T_PROTOCOL_VERSION = 0x420069
T_PROTOCOL_VERSION_MAJOR = 0x42006A
T_PROTOCOL_VERSION_MINOR = 0x42006B
T_REQUEST_HEADER = 0x420077
T_REQUEST_MESSAGE = 0x420078
T_REQUEST_PAYLOAD = 0x420079
T_RESPONSE_HEADER = 0x42007A
T_RESPONSE_MESSAGE = 0x42007B
T_RESPONSE_PAYLOAD = 0x42007C
T_RESULT_MESSAGE = 0x42007D
T_RESULT_REASON = 0x42007E
T_RESULT_STATUS = 0x42007F
T_TIME_STAMP = 0x420092
T_UNIQUE_BATCH_ITEM_ID = 0x420093
T_UNIQUE_IDENTIFIER = 0x420094
T_MAXIMUM_RESPONSE_SIZE = 0x420050
T_ASYNC_CORRELATION = 0x420006

STATUS_SUCCESS = 0
REASON_GENERAL_FAILURE = 0x100


class TTLVError(Exception):
    pass


def parse(data, strict=True, max_depth=64):
    data = bytes(data)
    nodes, off = _parse_seq(data, 0, len(data), strict, 0, max_depth)
    if off != len(data):
        raise TTLVError("trailing bytes at %d" % off)
    return nodes


def parse_one(data, strict=True):
    nodes = parse(data, strict)
    if len(nodes) != 1:
        raise TTLVError("expected exactly one top-level item, got %d" % len(nodes))
    return nodes[0]


def _parse_seq(data, off, end, strict, depth, max_depth):
    nodes = []
    while off < end:
        node, off = _parse_item(data, off, end, strict, depth, max_depth)
        nodes.append(node)
    return nodes, off


def _parse_item(data, off, end, strict, depth, max_depth):
    if end - off < 8:
        raise TTLVError("truncated item header at %d" % off)
    tag = int.from_bytes(data[off:off + 3], "big")
    typ = data[off + 3]
    length = int.from_bytes(data[off + 4:off + 8], "big")
    off += 8
    if strict:
        hi = tag >> 16
        if hi not in (0x42, 0x54):
            raise TTLVError("tag 0x%06x outside 42xxxx/54xxxx" % tag)
    if typ < 1 or typ > 11:
        raise TTLVError("bad item type %d for tag 0x%06x" % (typ, tag))
    padded = (length + 7) // 8 * 8
    if typ in (INTEGER, ENUMERATION, INTERVAL):
        if length != 4:
            raise TTLVError("type %d must have length 4, got %d (tag 0x%06x)" % (typ, length, tag))
    elif typ in (LONG_INTEGER, BOOLEAN, DATE_TIME, DATE_TIME_EXTENDED):
        if length != 8:
            raise TTLVError("type %d must have length 8, got %d (tag 0x%06x)" % (typ, length, tag))
    elif typ == BIG_INTEGER:
        if length % 8 != 0 or length == 0:
            raise TTLVError("big integer length %d not a positive multiple of 8" % length)
    if off + padded > end:
        raise TTLVError("item 0x%06x value (len %d) exceeds enclosing length" % (tag, length))
    raw = data[off:off + length]
    pad = data[off + length:off + padded]
    if any(pad):
        raise TTLVError("non-zero padding in item 0x%06x" % tag)
    node = {"tag": tag, "type": typ, "length": length}
    if typ == STRUCTURE:
        if length % 8 != 0:
            raise TTLVError("structure 0x%06x length %d not multiple of 8" % (tag, length))
        if depth >= max_depth:
            raise TTLVError("nesting too deep")
        children, o2 = _parse_seq(data, off, off + length, strict, depth + 1, max_depth)
        if o2 != off + length:
            raise TTLVError("structure 0x%06x children do not fill its length" % tag)
        node["children"] = children
    elif typ == INTEGER:
        node["value"] = struct.unpack("!i", raw)[0]
    elif typ == LONG_INTEGER:
        node["value"] = struct.unpack("!q", raw)[0]
    elif typ == BIG_INTEGER:
        node["value"] = int.from_bytes(raw, "big", signed=True)
    elif typ == ENUMERATION:
        node["value"] = struct.unpack("!I", raw)[0]
    elif typ == BOOLEAN:
        v = struct.unpack("!Q", raw)[0]
        if v not in (0, 1):
            raise TTLVError("boolean 0x%06x value %d" % (tag, v))
        node["value"] = bool(v)
    elif typ == TEXT_STRING:
        try:
            node["value"] = raw.decode("utf-8")
        except UnicodeDecodeError as e:
            raise TTLVError("text string 0x%06x not UTF-8: %s" % (tag, e))
    elif typ == BYTE_STRING:
        node["value"] = raw
    elif typ in (DATE_TIME, DATE_TIME_EXTENDED):
        node["value"] = struct.unpack("!q", raw)[0]
    elif typ == INTERVAL:
        node["value"] = struct.unpack("!I", raw)[0]
    return node, off + padded


# ---------------------------------------------------------------- reference encoders
def _hdr(tag, typ, length):
    return tag.to_bytes(3, "big") + bytes([typ]) + length.to_bytes(4, "big")


def _pad(b):
    return b + b"\x00" * (-len(b) % 8)


def encode_integer(tag, v):
    return _hdr(tag, INTEGER, 4) + struct.pack("!i", v) + b"\x00" * 4


def encode_long(tag, v):
    return _hdr(tag, LONG_INTEGER, 8) + struct.pack("!q", v)


def encode_big(tag, v):
    # minimal multiple-of-8 two's complement
    n = 8
    while True:
        try:
            b = v.to_bytes(n, "big", signed=True)
            break
        except OverflowError:
            n += 8
    return _hdr(tag, BIG_INTEGER, n) + b


def encode_enum(tag, v):
    return _hdr(tag, ENUMERATION, 4) + struct.pack("!I", v) + b"\x00" * 4


def encode_bool(tag, v):
    return _hdr(tag, BOOLEAN, 8) + struct.pack("!Q", 1 if v else 0)


def encode_text(tag, s):
    b = s.encode("utf-8")
    return _hdr(tag, TEXT_STRING, len(b)) + _pad(b)


def encode_bytes(tag, b):
    b = bytes(b)
    return _hdr(tag, BYTE_STRING, len(b)) + _pad(b)


def encode_datetime(tag, v):
    return _hdr(tag, DATE_TIME, 8) + struct.pack("!q", v)


def encode_interval(tag, v):
    return _hdr(tag, INTERVAL, 4) + struct.pack("!I", v) + b"\x00" * 4


def encode_struct(tag, children_bytes):
    body = b"".join(children_bytes)
    return _hdr(tag, STRUCTURE, len(body)) + body


def encode_node(node):
    t = node["type"]
    tag = node["tag"]
    if t == STRUCTURE:
        return encode_struct(tag, [encode_node(c) for c in node["children"]])
    v = node["value"]
    return {INTEGER: encode_integer, LONG_INTEGER: encode_long, BIG_INTEGER: encode_big,
            ENUMERATION: encode_enum, BOOLEAN: encode_bool, TEXT_STRING: encode_text,
            BYTE_STRING: encode_bytes, DATE_TIME: encode_datetime,
            INTERVAL: encode_interval}[t](tag, v)


# ---------------------------------------------------------------- helpers on parsed trees
def child(node, tag):
    for c in node.get("children", []):
        if c["tag"] == tag:
            return c
    return None


def children(node, tag):
    return [c for c in node.get("children", []) if c["tag"] == tag]


def all_tags(node, acc=None):
    if acc is None:
        acc = set()
    acc.add(node["tag"])
    for c in node.get("children", []):
        all_tags(c, acc)
    return acc


def to_plain(node):
    """JSON-able rendering of a parsed tree (bytes -> hex)."""
    d = {"tag": "%06x" % node["tag"], "type": node["type"]}
    if "children" in node:
        d["children"] = [to_plain(c) for c in node["children"]]
    else:
        v = node["value"]
        d["value"] = v.hex() if isinstance(v, (bytes, bytearray)) else v
    return d


def check_response_envelope(data, request_version=None):
    """Return list of problems (strings) with a server response; [] if it follows the envelope.
    request_version: (major, minor) the response header must carry, or None if unconstrained."""
    probs = []
    try:
        msg = parse_one(data)
    except TTLVError as e:
        return ["not well-formed TTLV: %s" % e]
    if msg["tag"] != T_RESPONSE_MESSAGE or msg["type"] != STRUCTURE:
        return ["top-level item is not a ResponseMessage structure"]
    kids = msg["children"]
    if not kids or kids[0]["tag"] != T_RESPONSE_HEADER:
        return ["first child is not ResponseHeader"]
    hdr = kids[0]
    pv = child(hdr, T_PROTOCOL_VERSION)
    if pv is None:
        probs.append("header has no ProtocolVersion")
    else:
        ma, mi = child(pv, T_PROTOCOL_VERSION_MAJOR), child(pv, T_PROTOCOL_VERSION_MINOR)
        if ma is None or mi is None:
            probs.append("ProtocolVersion incomplete")
        elif request_version is not None and (ma["value"], mi["value"]) != tuple(request_version):
            probs.append("header version %d.%d differs from request version %d.%d"
                         % (ma["value"], mi["value"], request_version[0], request_version[1]))
    ts = child(hdr, T_TIME_STAMP)
    if ts is None or ts["type"] != DATE_TIME:
        probs.append("header has no TimeStamp")
    bc = child(hdr, T_BATCH_COUNT)
    items = [k for k in kids[1:]]
    for k in items:
        if k["tag"] != T_BATCH_ITEM:
            probs.append("unexpected item 0x%06x after header" % k["tag"])
    items = [k for k in items if k["tag"] == T_BATCH_ITEM]
    if bc is None or bc["type"] != INTEGER:
        probs.append("header has no BatchCount")
    elif bc["value"] != len(items):
        probs.append("BatchCount %d != %d batch items" % (bc["value"], len(items)))
    if not items:
        probs.append("response has no batch item")
    for i, it in enumerate(items):
        st = child(it, T_RESULT_STATUS)
        rr = child(it, T_RESULT_REASON)
        rm = child(it, T_RESULT_MESSAGE)
        if st is None:
            probs.append("item %d has no ResultStatus" % i)
            continue
        if st["value"] == STATUS_SUCCESS:
            if rr is not None:
                probs.append("item %d: success with ResultReason" % i)
            if rm is not None:
                probs.append("item %d: success with ResultMessage" % i)
        else:
            if rr is None:
                probs.append("item %d: failure without ResultReason" % i)
            if rm is None:
                probs.append("item %d: failure without ResultMessage" % i)
    return probs


def response_items(data):
    """[(operation|None, batch_id|None, status, reason|None, message|None, payload_node|None)]"""
    msg = parse_one(data)
    out = []
    for it in children(msg, T_BATCH_ITEM):
        g = lambda t: (child(it, t) or {}).get("value")
        out.append({"operation": g(T_OPERATION), "batch_id": g(T_UNIQUE_BATCH_ITEM_ID),
                    "status": g(T_RESULT_STATUS), "reason": g(T_RESULT_REASON),
                    "message": g(T_RESULT_MESSAGE), "payload": child(it, T_RESPONSE_PAYLOAD)})
    return out


def response_version(data):
    msg = parse_one(data)
    pv = child(msg["children"][0], T_PROTOCOL_VERSION)
    return (child(pv, T_PROTOCOL_VERSION_MAJOR)["value"], child(pv, T_PROTOCOL_VERSION_MINOR)["value"])
