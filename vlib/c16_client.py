"""C16 part d3: requests emitted by the client library API (ProxyKmipClient / KMIPProxy methods)
under each KMIP version, answered by the real server (session loop) in-process.  Both directions
are scanned for tags of later versions by the caller-supplied tag check."""
from vlib import c19_wire as W
from vlib import fixtures as F
from vlib import harness as H
from vlib import store
from vlib import ttlvref as R
from vlib import c16_tables as S

CALLS = ["create", "create+policy", "create_key_pair", "register", "register+sensitive",
         "register+wrapped", "locate", "locate+paging", "locate+group-member", "get", "get+wrap",
         "get_attributes", "get_attributes+names", "get_attribute_list", "activate", "revoke",
         "destroy", "encrypt", "encrypt+gcm", "decrypt", "sign", "signature_verify", "mac",
         "derive_key", "rekey", "check", "modify_attribute", "delete_attribute", "set_attribute",
         "query", "discover_versions", "discover_versions+list"]
# arguments that name a feature of a later version explicitly: (call -> first version of the
# feature); emitting it under an earlier version is then the caller's own over-specification and
# is reported under a separate class
EXPLICIT_LATER = {"locate+paging": S.V13, "locate+group-member": S.V11, "encrypt+gcm": S.V14,
                  "register+sensitive": S.V14, "get+wrap": S.V11, "register+wrapped": S.V11,
                  "set_attribute": S.V20, "encrypt": S.V12, "decrypt": S.V12, "sign": S.V12,
                  "signature_verify": S.V12, "mac": S.V12, "discover_versions": S.V11,
                  "discover_versions+list": S.V11}


def cases():
    return [{"part": "d3", "v": list(v), "call": c} for v in S.SUPPORTED for c in CALLS]


def _do(client, call, idx, v):
    from kmip.core import enums, objects as cobj, primitives
    from kmip.core.factories import attributes as af
    from kmip.core.messages import contents
    from kmip.pie import objects as pobj
    E = enums
    sk_act, sk_pre = idx["SymmetricKey/ACTIVE"], idx["SymmetricKey/PRE_ACTIVE"]
    masks = [E.CryptographicUsageMask.ENCRYPT, E.CryptographicUsageMask.DECRYPT]
    aes = {"cryptographic_algorithm": E.CryptographicAlgorithm.AES,
           "block_cipher_mode": E.BlockCipherMode.CBC, "padding_method": E.PaddingMethod.PKCS5}
    rsa = {"cryptographic_algorithm": E.CryptographicAlgorithm.RSA,
           "hashing_algorithm": E.HashingAlgorithm.SHA_256, "padding_method": E.PaddingMethod.PKCS1v15}
    blk = bytes.fromhex("00112233445566778899aabbccddeeff")
    fac = af.AttributeFactory()
    if call == "create":
        return client.create(E.CryptographicAlgorithm.AES, 128, name="c16", cryptographic_usage_mask=masks)
    if call == "create+policy":
        return client.create(E.CryptographicAlgorithm.AES, 128, operation_policy_name="default")
    if call == "create_key_pair":
        return client.create_key_pair(E.CryptographicAlgorithm.RSA, 1024, public_name="pu", private_name="pr",
                                      public_usage_mask=[E.CryptographicUsageMask.VERIFY],
                                      private_usage_mask=[E.CryptographicUsageMask.SIGN])
    if call in ("register", "register+sensitive", "register+wrapped"):
        k = pobj.SymmetricKey(E.CryptographicAlgorithm.AES, 128, blk, masks=masks, name="c16r")
        if call == "register+sensitive":
            k.sensitive = True
        if call == "register+wrapped":
            k = pobj.SymmetricKey(E.CryptographicAlgorithm.AES, 128, blk + blk[:8], masks=masks, name="c16w",
                                  key_wrapping_data={"wrapping_method": E.WrappingMethod.ENCRYPT,
                                                     "encryption_key_information": {
                                                         "unique_identifier": sk_act,
                                                         "cryptographic_parameters": {"block_cipher_mode": E.BlockCipherMode.NIST_KEY_WRAP}},
                                                     "encoding_option": E.EncodingOption.NO_ENCODING})
        return client.register(k)
    if call == "locate":
        return client.locate(maximum_items=3, attributes=[
            fac.create_attribute(E.AttributeType.OBJECT_TYPE, E.ObjectType.SYMMETRIC_KEY)])
    if call == "locate+paging":
        return client.locate(maximum_items=2, offset_items=1)
    if call == "locate+group-member":
        return client.locate(object_group_member=E.ObjectGroupMember.GROUP_MEMBER_DEFAULT, storage_status_mask=1)
    if call == "get":
        return client.get(sk_act)
    if call == "get+wrap":
        return client.get(sk_pre, key_wrapping_specification={
            "wrapping_method": E.WrappingMethod.ENCRYPT,
            "encryption_key_information": {"unique_identifier": sk_act, "cryptographic_parameters": {
                "block_cipher_mode": E.BlockCipherMode.NIST_KEY_WRAP}},
            "encoding_option": E.EncodingOption.NO_ENCODING})
    if call == "get_attributes":
        return client.get_attributes(sk_act)
    if call == "get_attributes+names":
        return client.get_attributes(sk_act, ["Name", "Sensitive", "Operation Policy Name", "State"])
    if call == "get_attribute_list":
        return client.get_attribute_list(sk_act)
    if call == "activate":
        return client.activate(sk_pre)
    if call == "revoke":
        return client.revoke(E.RevocationReasonCode.CESSATION_OF_OPERATION, idx["SecretData/ACTIVE"],
                             revocation_message="done", compromise_occurrence_date=1_600_000_000)
    if call == "destroy":
        return client.destroy(idx["SecretData/PRE_ACTIVE"])
    if call == "encrypt":
        return client.encrypt(blk, uid=sk_act, cryptographic_parameters=aes, iv_counter_nonce=blk)
    if call == "encrypt+gcm":
        return client.encrypt(blk, uid=sk_act, cryptographic_parameters={
            "cryptographic_algorithm": E.CryptographicAlgorithm.AES, "block_cipher_mode": E.BlockCipherMode.GCM,
            "tag_length": 16, "random_iv": False, "iv_length": 12}, iv_counter_nonce=blk[:12])
    if call == "decrypt":
        return client.decrypt(blk, uid=sk_act, cryptographic_parameters=dict(aes, block_cipher_mode=E.BlockCipherMode.CTR,
                                                                              padding_method=None), iv_counter_nonce=blk)
    if call == "sign":
        return client.sign(blk, uid=idx["PrivateKey/ACTIVE"], cryptographic_parameters=rsa)
    if call == "signature_verify":
        return client.signature_verify(blk, b"\xab" * 128, uid=idx["PublicKey/ACTIVE"], cryptographic_parameters=rsa)
    if call == "mac":
        return client.mac(blk, uid=sk_act, algorithm=E.CryptographicAlgorithm.HMAC_SHA256)
    if call == "derive_key":
        return client.derive_key(E.ObjectType.SYMMETRIC_KEY, [sk_act], E.DerivationMethod.HASH,
                                 {"cryptographic_parameters": {"hashing_algorithm": E.HashingAlgorithm.SHA_256},
                                  "derivation_data": b"\x01\x02"},
                                 cryptographic_length=128, cryptographic_algorithm=E.CryptographicAlgorithm.AES)
    if call == "rekey":
        return client.rekey(uid=sk_act, offset=0, activation_date=1_600_000_100)
    if call == "check":
        return client.check(uid=sk_act, usage_limits_count=1, cryptographic_usage_mask=masks, lease_time=10)
    if call == "modify_attribute":
        if v >= (2, 0):
            return client.modify_attribute(
                unique_identifier=sk_pre,
                current_attribute=cobj.CurrentAttribute(attribute=primitives.TextString("g1", E.Tags.OBJECT_GROUP)),
                new_attribute=cobj.NewAttribute(attribute=primitives.TextString("g2", E.Tags.OBJECT_GROUP)))
        return client.modify_attribute(unique_identifier=sk_pre, attribute=fac.create_attribute(
            E.AttributeType.OBJECT_GROUP, "g2", 0))
    if call == "delete_attribute":
        if v >= (2, 0):
            return client.delete_attribute(unique_identifier=sk_pre, attribute_reference=cobj.AttributeReference(
                vendor_identification="x", attribute_name="Object Group"))
        return client.delete_attribute(unique_identifier=sk_pre, attribute_name="Object Group", attribute_index=0)
    if call == "set_attribute":
        return client.set_attribute(unique_identifier=sk_pre, attribute_name="Sensitive", attribute_value=True)
    if call == "query":
        return client.proxy.query(query_functions=[E.QueryFunction.QUERY_OPERATIONS, E.QueryFunction.QUERY_OBJECTS,
                                                   E.QueryFunction.QUERY_SERVER_INFORMATION])
    if call == "discover_versions":
        return client.proxy.discover_versions()
    if call == "discover_versions+list":
        return client.proxy.discover_versions(protocol_versions=[contents.ProtocolVersion(1, 2), contents.ProtocolVersion(1, 0)])
    raise ValueError(call)


def run(spec, tag_problems):
    v = tuple(spec["v"])
    call = spec["call"]
    srv, idx = store.fresh_server()
    classes = ["d3:" + call.split("+")[0]]
    buckets = []
    explicit = EXPLICIT_LATER.get(call)
    carries_attributes = call.split("+")[0] in (
        "create", "create_key_pair", "register", "locate", "derive_key", "rekey", "get_attributes",
        "get_attribute_list", "modify_attribute", "delete_attribute", "set_attribute")
    nt = (explicit is not None and (v == explicit or v == S.below(explicit))) or \
        (carries_attributes and v in (S.V14, S.V20))

    def responder(req):
        H.CLOCK.tick()
        conn, errs = srv.session(req, cn="alice")
        return conn.sent[0] if conn.sent else b""

    client, sock = W.make_client(v, responder)
    try:
        try:
            _do(client, call, idx, v)
            classes.append("d3:returned")
        except Exception as e:
            classes.append("d3:raised-" + type(e).__name__)
    finally:
        W.release_client(client)
        srv.close()
    if not sock.requests:
        classes.append("d3:nothing-sent")
    for req in sock.requests:
        try:
            hv = W.parse_request(req)["version"]
        except Exception:
            classes.append("d3:request-unparsable")
            continue
        if tuple(hv) != v:
            buckets.append(("C16|client|%s|request-header-version-differs" % call.split("+")[0],
                            "client set to KMIP %s sent header %s" % (S.vs(v), hv)))
        for k, d in tag_problems(req, v, "client-request"):
            if explicit is not None and v < explicit:
                # the caller asked for a feature of a later version by name (operation or
                # argument): the caller's own over-specification, like a raw library object -
                # counted, not judged (the server side of the same fields is part d4)
                classes.append("d3:explicit-later-feature-emitted")
                continue
            buckets.append((k, "ProxyKmipClient.%s: %s" % (call, d)))
    for rep in sock.replies:
        if rep:
            buckets += tag_problems(rep, v, "server-response")
            try:
                if R.response_version(rep) != v and R.response_items(rep)[0]["operation"] is not None:
                    buckets.append(("C16|echo|session|header-version-differs",
                                    "%s under %s -> %s" % (call, S.vs(v), R.response_version(rep))))
            except Exception:
                pass
    return buckets, bool(nt), classes
