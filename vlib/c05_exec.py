"""C05 execution: three client paths onto the real engine, expectations derived from the case
spec, comparison of what comes back."""
import copy
import traceback

from kmip.core import enums as E

from vlib import core
from vlib import harness as H
from vlib import fixtures as F
from vlib import ttlvref as T
from vlib import c19_wire as W
from vlib import c19_engine as EN
from vlib import c05_wire as CW
from vlib.c05_gen import MULTI, POLICIES, KNOWN_MASK, KEY_TYPES

PID = "C05"
T0 = 1_700_000_000
GENERAL_FAILURE = 0x100
LIFECYCLE = {"SymmetricKey", "PublicKey", "PrivateKey", "SplitKey", "Certificate", "SecretData"}
INTRINSIC = {"Cryptographic Algorithm": "alg", "Cryptographic Length": "len", "Certificate Type": "ctype"}
DEFAULTS = {"Cryptographic Usage Mask": 0, "Sensitive": False}
UTS = "UNINTERPRETED_TEXT_STRING"
ENC_DEC = 0x4 | 0x8

PARAM_LONG = {"mode": "block_cipher_mode", "pad": "padding_method", "hash": "hashing_algorithm",
              "role": "key_role_type", "dsa": "digital_signature_algorithm",
              "alg": "cryptographic_algorithm", "random_iv": "random_iv", "iv_length": "iv_length",
              "tag_length": "tag_length", "fixed_field_length": "fixed_field_length",
              "invocation_field_length": "invocation_field_length", "counter_length": "counter_length",
              "initial_counter_value": "initial_counter_value"}
PARAM_ENUM = {"mode": E.BlockCipherMode, "pad": E.PaddingMethod, "hash": E.HashingAlgorithm,
              "role": E.KeyRoleType, "dsa": E.DigitalSignatureAlgorithm, "alg": E.CryptographicAlgorithm}
PARAM_SHORT = {v: k for k, v in PARAM_LONG.items()}


def policies():
    pol = H.builtin_policies()
    for name in POLICIES:
        if name not in pol:
            pol[name] = copy.deepcopy(pol["default"])
    return pol


# ============================================================================= expectations
def norm_info(i):
    if i is None:
        return None
    return {"uid": i["uid"], "params": None if i.get("params") is None else dict(i["params"])}


def norm_wrap(w):
    if w is None:
        return None
    return {"method": w["method"], "eki": norm_info(w.get("eki")), "mski": norm_info(w.get("mski")),
            "mac": w.get("mac"), "iv": w.get("iv"), "enc": w.get("enc")}


def expected_secret(o):
    """What Get has to return for a registered object: the object spec itself."""
    t = o["type"]
    if t in KEY_TYPES:
        d = {"type": t, "fmt": o["fmt"], "value": o["value"], "alg": o["alg"], "len": o["len"],
             "wrap": norm_wrap(o.get("wrap"))}
        if t == "SplitKey":
            d.update(parts=o["parts"], part_id=o["part_id"], threshold=o["threshold"],
                     method=o["method"], prime=o.get("prime"))
        return d
    if t == "SecretData":
        return {"type": t, "fmt": o.get("fmt", "OPAQUE"), "value": o["value"], "alg": o.get("alg"),
                "len": o.get("len"), "wrap": None, "dtype": o["dtype"]}
    if t == "Certificate":
        return {"type": t, "ctype": o["ctype"], "value": o["value"]}
    return {"type": t, "otype": o["otype"], "value": o["value"]}


def diff(exp, got, path, out):
    if isinstance(exp, dict) and isinstance(got, dict):
        for k in sorted(set(exp) | set(got)):
            diff(exp.get(k), got.get(k), path + [k], out)
    elif exp != got:
        kind = "lost" if got is None else "invented" if exp is None else "changed"
        out.append((path, kind, exp, got))


def short(x, n=120):
    s = repr(x)
    return s if len(s) <= n else s[:n] + "...(%d chars)" % len(s)


def judge_secret(exp, got, phase, buckets, label):
    """exp/got: plain dicts.  phase: 'get'."""
    if got is None:
        buckets.append(("%s|%s|no-object-in-response" % (PID, phase), label))
        return
    if exp["type"] != got.get("type"):
        buckets.append(("%s|%s|type|changed" % (PID, phase),
                        "%s: stored %s, returned %s" % (label, exp["type"], got.get("type"))))
        return
    out = []
    diff(exp, got, [], out)
    for path, kind, e, g in out:
        if path[0] == "wrap":
            group, field = "wrapping-data", ".".join(path[1:]) or "(whole)"
        else:
            group, field = exp["type"], ".".join(path)
        buckets.append(("%s|%s|%s|field=%s|%s" % (PID, phase, group, field, kind),
                        "%s: %s stored %s, returned %s" % (label, ".".join(path), short(e), short(g))))


# ----------------------------------------------------------------------------- attributes
def group_by_name(attrs):
    d = {}
    for a in attrs:
        d.setdefault(a[0], []).append(a[-1] if len(a) != 2 else a[1])
    return d


def canon_value(name, v):
    if name == "Name" and isinstance(v, str):
        return {"v": v, "t": UTS}
    return v


def judge_attributes(entry, reported, v, buckets, label, path):
    """entry: stored-object record (supplied, uid, otype, t_store, intrinsic, mask_alt)."""
    v = tuple(v)
    sup = {}
    for name, val in entry["supplied"]:
        sup.setdefault(name, []).append(canon_value(name, val))
    rep = {}
    for name, idx, val in reported:
        rep.setdefault(name, []).append(val)
    K = "%s|getattributes|" % PID

    def add(name, kind, detail):
        buckets.append((K + "%s|%s" % (name, kind), "%s: %s" % (label, detail)))

    # (1) every supplied attribute comes back with value and multiplicity, order preserved
    for name, vals in sup.items():
        got = rep.get(name)
        if name == "Cryptographic Length" and entry["otype"] == "SecretData":
            continue        # derivation length of a SecretData object: a parameter, not an attribute
        if got is None:
            if name == "Operation Policy Name" and v >= (2, 0):
                continue    # deprecated in KMIP 2.0: not reported
            if path == "pie" and name == "Sensitive":
                buckets.append(("%s|pie|register|sensitive-not-transmitted" % PID, label))
                continue
            add(name, "supplied-but-not-reported", "supplied %s" % short(vals))
            continue
        if got == vals:
            continue
        if name == "Cryptographic Usage Mask" and got[0] in entry.get("mask_alt", ()) and len(got) == 1:
            continue
        if path == "pie" and name == "Sensitive":
            buckets.append(("%s|pie|register|sensitive-not-transmitted" % PID,
                            "%s: object.sensitive=%r, server reports %r" % (label, vals, got)))
            continue
        if name == "Name" and [x["v"] for x in got] == [x["v"] for x in vals]:
            add(name, "name-type-lost", "supplied %s, reported %s" % (short(vals), short(got)))
        elif name == "Cryptographic Usage Mask" and len(got) == 1 and got[0] == vals[0] & KNOWN_MASK:
            add(name, "unknown-bits-dropped", "supplied 0x%x, reported 0x%x" % (vals[0], got[0]))
        elif len(got) != len(vals):
            add(name, "multiplicity", "supplied %s, reported %s" % (short(vals), short(got)))
        elif sorted(map(repr, got)) == sorted(map(repr, vals)):
            add(name, "order", "supplied %s, reported %s" % (short(vals), short(got)))
        else:
            add(name, "value", "supplied %s, reported %s" % (short(vals), short(got)))
    # server-assigned
    assigned = {"Unique Identifier": entry["uid"], "Object Type": OT_ENUM_NAME[entry["otype"]],
                "Initial Date": entry["t_store"]}
    if entry["otype"] in LIFECYCLE:
        assigned["State"] = "PRE_ACTIVE"
    if "Operation Policy Name" not in sup and v < (2, 0):
        assigned["Operation Policy Name"] = "default"
    for name, want in assigned.items():
        got = rep.get(name)
        if got is None:
            add(name, "server-assigned-missing", "expected %r" % (want,))
        elif got != [want]:
            add(name, "server-assigned-value", "expected %r, reported %s" % (want, short(got)))
    # (2) nothing else
    for name, got in rep.items():
        if name in sup or name in assigned:
            continue
        if name == "Operation Policy Name" and got == ["default"]:
            continue        # 2.0: deprecated, tolerated if it carries the default
        if name in INTRINSIC:
            own = entry["intrinsic"].get(INTRINSIC[name], "?")
            if own == "?":
                # a certificate's algorithm / length may be derived from its content; anything else
                # has no such field
                if entry["otype"] != "Certificate":
                    add(name, "unexpected-attribute", "object has no such field, reported %s" % short(got))
            elif got != [own]:
                add(name, "differs-from-object", "object has %r, attribute reports %s" % (own, short(got)))
            continue
        if name in DEFAULTS:
            if got != [DEFAULTS[name]]:
                add(name, "unsupplied-non-default", "not supplied, reported %s" % short(got))
            continue
        add(name, "unexpected-attribute", "not supplied, reported %s" % short(got))


def judge_list(entry, names, reported_attrs, v, buckets, label):
    v = tuple(v)
    K = "%s|getattributelist|" % PID
    got = set(names)
    sup = set(n for n, _ in entry["supplied"])
    if entry["otype"] == "SecretData":
        sup.discard("Cryptographic Length")
    need = set(sup) | {"Unique Identifier", "Object Type", "Initial Date"}
    if entry["otype"] in LIFECYCLE:
        need.add("State")
    if v < (2, 0):
        need.add("Operation Policy Name")
    else:
        need.discard("Operation Policy Name")
    allowed = need | set(INTRINSIC) | set(DEFAULTS) | {"Operation Policy Name"}
    for n in sorted(need - got):
        buckets.append((K + "%s|missing" % n, "%s: names %s" % (label, sorted(got))))
    for n in sorted(got - allowed):
        buckets.append((K + "%s|unexpected" % n, "%s: names %s" % (label, sorted(got))))
    if reported_attrs is not None:
        other = set(a[0] for a in reported_attrs)
        if other != got:
            buckets.append((K + "differs-from-getattributes",
                            "%s: list %s, attributes %s" % (label, sorted(got), sorted(other))))


OT_ENUM_NAME = {"SymmetricKey": "SYMMETRIC_KEY", "PublicKey": "PUBLIC_KEY", "PrivateKey": "PRIVATE_KEY",
                "SplitKey": "SPLIT_KEY", "Certificate": "CERTIFICATE", "SecretData": "SECRET_DATA",
                "OpaqueData": "OPAQUE_DATA"}


# ============================================================================= outcomes
class Out(object):
    """ok(data) | fail(reason name, message) | exc(exception) | refused(text)."""

    def __init__(self, kind, data=None, reason=None, message=None, exc=None):
        self.kind, self.data, self.reason, self.message, self.exc = kind, data, reason, message, exc

    @property
    def gf(self):
        return self.kind == "fail" and self.reason == "GENERAL_FAILURE"

    def plain(self):
        if self.kind == "ok":
            return ["ok", self.data]
        if self.kind == "fail":
            return ["fail", self.reason, self.message]
        return [self.kind, "%s: %s" % (type(self.exc).__name__, self.exc) if self.exc else self.message]


def reason_name(r):
    if r is None:
        return None
    if hasattr(r, "name"):
        return r.name
    return CW.ename(E.ResultReason, r)


def is_client_refusal(e):
    mod = type(e).__module__
    return mod in ("kmip.core.exceptions",) or (mod == "kmip.pie.exceptions"
                                                 and type(e).__name__ != "KmipOperationFailure")


def harness_attrs(attrs, v=None):
    cnt, out = {}, []
    for name, val in attrs:
        if name in MULTI:
            i = cnt.get(name, 0)
            cnt[name] = i + 1
            out.append([name, val, i])
        else:
            out.append([name, val])
    return out


def merged_side(common, side):
    names = set(a[0] for a in side)
    return list(side) + [a for a in common if a[0] not in names]


# ============================================================================= drivers
class Base(object):
    def __init__(self, server, v):
        self.server = server
        self.v = tuple(v)
        self.internal = []       # internal exceptions behind General Failure answers

    def close(self):
        pass


class RawDriver(Base):
    """harness.Client payloads; the answers are read with the independent TTLV reference."""
    path = "raw"

    def __init__(self, server, v):
        Base.__init__(self, server, v)
        self.cli = H.Client(server, "alice", None, self.v)

    def _one(self, item):
        try:
            rr = self.cli.request([item])
        except Exception as e:
            return Out("refused", message="library cannot encode the request: %s: %s" % (type(e).__name__, e),
                       exc=e), None
        if rr["resp"] is None:
            return Out("exc", exc=rr["error"], message="server stage " + rr["stage"]), None
        self.internal = list(rr.get("internal") or [])
        try:
            status, reason, message, payload = CW.single(rr["resp"])
        except T.TTLVError as e:
            return Out("exc", exc=e, message="the response is not well-formed TTLV"), None
        if status != 0:
            return Out("fail", reason=reason_name(reason), message=message), None
        return None, payload

    def register(self, spec):
        o = spec["obj"]
        bad, p = self._one({"op": "Register", "obj": o, "attrs": harness_attrs(spec["attrs"])})
        if bad:
            return bad
        return Out("ok", [{"uid": W.val(p, W.UNIQUE_IDENTIFIER), "otype": o["type"], "role": "obj",
                           "supplied": list(spec["attrs"])}])

    def create(self, spec):
        attrs = [["Cryptographic Algorithm", spec["alg"]], ["Cryptographic Length", spec["len"]]] + spec["attrs"]
        bad, p = self._one({"op": "Create", "attrs": harness_attrs(attrs)})
        if bad:
            return bad
        return Out("ok", [{"uid": W.val(p, W.UNIQUE_IDENTIFIER), "otype": "SymmetricKey", "role": "obj",
                           "supplied": attrs}])

    def keypair(self, spec):
        common = [["Cryptographic Algorithm", spec["alg"]], ["Cryptographic Length", spec["len"]]] + spec["attrs"]
        bad, p = self._one({"op": "CreateKeyPair", "common": harness_attrs(common),
                            "private": harness_attrs(spec["priv"]), "public": harness_attrs(spec["pub"])})
        if bad:
            return bad
        return Out("ok", [
            {"uid": W.val(p, W.PUBLIC_KEY_UNIQUE_IDENTIFIER), "otype": "PublicKey", "role": "pub",
             "supplied": merged_side(common, spec["pub"])},
            {"uid": W.val(p, W.PRIVATE_KEY_UNIQUE_IDENTIFIER), "otype": "PrivateKey", "role": "priv",
             "supplied": merged_side(common, spec["priv"])}])

    def derive(self, spec, base):
        d = spec["derive"]
        attrs = derive_attrs(spec)
        bad, p = self._one({"op": "DeriveKey", "otype": d["otype"], "uids": [base], "method": d["method"],
                            "dp": d["dp"], "attrs": harness_attrs(attrs)})
        if bad:
            return bad
        return Out("ok", [{"uid": W.val(p, W.UNIQUE_IDENTIFIER), "otype": d["otype"], "role": "obj",
                           "supplied": attrs}])

    def get(self, uid):
        bad, p = self._one({"op": "Get", "uid": uid})
        if bad:
            return bad
        g = CW.read_get(p)
        return Out("ok", g)

    def get_attributes(self, uid):
        bad, p = self._one({"op": "GetAttributes", "uid": uid})
        if bad:
            return bad
        return Out("ok", {"uid": W.val(p, W.UNIQUE_IDENTIFIER), "attrs": CW.read_attributes(p, self.v)})

    def get_attribute_list(self, uid):
        bad, p = self._one({"op": "GetAttributeList", "uid": uid})
        if bad:
            return bad
        return Out("ok", CW.read_attribute_list(p, self.v))


def derive_attrs(spec):
    d = spec["derive"]
    attrs = [["Cryptographic Length", spec["len"]]]
    if d["otype"] == "SymmetricKey":
        attrs.append(["Cryptographic Algorithm", spec["alg"]])
    return attrs + spec["attrs"]


class ClientBase(Base):
    """A real ProxyKmipClient (and its KMIPProxy) wired to the engine through a fake socket."""

    def __init__(self, server, v):
        Base.__init__(self, server, v)
        self.harness_error = None

        def responder(req):
            try:
                H.CLOCK.tick()
                r = server.process(req, ("alice", None))
                self.internal = list(r.get("internal") or [])
                if r["resp"] is not None:
                    return r["resp"]
                if r.get("error") is not None and r["stage"] != "decode":
                    self.internal = self.internal or [r["error"]]
                return EN.session_error_response(server, r["error"], r["stage"], r.get("request"))
            except BaseException:
                self.harness_error = traceback.format_exc()
                raise

        self.client, self.sock = W.make_client(self.v, responder)

    def close(self):
        W.release_client(self.client)

    def _call(self, fn, *a, **kw):
        n = len(self.sock.requests)
        try:
            res = fn(*a, **kw)
        except Exception as e:
            if self.harness_error:
                raise core.HarnessError("responder failed:\n" + self.harness_error)
            if type(e).__name__ == "KmipOperationFailure":
                return Out("fail", reason=reason_name(e.reason), message=e.message), None
            if len(self.sock.requests) == n and is_client_refusal(e):
                return Out("refused", message="%s: %s" % (type(e).__name__, e), exc=e), None
            return Out("exc", exc=e), None
        return None, res


MASK_SHAPE = [0]      # how the case at hand spells its usage mask lists (set by run_case)


def _masks(m):
    """The flag list a pie caller passes for mask m.  The list names a set of flags: order and
    repetition (lists assembled as common + per-key flags) do not change the mask it stands for."""
    out = [e for e in E.CryptographicUsageMask if e.value & m]
    shape = MASK_SHAPE[0]
    if shape == 1:
        out = out[::-1]
    elif shape == 2 and out:
        out = out + out[:1]
    elif shape == 3:
        out = out + out[::-1]
    return out


def pie_params(p):
    return {PARAM_LONG[k]: (PARAM_ENUM[k][val] if k in PARAM_ENUM else val) for k, val in p.items()}


def pie_info(i):
    d = {"unique_identifier": i["uid"]}
    if i.get("params") is not None:
        d["cryptographic_parameters"] = pie_params(i["params"])
    return d


def pie_wrap(w):
    if w is None:
        return None
    d = {"wrapping_method": E.WrappingMethod[w["method"]]}
    if w.get("eki") is not None:
        d["encryption_key_information"] = pie_info(w["eki"])
    if w.get("mski") is not None:
        d["mac_signature_key_information"] = pie_info(w["mski"])
    if w.get("mac") is not None:
        d["mac_signature"] = bytes.fromhex(w["mac"])
    if w.get("iv") is not None:
        d["iv_counter_nonce"] = bytes.fromhex(w["iv"])
    if w.get("enc") is not None:
        d["encoding_option"] = E.EncodingOption[w["enc"]]
    return d


def pie_build(o, attrs):
    """A kmip.pie object carrying the object spec and the attributes the pie model can hold.
    Returns (object, supplied) where supplied lists what ProxyKmipClient.register documents /
    is built to transmit: names, usage masks, operation policy name, application specific info."""
    from kmip.pie import objects as po
    g = group_by_name(attrs)
    names = [n["v"] if isinstance(n, dict) else n for n in g.get("Name", [])]
    mask = (g.get("Cryptographic Usage Mask") or [None])[0]
    asi = [{"application_namespace": a["ns"], "application_data": a["data"]}
           for a in g.get("Application Specific Information", [])]
    t = o["type"]
    kw = {}
    if names:
        kw["name"] = names[0]
    val = bytes.fromhex(o["value"])
    if t in ("SymmetricKey", "PublicKey", "PrivateKey"):
        alg = E.CryptographicAlgorithm[o["alg"]]
        if asi:
            kw["app_specific_info"] = asi
        if mask is not None:
            kw["masks"] = _masks(mask)
        if t == "SymmetricKey":
            obj = po.SymmetricKey(alg, o["len"], val, key_wrapping_data=pie_wrap(o.get("wrap")), **kw)
        else:
            cls = po.PublicKey if t == "PublicKey" else po.PrivateKey
            obj = cls(alg, o["len"], val, E.KeyFormatType[o["fmt"]],
                      key_wrapping_data=pie_wrap(o.get("wrap")), **kw)
    elif t == "SplitKey":
        if mask is not None:
            kw["cryptographic_usage_masks"] = _masks(mask)
        obj = po.SplitKey(cryptographic_algorithm=E.CryptographicAlgorithm[o["alg"]],
                          cryptographic_length=o["len"], key_value=val,
                          key_format_type=E.KeyFormatType[o["fmt"]],
                          key_wrapping_data=pie_wrap(o.get("wrap")), split_key_parts=o["parts"],
                          key_part_identifier=o["part_id"], split_key_threshold=o["threshold"],
                          split_key_method=E.SplitKeyMethod[o["method"]], prime_field_size=o.get("prime"),
                          **kw)
    elif t == "Certificate":
        if mask is not None:
            kw["masks"] = _masks(mask)
        if o["ctype"] != "X_509":
            obj = po.Certificate(E.CertificateType[o["ctype"]], val, **kw)
        else:
            obj = po.X509Certificate(val, **kw)
    elif t == "SecretData":
        if mask is not None:
            kw["masks"] = _masks(mask)
        obj = po.SecretData(val, E.SecretDataType[o["dtype"]], **kw)
    else:
        obj = po.OpaqueObject(val, E.OpaqueDataType[o["otype"]], **kw)
    for extra in names[1:]:
        obj.names.append(extra)
    opn = (g.get("Operation Policy Name") or [None])[0]
    if opn is not None:
        obj.operation_policy_name = opn
    if g.get("Sensitive"):
        obj.sensitive = g["Sensitive"][0]
    # what the object now holds is what the client is given to store
    supplied = [["Name", {"v": n, "t": UTS}] for n in list(obj.names)]
    if hasattr(obj, "cryptographic_usage_masks") and obj.cryptographic_usage_masks is not None:
        m = 0
        for e in obj.cryptographic_usage_masks:
            m |= e.value
        supplied.append(["Cryptographic Usage Mask", m])
    if obj.operation_policy_name is not None:
        supplied.append(["Operation Policy Name", obj.operation_policy_name])
    for a in asi:
        supplied.append(["Application Specific Information",
                         {"ns": a["application_namespace"], "data": a["application_data"]}])
    if g.get("Sensitive") and g["Sensitive"][0]:
        supplied.append(["Sensitive", True])
    return obj, supplied


def _ename(x):
    return None if x is None else x.name


def pie_wrap_plain(d):
    if not d:
        return None

    def info(i):
        if not i:
            return None
        p = i.get("cryptographic_parameters")
        pp = None
        if p:
            pp = {}
            for k, val in p.items():
                if val is None:
                    continue
                pp[PARAM_SHORT[k]] = val.name if hasattr(val, "name") else val
        return {"uid": i.get("unique_identifier"), "params": pp}

    def hx(b):
        return None if b is None else bytes(b).hex()
    return {"method": _ename(d.get("wrapping_method")), "eki": info(d.get("encryption_key_information")),
            "mski": info(d.get("mac_signature_key_information")), "mac": hx(d.get("mac_signature")),
            "iv": hx(d.get("iv_counter_nonce")), "enc": _ename(d.get("encoding_option"))}


def pie_plain(o):
    """A kmip.pie object as returned by ProxyKmipClient.get, in the shape of harness.secret_plain."""
    from kmip.pie import objects as po
    if isinstance(o, po.Key):
        t = {po.SymmetricKey: "SymmetricKey", po.PublicKey: "PublicKey", po.PrivateKey: "PrivateKey",
             po.SplitKey: "SplitKey"}.get(type(o), type(o).__name__)
        d = {"type": t, "fmt": _ename(o.key_format_type), "value": bytes(o.value).hex(),
             "alg": _ename(o.cryptographic_algorithm), "len": o.cryptographic_length,
             "wrap": pie_wrap_plain(o.key_wrapping_data)}
        if t == "SplitKey":
            d.update(parts=o.split_key_parts, part_id=o.key_part_identifier, threshold=o.split_key_threshold,
                     method=_ename(o.split_key_method), prime=o.prime_field_size)
        return d
    if isinstance(o, po.Certificate):
        return {"type": "Certificate", "ctype": _ename(o.certificate_type), "value": bytes(o.value).hex()}
    if isinstance(o, po.SecretData):
        return {"type": "SecretData", "fmt": "OPAQUE", "value": bytes(o.value).hex(), "alg": None,
                "len": None, "wrap": None, "dtype": _ename(o.data_type)}
    if isinstance(o, po.OpaqueObject):
        return {"type": "OpaqueData", "otype": _ename(o.opaque_type), "value": bytes(o.value).hex()}
    return {"type": type(o).__name__}


class PieDriver(ClientBase):
    path = "pie"

    def register(self, spec):
        try:
            obj, supplied = pie_build(spec["obj"], spec["attrs"])
        except (TypeError, ValueError) as e:
            return Out("refused", message="pie object model refuses the object: %s: %s" % (type(e).__name__, e), exc=e)
        bad, uid = self._call(self.client.register, obj)
        if bad:
            return bad
        return Out("ok", [{"uid": uid, "otype": spec["obj"]["type"], "role": "obj", "supplied": supplied}])

    def create(self, spec):
        g = group_by_name(spec["attrs"])
        name = (g.get("Name") or [None])[0]
        name = name["v"] if isinstance(name, dict) else name
        mask = (g.get("Cryptographic Usage Mask") or [None])[0]
        opn = (g.get("Operation Policy Name") or [None])[0]
        bad, uid = self._call(self.client.create, E.CryptographicAlgorithm[spec["alg"]], spec["len"],
                              operation_policy_name=opn, name=name,
                              cryptographic_usage_mask=None if mask is None else _masks(mask))
        if bad:
            return bad
        supplied = [["Cryptographic Algorithm", spec["alg"]], ["Cryptographic Length", spec["len"]]]
        if name:
            supplied.append(["Name", {"v": name, "t": UTS}])
        if opn:
            supplied.append(["Operation Policy Name", opn])
        m = mask or 0
        supplied.append(["Cryptographic Usage Mask", m])
        # the client adds Encrypt|Decrypt to every created key (not documented): accepted, not demanded
        return Out("ok", [{"uid": uid, "otype": "SymmetricKey", "role": "obj", "supplied": supplied,
                           "mask_alt": [m | ENC_DEC]}])

    def keypair(self, spec):
        g = group_by_name(spec["attrs"])
        opn = (g.get("Operation Policy Name") or [None])[0]
        args, sides = {}, {}
        for side, key in (("pub", "public"), ("priv", "private")):
            sg = group_by_name(spec[side])
            name = (sg.get("Name") or [None])[0]
            name = name["v"] if isinstance(name, dict) else name
            mask = (sg.get("Cryptographic Usage Mask") or [None])[0]
            args[key + "_name"] = name
            args[key + "_usage_mask"] = None if mask is None else _masks(mask)
            s = [["Cryptographic Algorithm", spec["alg"]], ["Cryptographic Length", spec["len"]]]
            if name:
                s.append(["Name", {"v": name, "t": UTS}])
            if mask:
                s.append(["Cryptographic Usage Mask", mask])
            if opn:
                s.append(["Operation Policy Name", opn])
            sides[side] = s
        bad, res = self._call(self.client.create_key_pair, E.CryptographicAlgorithm[spec["alg"]], spec["len"],
                              operation_policy_name=opn, **args)
        if bad:
            return bad
        return Out("ok", [{"uid": res[0], "otype": "PublicKey", "role": "pub", "supplied": sides["pub"]},
                          {"uid": res[1], "otype": "PrivateKey", "role": "priv", "supplied": sides["priv"]}])

    def derive(self, spec, base):
        from kmip.core import enums
        d = spec["derive"]
        dp = d["dp"]
        params = {}
        if dp.get("params"):
            params["cryptographic_parameters"] = pie_params(dp["params"])
        for short_, long_ in (("iv", "initialization_vector"), ("data", "derivation_data"), ("salt", "salt")):
            if dp.get(short_) is not None:
                params[long_] = bytes.fromhex(dp[short_])
        if dp.get("iter") is not None:
            params["iteration_count"] = dp["iter"]
        g = group_by_name(spec["attrs"])
        mask = (g.get("Cryptographic Usage Mask") or [None])[0]
        kw = {"cryptographic_length": spec["len"]}
        supplied = [["Cryptographic Length", spec["len"]]]
        if d["otype"] == "SymmetricKey":
            kw["cryptographic_algorithm"] = E.CryptographicAlgorithm[spec["alg"]]
            supplied.append(["Cryptographic Algorithm", spec["alg"]])
        if mask:
            kw["cryptographic_usage_mask"] = _masks(mask)
            supplied.append(["Cryptographic Usage Mask", mask])
        bad, uid = self._call(self.client.derive_key, H.OT[d["otype"]], [base],
                              enums.DerivationMethod[d["method"]], params, **kw)
        if bad:
            return bad
        return Out("ok", [{"uid": uid, "otype": d["otype"], "role": "obj", "supplied": supplied}])

    def get(self, uid):
        bad, obj = self._call(self.client.get, uid)
        if bad:
            return bad
        return Out("ok", {"uid": uid, "otype": None, "secret": pie_plain(obj)})

    def get_attributes(self, uid):
        bad, res = self._call(self.client.get_attributes, uid)
        if bad:
            return bad
        return Out("ok", {"uid": res[0], "attrs": [H.attr_plain(a) for a in (res[1] or [])]})

    def get_attribute_list(self, uid):
        bad, res = self._call(self.client.get_attribute_list, uid)
        if bad:
            return bad
        return Out("ok", list(res))


class ProxyDriver(ClientBase):
    """The raw KMIPProxy underneath: core objects in, result structures out."""
    path = "proxy"

    def _result(self, res):
        """KMIPProxy result structure or dict -> Out or None."""
        if isinstance(res, dict):
            st, rs, msg = res.get("result_status"), res.get("result_reason"), res.get("result_message")
        else:
            g = lambda x: getattr(x, "value", x)
            st, rs, msg = g(res.result_status), g(res.result_reason), g(res.result_message)
        if st == E.ResultStatus.SUCCESS:
            return None
        return Out("fail", reason=reason_name(rs), message=msg)

    def _do(self, fn, *a, **kw):
        bad, res = self._call(fn, *a, **kw)
        if bad:
            return bad, None
        return self._result(res), res

    def register(self, spec):
        o = spec["obj"]
        try:
            tmpl = H.template(harness_attrs(spec["attrs"]))
            sec = H.secret(o)
        except Exception as e:
            return Out("refused", message="library cannot build the request: %s: %s" % (type(e).__name__, e), exc=e)
        bad, res = self._do(self.client.proxy.register, H.OT[o["type"]], tmpl, sec)
        if bad:
            return bad
        return Out("ok", [{"uid": res.uuid, "otype": o["type"], "role": "obj", "supplied": list(spec["attrs"])}])

    def create(self, spec):
        attrs = [["Cryptographic Algorithm", spec["alg"]], ["Cryptographic Length", spec["len"]]] + spec["attrs"]
        bad, res = self._do(self.client.proxy.create, E.ObjectType.SYMMETRIC_KEY, H.template(harness_attrs(attrs)))
        if bad:
            return bad
        return Out("ok", [{"uid": res.uuid, "otype": "SymmetricKey", "role": "obj", "supplied": attrs}])

    def keypair(self, spec):
        from kmip.core import objects as cobj
        common = [["Cryptographic Algorithm", spec["alg"]], ["Cryptographic Length", spec["len"]]] + spec["attrs"]

        def tmpl(attrs, tag):
            return cobj.TemplateAttribute(attributes=[H.attribute(a) for a in harness_attrs(attrs)], tag=tag)
        bad, res = self._do(self.client.proxy.create_key_pair,
                            common_template_attribute=tmpl(common, E.Tags.COMMON_TEMPLATE_ATTRIBUTE),
                            private_key_template_attribute=tmpl(spec["priv"], E.Tags.PRIVATE_KEY_TEMPLATE_ATTRIBUTE),
                            public_key_template_attribute=tmpl(spec["pub"], E.Tags.PUBLIC_KEY_TEMPLATE_ATTRIBUTE))
        if bad:
            return bad
        return Out("ok", [
            {"uid": res.public_key_uuid, "otype": "PublicKey", "role": "pub",
             "supplied": merged_side(common, spec["pub"])},
            {"uid": res.private_key_uuid, "otype": "PrivateKey", "role": "priv",
             "supplied": merged_side(common, spec["priv"])}])

    def derive(self, spec, base):
        from kmip.core import attributes as cattr
        d = spec["derive"]
        dp = d["dp"]
        attrs = derive_attrs(spec)
        dparams = cattr.DerivationParameters(
            cryptographic_parameters=H.crypto_params(dp.get("params", {})),
            initialization_vector=H.hx(dp.get("iv")), derivation_data=H.hx(dp.get("data")),
            salt=H.hx(dp.get("salt")), iteration_count=dp.get("iter"))
        bad, res = self._do(self.client.proxy.derive_key, H.OT[d["otype"]], [base],
                            E.DerivationMethod[d["method"]], dparams, H.template(harness_attrs(attrs)))
        if bad:
            return bad
        return Out("ok", [{"uid": res.get("unique_identifier"), "otype": d["otype"], "role": "obj",
                           "supplied": attrs}])

    def get(self, uid):
        bad, res = self._do(self.client.proxy.get, uid)
        if bad:
            return bad
        return Out("ok", {"uid": res.uuid, "otype": H.OT_NAME.get(getattr(res.object_type, "value", res.object_type)),
                          "secret": None if res.secret is None else H.secret_plain(res.secret)})

    def get_attributes(self, uid):
        bad, res = self._do(self.client.proxy.get_attributes, uid)
        if bad:
            return bad
        return Out("ok", {"uid": res.uuid, "attrs": [H.attr_plain(a) for a in (res.attributes or [])]})

    def get_attribute_list(self, uid):
        bad, res = self._do(self.client.proxy.get_attribute_list, uid)
        if bad:
            return bad
        return Out("ok", list(res.names or []))


DRIVERS = {"raw": RawDriver, "pie": PieDriver, "proxy": ProxyDriver}


# ============================================================================= other operations
class Others(object):
    """Operations on OTHER objects (never the object under test), through raw payloads."""

    def __init__(self, server, v, spec):
        self.server, self.v = server, tuple(v)
        self.uids = []
        self.counts = {}
        self.shared = [a for a in spec.get("attrs", []) if a[0] in MULTI]
        self.targets = []       # uids of the object(s) under test: only READ by these steps
        self._wk = None

    def _wrap_key(self):
        """An active AES key with the Wrap Key bit, owned by alice (created on first use)."""
        if self._wk is None:
            c = H.Client(self.server, "alice", None, (1, 2))
            r = c.one(F.create_item())
            if r["status"] == "SUCCESS":
                self._wk = r["payload"]["uid"]
                c.one({"op": "Activate", "uid": self._wk})
        return self._wk

    def read_target(self, s):
        """Read-only requests on the object under test (plain and wrapped Get, attribute reads),
        alone or batched with a committing operation on ANOTHER object: none of them may change
        what later reads return."""
        if not self.targets:
            return
        t = self.targets[s["i"] % len(self.targets)]
        c = H.Client(self.server, "alice", None, (1, 2))
        mode = s.get("mode", "get")
        wk = self._wrap_key() if "wrapped" in mode else None
        get = {"op": "Get", "uid": t}
        if wk is not None:
            get["wrap"] = {"eki": {"uid": wk, "params": {"mode": "NIST_KEY_WRAP"}}, "enc": "NO_ENCODING"}
        items = [get]
        if mode.startswith("attrs"):
            items = [{"op": "GetAttributes", "uid": t}, {"op": "GetAttributeList", "uid": t}]
        if mode.endswith("+commit"):
            items.append(F.create_item(extra_attrs=[["Name", "rt-%d" % self.counts.get("read-target", 0), 0]]))
        if mode.endswith("+get"):
            items.append({"op": "Get", "uid": t})
        r = c.request(items, cont="CONTINUE") if len(items) > 1 else c.request(items)
        self.counts["read-target"] = self.counts.get("read-target", 0) + 1
        key = "other:read-target:%s" % mode
        self.counts[key] = self.counts.get(key, 0) + 1

    def _cli(self, who="alice"):
        return H.Client(self.server, who, None, self.v)

    def _extra(self, share):
        if not share:
            return [["Name", "other-%d" % len(self.uids), 0]]
        seen, out = set(), []
        for name, val in self.shared:
            if self.v >= (2, 0) and name in seen:
                continue
            seen.add(name)
            out.append([name, val])
        return harness_attrs(out)

    def _note(self, k, r):
        ok = r is not None and r.get("status") == "SUCCESS"
        key = "other:%s:%s" % (k, "ok" if ok else "failed")
        self.counts[key] = self.counts.get(key, 0) + 1
        return ok

    def make(self, n):
        for _ in range(n):
            self.step({"k": "create", "who": "alice", "share": False})

    def step(self, s, restarts=None):
        k = s["k"]
        if k == "tick":
            H.CLOCK.tick(s["n"])
            return
        if k == "restart":
            self.server.restart()
            self.counts["restart"] = self.counts.get("restart", 0) + 1
            return
        if k == "create":
            r = self._cli(s.get("who", "alice")).one(F.create_item(extra_attrs=self._extra(s.get("share"))))
            if self._note(k, r):
                self.uids.append(r["payload"]["uid"])
            return
        if k == "register":
            r = self._cli().one(F.register_item(s["t"], label="o%d" % len(self.uids),
                                                extra_attrs=self._extra(s.get("share"))))
            if self._note(k, r):
                self.uids.append(r["payload"]["uid"])
            return
        if k == "locate":
            self._note(k, self._cli().one({"op": "Locate"}))
            return
        if k == "rich-then-destroy":
            # an object carrying names, groups and application specific information (its own and,
            # when asked, the target's values) is registered and destroyed again at once
            extra = [["Name", "gone-%d" % len(self.uids), 0], ["Object Group", "gone-group", 0],
                     ["Application Specific Information", {"ns": "gone-ns", "data": "gone-data"}, 0]]
            if s.get("share"):
                extra = self._extra(True) or extra
            r = self._cli().one(F.register_item(s.get("t", "SymmetricKey"), label="gone",
                                                extra_attrs=extra))
            if self._note("rich", r):
                self._note("rich-destroy", self._cli().one({"op": "Destroy",
                                                           "uid": r["payload"]["uid"]}))
            return
        if k == "read-target":
            self.read_target(s)
            return
        if not self.uids:
            return
        u = self.uids[s["i"] % len(self.uids)]
        cli = self._cli()
        if k == "destroy":
            r = cli.one({"op": "Destroy", "uid": u})
        elif k == "activate":
            r = cli.one({"op": "Activate", "uid": u})
        elif k == "revoke":
            r = cli.one({"op": "Revoke", "uid": u, "code": "KEY_COMPROMISE"})
        elif k == "set":
            r = cli.one({"op": "SetAttribute", "uid": u, "new": ["Sensitive", s["val"]]})
        elif k == "modify":
            val = s["val"]
            if s["attr"] == "Application Specific Information":
                val = {"ns": val, "data": val}
            if self.v >= (2, 0):
                r = cli.one({"op": "ModifyAttribute", "uid": u, "cur": [s["attr"], val], "new": [s["attr"], val]})
            else:
                r = cli.one({"op": "ModifyAttribute", "uid": u, "attr": [s["attr"], val, 0]})
        elif k == "delete":
            if self.v >= (2, 0):
                r = cli.one({"op": "DeleteAttribute", "uid": u, "ref": {"name": s["attr"]}})
            else:
                r = cli.one({"op": "DeleteAttribute", "uid": u, "name": s["attr"], "index": s["index"]})
        else:
            raise core.HarnessError("unknown step %r" % (s,))
        self._note(k, r)


# ============================================================================= key pair oracle
def keypair_consistent(pub, priv, length):
    """(ok, text).  Uses the `cryptography` package only (independent of kmip)."""
    from cryptography.hazmat.primitives import serialization as ser
    try:
        sk = ser.load_der_private_key(bytes.fromhex(priv["value"]), password=None)
    except Exception as e:
        return False, "private key (%s) does not parse: %s" % (priv.get("fmt"), e)
    try:
        pk = ser.load_der_public_key(bytes.fromhex(pub["value"]))
    except Exception as e:
        return False, "public key (%s) does not parse: %s" % (pub.get("fmt"), e)
    a, b = sk.public_key().public_numbers(), pk.public_numbers()
    if (a.n, a.e) != (b.n, b.e):
        return False, "public key does not belong to the private key"
    if sk.key_size != length:
        return False, "modulus has %d bits, requested %d" % (sk.key_size, length)
    return True, ""


# ============================================================================= one case
def features(spec):
    """Labels of what the case contains (for classes / non-triviality)."""
    f = []
    counts = group_by_name(spec.get("attrs", []) + spec.get("pub", []) + spec.get("priv", []))
    if any(n in counts for n in MULTI):
        f.append("multivalued")
    if spec.get("obj", {}).get("wrap") is not None:
        f.append("wrapping-data")
    if tuple(spec["v"]) != (1, 2):
        f.append("non-default-version")
    return f


def run_case(spec):
    MASK_SHAPE[0] = spec.get("mshape", 0)
    """-> dict(buckets, classes, nontrivial, status, bumps)."""
    v = tuple(spec["v"])
    path = spec["path"]
    how = spec["how"]
    kind = spec["obj"]["type"] if how == "register" else how
    buckets, classes, bumps = [], [], {}
    classes += ["path:" + path, "how:" + how, "v:%d.%d" % v, "cell:%s/%s" % (kind, path)]
    feats = features(spec)
    H.CLOCK.now = T0
    server = H.Server(policies=policies())
    drv = None
    status = "accepted"
    restarts = 0
    try:
        others = Others(server, v, spec)
        others.make(spec.get("pre", 0))
        # history of the store BEFORE the object under test exists: other objects (also with the
        # same multi-valued attribute values) created, changed, destroyed - in particular the
        # newest one destroyed right before - and restarts
        for s in spec.get("before", []):
            others.step(s)
        if spec.get("before"):
            classes.append("store-has-history-before-target")
        base = None
        if how == "derive":
            r = H.Client(server, "alice", None, (1, 2)).one(
                F.register_item("SymmetricKey", label="base", bits=spec["derive"]["base_len"] * 8))
            if r["status"] != "SUCCESS":
                # a fixture key that cannot be registered: nothing to judge here, counted as not stored
                classes.append("status:derivation-base-not-registered")
                return {"buckets": [], "classes": classes, "nontrivial": False, "status": "refused",
                        "bumps": bumps}
            base = r["payload"]["uid"]
        drv = DRIVERS[path](server, v)
        out = drv.derive(spec, base) if how == "derive" else getattr(drv, how)(spec)
        t_store = H.CLOCK.now
        if out.kind != "ok":
            status = classify_refusal(out, drv, "store", buckets, classes, spec)
            return {"buckets": dedup(buckets), "classes": classes, "nontrivial": False, "status": status,
                    "bumps": bumps}
        entries = out.data
        for e in entries:
            e["t_store"] = t_store
            e["intrinsic"] = {}
            if how == "register":
                o = spec["obj"]
                e["intrinsic"] = {k: o[k] for k in ("alg", "len", "ctype") if k in o and o["type"] != "SecretData"}
            else:
                e["intrinsic"] = {"alg": spec["alg"], "len": spec["len"]}
                if e["otype"] == "SecretData":
                    e["intrinsic"] = {}
            if not isinstance(e["uid"], str) or not e["uid"]:
                buckets.append(("%s|store|no-identifier-returned" % PID, repr(e["uid"])))
        if any(b for b in buckets):
            return {"buckets": dedup(buckets), "classes": classes, "nontrivial": False, "status": "broken",
                    "bumps": bumps}
        # first reading: immediately
        others.targets = [e["uid"] for e in entries]
        first = {e["uid"]: read_all(drv, e, spec) for e in entries}
        for s in spec.get("inter", []):
            others.step(s)
        second = {e["uid"]: read_all(drv, e, spec) for e in entries}
        for s in spec.get("again", []):
            others.step(s)
        third = {e["uid"]: read_all(drv, e, spec) for e in entries}
        restarts = others.counts.get("restart", 0)
        for k2, n in others.counts.items():
            bumps[k2] = bumps.get(k2, 0) + n
        # ---- judge
        for e in entries:
            label = "%s %s via %s under %d.%d" % (how, e["otype"], path, v[0], v[1])
            for tag, rd in (("first", first[e["uid"]]), ("second", second[e["uid"]]), ("third", third[e["uid"]])):
                judge_reading(spec, e, rd, drv, buckets, classes, "%s [%s read]" % (label, tag))
            for name in ("get", "attrs", "names"):
                a, b, c = first[e["uid"]][name], second[e["uid"]][name], third[e["uid"]][name]
                if a is None or b is None or c is None:
                    continue
                if not (a.plain() == b.plain() == c.plain()):
                    which = "after-restart" if restarts else "over-time"
                    buckets.append(("%s|stability|%s|changed-%s" % (PID, name, which),
                                    "%s: %s\n then %s\n then %s" % (label, short(a.plain(), 300),
                                                                   short(b.plain(), 300), short(c.plain(), 300))))
        if how == "keypair":
            pub = second[entries[0]["uid"]]["get"]
            priv = second[entries[1]["uid"]]["get"]
            if pub is not None and priv is not None and pub.kind == "ok" and priv.kind == "ok" \
                    and pub.data["secret"] and priv.data["secret"]:
                ok, why = keypair_consistent(pub.data["secret"], priv.data["secret"], spec["len"])
                classes.append("keypair-consistency-checked")
                if not ok:
                    buckets.append(("%s|keypair|inconsistent" % PID, why))
    finally:
        if drv is not None:
            drv.close()
        server.close()
    if restarts:
        feats.append("restart")
    classes += ["feat:" + f for f in feats] + ["restarts:%d" % restarts, "status:" + status]
    classes.append("judged:%s/%s" % (kind, path))
    return {"buckets": dedup(buckets), "classes": classes, "nontrivial": bool(feats), "status": status,
            "bumps": bumps}


def dedup(buckets):
    seen = {}
    for k, d in buckets:
        seen.setdefault(k, d)
    return list(seen.items())


def classify_refusal(out, drv, phase, buckets, classes, spec):
    """The request that stores the object was not carried out."""
    if out.kind == "refused":
        classes.append("status:refused-by-client-library")
        return "refused"
    if out.kind == "fail":
        if out.gf:
            exc = drv.internal[-1] if drv.internal else None
            site = "%s@%s" % (type(exc).__name__, core.exc_site(exc)) if exc is not None else "?"
            classes.append("status:general-failure")
            classes.append("gf:" + site)
            return "general-failure"
        msg = core.norm_msg(out.message or "")
        nn = len(group_by_name(spec["attrs"]).get("Name", []))
        if drv.path == "pie" and spec["how"] == "register" and "index missing" in (out.message or "") \
                and nn > 1 and drv.v < (2, 0):
            buckets.append(("%s|pie|register|several-names|refused-index-missing" % PID,
                            "ProxyKmipClient.register of an object with %d names: %s" % (nn, out.message)))
            return "refused"
        classes.append("status:refused")
        classes.append("refused:%s:%s" % (out.reason, msg))
        return "refused"
    # exception out of the client / server while storing
    e = out.exc
    buckets.append((core.exc_bucket(PID, phase + "|error", e),
                    "%s\n%s" % (out.message or "", "".join(traceback.format_exception(type(e), e, e.__traceback__))[-1500:])))
    return "error"


def read_all(drv, e, spec):
    return {"get": drv.get(e["uid"]), "attrs": drv.get_attributes(e["uid"]),
            "names": drv.get_attribute_list(e["uid"])}


def judge_reading(spec, e, rd, drv, buckets, classes, label):
    how = spec["how"]
    # ---- Get
    g = rd["get"]
    if bad_read(g, "get", drv, buckets, classes, label):
        pass
    else:
        data = g.data
        if data.get("uid") != e["uid"]:
            buckets.append(("%s|get|identifier|changed" % PID, "%s: asked %r got %r" % (label, e["uid"], data.get("uid"))))
        if data.get("otype") is not None and data["otype"] != e["otype"]:
            buckets.append(("%s|get|object-type|changed" % PID, "%s: %r vs %r" % (label, e["otype"], data["otype"])))
        sec = data.get("secret")
        if how == "register":
            exp = expected_secret(spec["obj"])
            if drv.path == "pie" and exp["type"] == "SecretData":
                exp.update(fmt="OPAQUE", alg=None, len=None)    # the pie model has no such fields
            judge_secret(exp, sec, "get", buckets, label)
        else:
            judge_generated(spec, e, sec, buckets, label)
    # ---- GetAttributes
    a = rd["attrs"]
    attrs = None
    if a is not None and not bad_read(a, "getattributes", drv, buckets, classes, label):
        attrs = a.data["attrs"]
        if a.data.get("uid") != e["uid"]:
            buckets.append(("%s|getattributes|identifier|changed" % PID, label))
        judge_attributes(e, attrs, drv.v, buckets, label, drv.path)
    # ---- GetAttributeList
    n = rd["names"]
    if n is not None and not bad_read(n, "getattributelist", drv, buckets, classes, label):
        judge_list(e, n.data, attrs, drv.v, buckets, label)


def bad_read(out, phase, drv, buckets, classes, label):
    if out.kind == "ok":
        return False
    if out.kind == "fail":
        if out.gf:
            classes.append("read-general-failure:" + phase)
        else:
            buckets.append(("%s|%s|stored-object-not-readable|%s" % (PID, phase, out.reason),
                            "%s: %s" % (label, out.message)))
        return True
    if out.kind == "refused":
        classes.append("read-refused-by-client:" + phase)
        return True
    e = out.exc
    buckets.append((core.exc_bucket(PID, phase + "|client-error", e),
                    "%s\n%s" % (label, "".join(traceback.format_exception(type(e), e, e.__traceback__))[-1500:])))
    return True


def judge_generated(spec, e, sec, buckets, label):
    """Create / CreateKeyPair / DeriveKey: the value is the server's; its shape is the request's."""
    if sec is None:
        buckets.append(("%s|get|no-object-in-response" % PID, label))
        return
    K = "%s|get|generated|" % PID
    if sec.get("type") != e["otype"]:
        buckets.append((K + "type", "%s: %r" % (label, sec.get("type"))))
        return
    val = bytes.fromhex(sec.get("value") or "")
    if e["otype"] == "SecretData":
        if len(val) * 8 != spec["len"]:
            buckets.append((K + "value-length", "%s: %d bytes for %d bits" % (label, len(val), spec["len"])))
        return
    if sec.get("alg") != spec["alg"]:
        buckets.append((K + "algorithm", "%s: requested %s, object has %s" % (label, spec["alg"], sec.get("alg"))))
    if sec.get("len") != spec["len"]:
        buckets.append((K + "length", "%s: requested %s, object has %s" % (label, spec["len"], sec.get("len"))))
    if sec.get("wrap") is not None:
        buckets.append((K + "wrapping-data-invented", label))
    if e["otype"] == "SymmetricKey":
        if len(val) * 8 != spec["len"]:
            buckets.append((K + "value-length", "%s: %d bytes for %d bits" % (label, len(val), spec["len"])))
        if sec.get("fmt") != "RAW":
            buckets.append((K + "format", "%s: %s" % (label, sec.get("fmt"))))
