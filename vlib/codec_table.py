"""Declarative value table for every encodable class of kmip.core (used by C01, C02-A, C16).

One row per class: constructor fields, each with a value kind, required/optional status and the
KMIP version interval in which the field exists (read from the kmip_version branches of the
class's read()/write()).  From a row the module derives

    strategy_for(name, version, over_specified=False)  Hypothesis strategy of JSON-able specs
        {"cls": name, "v": [maj, min], "fields": {...}}   (bytes as hex strings, enumeration
        members by NAME, nested structures as nested specs {"cls":..., "fields":...})
    build(spec)                 -> library object
    encode(obj, version)        -> bytes
    decode(name, data, version, hint=None, exact=True) -> library object

A field is *required* (req=True) when its absence makes write() raise; req="reader" marks a field
the writer tolerates missing while the reader demands it (a confirmed library defect family): the
bulk generator always supplies it and only the row's "drop_reader_req" probe omits it.

Confirmed defects are excluded from the bulk generator by construction; each row lists `probes`
(named generator paths, taken with small probability and only at top level) that still reach them.
"""
import enum as _enum
import importlib

from hypothesis import strategies as st

from kmip.core import enums
from kmip.core import utils as _kutils

V10, V11, V12, V13, V14, V20 = (1, 0), (1, 1), (1, 2), (1, 3), (1, 4), (2, 0)
VERSIONS = [V10, V11, V12, V13, V14, V20]


def kmip_version(v):
    return enums.KMIPVersion(float("%d.%d" % (v[0], v[1])))


class CodecTrailingBytes(Exception):
    """decode() did not consume the input exactly."""


# ------------------------------------------------------------------ kinds
class Kind(object):
    composite = False


class Text(Kind):
    def __init__(self, min_len=0):
        self.min_len = min_len      # bulk-only restriction (a probe lifts it)


class Bytes(Kind):
    pass


class Int(Kind):
    pass


class Long(Kind):
    pass


class Big(Kind):
    pass


class Ivl(Kind):
    pass


class Date(Kind):
    pass


class Bool(Kind):
    pass


class Enum(Kind):
    def __init__(self, name, members=None):
        self.name = name
        self.members = members


class Mask(Kind):
    def __init__(self, name):
        self.name = name


class Obj(Kind):
    composite = True

    def __init__(self, row, **fixed):
        self.row = row
        self.fixed = fixed      # field name -> fixed JSON value placed in the nested spec


class Lst(Kind):
    composite = True

    def __init__(self, item, lo=0, hi=3):
        self.item = item
        self.lo = lo
        self.hi = hi


class Var(Kind):
    """Kind chosen from the already drawn sibling fields: fn(fields_spec, v, ctx) -> Kind|None."""
    composite = True

    def __init__(self, fn):
        self.fn = fn


class AttrName(Kind):
    """Attribute name text: free ASCII text or a known name below KMIP 2.0; under 2.0 (where
    names travel as tag enumerations) only names the name<->tag table knows."""


class AttrVal(Kind):
    """A tagged attribute value as carried by KMIP 2.0 Attributes/CurrentAttribute/NewAttribute."""
    composite = True


class Stream(Kind):
    """Opaque structure content (BytearrayStream) - a sequence of well formed TTLV items."""


class F(object):
    def __init__(self, name, kind, req=False, since=V10, until=V20, meta=False, attr=None,
                 post=False, conv=False, skip_ctx=None, min20=None, req_since=None):
        self.name = name
        self.kind = kind
        self.req = req              # False | True | "reader"
        self.since = since
        self.until = until
        self.meta = meta            # constructor argument also needed to build the empty reader
        self.attr = attr or name    # attribute name on the object (for mismatch naming)
        self.post = post            # set by attribute assignment after construction
        self.conv = conv            # under KMIP 2.0 the value is converted to an Attributes struct
        self.skip_ctx = skip_ctx    # never present when this context flag is set
        self.min20 = min20          # list minimum size under KMIP 2.0 (writer raises below it)
        self.req_since = req_since  # `req` applies from this version on only

    def exists(self, v):
        return tuple(self.since) <= tuple(v) <= tuple(self.until)


class Row(object):
    def __init__(self, name, path, fields, since=V10, until=V20, group="object", fix=None,
                 abstract=False, probes=(), weight=1):
        self.name = name
        self.path = path
        self.fields = fields
        self.since = since
        self.until = until
        self.group = group
        self.fix = fix              # fix(fields_spec, v, ctx) -> None, enforces cross-field rules
        self.abstract = abstract
        self.probes = tuple(probes)
        self.weight = weight
        self._cls = None

    @property
    def cls(self):
        if self._cls is None:
            mod, qual = self.path.split(":")
            c = importlib.import_module(mod)
            for part in qual.split("."):
                c = getattr(c, part)
            self._cls = c
        return self._cls

    def exists(self, v):
        return tuple(self.since) <= tuple(v) <= tuple(self.until)

    def versions(self):
        return [v for v in VERSIONS if self.exists(v)]

    def field(self, name):
        for f in self.fields:
            if f.name == name:
                return f
        raise KeyError(name)


ROWS = {}

# named generator paths that reach confirmed defects; everything they produce is excluded from
# the bulk generator by construction (also where the same field kind occurs nested)
PROBES = {
    "nonascii": "mostly non-ASCII text on the TextString primitive (elsewhere one text leaf in four)",
    "interval_max": "Interval value 2**32 (accepted by validate(), rejected by write())",
    "drop_reader_req": "fields the writer tolerates missing while the reader demands them / "
                       "reads them back as a different value (always supplied in bulk)",
    "empty_list": "empty attribute list of Template (writer emits it, reader demands one item)",
    "attr20_undecodable": "KMIP 2.0 attribute values the by-tag factory cannot create "
                          "(Certificate Type, Always Sensitive, Extractable, Never Extractable, "
                          "Original Creation Date); left out of every 2.0 attribute set",
    "unregistered_op": "batch items carrying payload classes the message factories do not "
                       "register (Archive, Cancel, GetUsageAllocation, ObtainLease, Poll, Recover)",
    "empty_text": "empty unique identifier of GetResponsePayload (write() reports it missing)",
    "correlation_value": "ResponseHeader.server_correlation_value (never written by write())",
}


def _row(name, path, fields, **kw):
    ROWS[name] = Row(name, path, fields, **kw)


# ------------------------------------------------------------------ enumerations usable on the wire
INT_ENUMS = sorted(
    n for n, c in vars(enums).items()
    if isinstance(c, type) and issubclass(c, _enum.Enum) and len(c) > 0
    and all(type(m.value) is int and 0 <= m.value < 2 ** 32 for m in c))
MASK_ENUMS = ("CryptographicUsageMask", "ProtectionStorageMask", "StorageStatusMask")


def enum_members(name):
    return [m.name for m in getattr(enums, name)]


# ------------------------------------------------------------------ attribute catalogue
# name -> (first version, value row, fixed fields of the value spec, tag NAME under 2.0,
#          by_enum: create_attribute_value_by_enum can build the reader (else 2.0 decode raises))
class A(object):
    def __init__(self, name, since, row, tag, fixed=None, by_enum=True, in20=True):
        self.name = name
        self.since = since
        self.row = row
        self.tag = tag
        self.fixed = fixed or {}
        self.by_enum = by_enum      # False: confirmed defect (2.0 decode raises)
        self.in20 = in20            # False: not an attribute under 2.0 (writer refuses; legit)


ATTRS = [
    A("Unique Identifier", V10, "UniqueIdentifier", "UNIQUE_IDENTIFIER",
      fixed={"tag": "UNIQUE_IDENTIFIER"}),
    A("Name", V10, "Name", "NAME"),
    A("Object Type", V10, "ObjectType", "OBJECT_TYPE"),
    A("Cryptographic Algorithm", V10, "CryptographicAlgorithm", "CRYPTOGRAPHIC_ALGORITHM"),
    A("Cryptographic Length", V10, "CryptographicLength", "CRYPTOGRAPHIC_LENGTH"),
    A("Cryptographic Parameters", V10, "CryptographicParameters", "CRYPTOGRAPHIC_PARAMETERS"),
    A("Certificate Type", V10, "Enumeration", "CERTIFICATE_TYPE",
      fixed={"enum": "CertificateType"}, by_enum=False),
    A("Certificate Length", V11, "Integer", "CERTIFICATE_LENGTH"),
    A("Digest", V10, "Digest", "DIGEST"),
    A("Operation Policy Name", V10, "OperationPolicyName", "OPERATION_POLICY_NAME", in20=False),
    A("Cryptographic Usage Mask", V10, "CryptographicUsageMask", "CRYPTOGRAPHIC_USAGE_MASK"),
    A("Lease Time", V10, "Interval", "LEASE_TIME"),
    A("State", V10, "State", "STATE"),
    A("Initial Date", V10, "DateTime", "INITIAL_DATE"),
    A("Activation Date", V10, "DateTime", "ACTIVATION_DATE"),
    A("Process Start Date", V10, "DateTime", "PROCESS_START_DATE"),
    A("Protect Stop Date", V10, "DateTime", "PROTECT_STOP_DATE"),
    A("Deactivation Date", V10, "DateTime", "DEACTIVATION_DATE"),
    A("Destroy Date", V10, "DateTime", "DESTROY_DATE"),
    A("Compromise Occurrence Date", V10, "DateTime", "COMPROMISE_OCCURRENCE_DATE"),
    A("Compromise Date", V10, "DateTime", "COMPROMISE_DATE"),
    A("Archive Date", V10, "DateTime", "ARCHIVE_DATE"),
    A("Last Change Date", V10, "DateTime", "LAST_CHANGE_DATE"),
    A("Original Creation Date", V12, "DateTime", "ORIGINAL_CREATION_DATE", by_enum=False),
    A("Object Group", V10, "TextString", "OBJECT_GROUP"),
    A("Fresh", V11, "Boolean", "FRESH"),
    A("Application Specific Information", V10, "ApplicationSpecificInformation",
      "APPLICATION_SPECIFIC_INFORMATION"),
    A("Contact Information", V10, "ContactInformation", "CONTACT_INFORMATION"),
    A("Sensitive", V14, "Boolean", "SENSITIVE"),
    A("Always Sensitive", V14, "Boolean", "ALWAYS_SENSITIVE", by_enum=False),
    A("Extractable", V14, "Boolean", "EXTRACTABLE", by_enum=False),
    A("Never Extractable", V14, "Boolean", "NEVER_EXTRACTABLE", by_enum=False),
    A("Custom Attribute", V10, "CustomAttribute", None, in20=False),
    A("x-custom", V10, "CustomAttribute", None, in20=False),
    A("x-ID 7", V10, "CustomAttribute", None, in20=False),
]
ATTR_BY_NAME = {a.name: a for a in ATTRS}
# every name the library's name<->tag table knows (valid attribute *references* under 2.0)
TABLE_NAMES = [n for n, _t in enums.attribute_name_tag_table]

PRIM_ROWS = ("Integer", "LongInteger", "BigInteger", "Enumeration", "Boolean", "TextString",
             "ByteString", "DateTime", "Interval")


def attr_names_for(v, ctx):
    """Names usable as Attribute.attribute_name in this version/context (bulk-safe)."""
    out = []
    for a in ATTRS:
        if tuple(a.since) > tuple(v) and "over" not in ctx:
            continue
        if "conv20" in ctx:
            if not a.in20 or a.tag is None:
                continue
            if not a.by_enum and "probe:attr20_undecodable" not in ctx:
                continue
        out.append(a.name)
    return out


def attr_value_kind(name, tagged):
    a = ATTR_BY_NAME.get(name)
    if a is None:
        return None
    fixed = dict(a.fixed)
    if tagged and a.row in PRIM_ROWS:
        fixed["tag"] = a.tag
    return Obj(a.row, **fixed)


def _attribute_value_var(fields, v, ctx):
    nm = fields.get("attribute_name")
    if not isinstance(nm, dict):
        return None
    return attr_value_kind(nm.get("fields", {}).get("value"), tagged=False)


# ------------------------------------------------------------------ selectors for variant fields
CREDENTIAL_ROWS = {"USERNAME_AND_PASSWORD": "UsernamePasswordCredential",
                   "DEVICE": "DeviceCredential", "ATTESTATION": "AttestationCredential"}


def _credential_value_var(fields, v, ctx):
    row = CREDENTIAL_ROWS.get(fields.get("credential_type"))
    return Obj(row) if row else None


SECRET_ROWS = {"CERTIFICATE": "Certificate", "SYMMETRIC_KEY": "SymmetricKey",
               "PUBLIC_KEY": "PublicKey", "PRIVATE_KEY": "PrivateKey", "SPLIT_KEY": "SplitKey",
               "TEMPLATE": "Template", "SECRET_DATA": "SecretData", "OPAQUE_DATA": "OpaqueObject"}


def _secret_var(fields, v, ctx):
    row = SECRET_ROWS.get(fields.get("object_type"))
    return Obj(row) if row else None


# operation NAME -> payload row stem; ops whose payload class the message factories know
OPS = {"CREATE": "Create", "CREATE_KEY_PAIR": "CreateKeyPair", "REGISTER": "Register",
       "DERIVE_KEY": "DeriveKey", "REKEY": "Rekey", "REKEY_KEY_PAIR": "RekeyKeyPair",
       "LOCATE": "Locate", "CHECK": "Check", "GET": "Get",
       "GET_ATTRIBUTE_LIST": "GetAttributeList", "GET_ATTRIBUTES": "GetAttributes",
       "DELETE_ATTRIBUTE": "DeleteAttribute", "SET_ATTRIBUTE": "SetAttribute",
       "MODIFY_ATTRIBUTE": "ModifyAttribute", "DESTROY": "Destroy", "QUERY": "Query",
       "DISCOVER_VERSIONS": "DiscoverVersions", "ACTIVATE": "Activate", "REVOKE": "Revoke",
       "MAC": "MAC", "ENCRYPT": "Encrypt", "DECRYPT": "Decrypt", "SIGN": "Sign",
       "SIGNATURE_VERIFY": "SignatureVerify"}
# payload classes that exist but are not registered in the factories (message decode raises
# NotImplementedError: confirmed defect family, reached only by the "unregistered_op" probe)
OPS_UNREGISTERED = {"ARCHIVE": "Archive", "CANCEL": "Cancel",
                    "GET_USAGE_ALLOCATION": "GetUsageAllocation", "OBTAIN_LEASE": "ObtainLease",
                    "POLL": "Poll", "RECOVER": "Recover"}


def _op_of(fields):
    op = fields.get("operation")
    if isinstance(op, dict):
        return op.get("fields", {}).get("value")
    return None


def _request_payload_var(fields, v, ctx):
    op = _op_of(fields)
    stem = OPS.get(op) or OPS_UNREGISTERED.get(op)
    return Obj(stem + "RequestPayload") if stem else None


def _response_payload_var(fields, v, ctx):
    op = _op_of(fields)
    stem = OPS.get(op) or OPS_UNREGISTERED.get(op)
    if not stem or stem == "Poll":
        return None
    return Obj(stem + "ResponsePayload")


def ops_for(v, ctx, response=False):
    names = []
    for op, stem in sorted(OPS.items()):
        row = ROWS[stem + ("ResponsePayload" if response else "RequestPayload")]
        if row.exists(v) or "over" in ctx:
            names.append(op)
    if "probe:unregistered_op" in ctx:
        names = sorted(o for o in OPS_UNREGISTERED if not (response and o == "POLL"))
    return names


def _enum_value_var(fields, v, ctx):
    e = fields.get("enum")
    return Enum(e) if e in INT_ENUMS else None


# ------------------------------------------------------------------ cross-field fixes
def _fix_split_key(fields, v, ctx):
    if fields.get("split_key_method") == "POLYNOMIAL_SHARING_PRIME_FIELD" \
            and "prime_field_size" not in fields:
        fields["prime_field_size"] = 257


def _fix_attestation(fields, v, ctx):
    if "attestation_measurement" not in fields and "attestation_assertion" not in fields:
        fields["attestation_assertion"] = "a55e"


def _fix_delete_attribute(fields, v, ctx):
    if tuple(v) >= V20 and "current_attribute" not in fields \
            and "attribute_reference" not in fields:
        fields["attribute_reference"] = {"cls": "AttributeReference", "fields": {
            "vendor_identification": "Acme", "attribute_name": "Name"}}


def _fix_header_version(fields, v, ctx):
    # read() of headers/messages switches to the version carried in the header
    fields["protocol_version"] = {"cls": "ProtocolVersion",
                                  "fields": {"major": v[0], "minor": v[1]}}


def _fix_request_message(fields, v, ctx):
    hdr = fields["request_header"]["fields"]
    _fix_header_version(hdr, v, ctx)
    hdr["batch_count"] = {"cls": "BatchCount", "fields": {"value": len(fields["batch_items"])}}


def _fix_response_message(fields, v, ctx):
    hdr = fields["response_header"]["fields"]
    _fix_header_version(hdr, v, ctx)
    hdr["batch_count"] = {"cls": "BatchCount", "fields": {"value": len(fields["batch_items"])}}


def _fix_response_item(fields, v, ctx):
    # a payload can only be located by the reader when the operation is present
    if "operation" not in fields:
        fields.pop("response_payload", None)


# ------------------------------------------------------------------ rows: primitives
_P = "kmip.core.primitives:"
_TAGS_SMALL = ["DEFAULT", "ACTIVATION_DATE", "CRYPTOGRAPHIC_LENGTH", "UNIQUE_IDENTIFIER",
               "OBJECT_GROUP", "ITERATION_COUNT", "LEASE_TIME", "FRESH", "SALT", "NAME_VALUE",
               "CERTIFICATE_TYPE", "CERTIFICATE_LENGTH", "INITIAL_DATE", "SENSITIVE",
               "ALWAYS_SENSITIVE", "EXTRACTABLE", "NEVER_EXTRACTABLE", "ORIGINAL_CREATION_DATE",
               "DESTROY_DATE", "COMPROMISE_DATE", "COMPROMISE_OCCURRENCE_DATE", "ARCHIVE_DATE",
               "LAST_CHANGE_DATE", "PROCESS_START_DATE", "PROTECT_STOP_DATE",
               "DEACTIVATION_DATE", "PRIME_FIELD_SIZE", "Q"]
_TAG = Enum("Tags", _TAGS_SMALL)

_row("Base", _P + "Base", [], group="primitive", abstract=True)
_row("Struct", _P + "Struct", [], group="primitive", abstract=True)
_row("Integer", _P + "Integer", [F("value", Int()), F("tag", _TAG, meta=True)],
     group="primitive")
_row("LongInteger", _P + "LongInteger", [F("value", Long()), F("tag", _TAG, meta=True)],
     group="primitive")
_row("BigInteger", _P + "BigInteger", [F("value", Big()), F("tag", _TAG, meta=True)],
     group="primitive")
_row("Enumeration", _P + "Enumeration",
     [F("enum", Enum("$ENUMS"), req=True, meta=True), F("value", Var(_enum_value_var), req=True),
      F("tag", _TAG, meta=True)], group="primitive")
_row("Boolean", _P + "Boolean", [F("value", Bool()), F("tag", _TAG, meta=True)],
     group="primitive")
_row("TextString", _P + "TextString", [F("value", Text()), F("tag", _TAG, meta=True)],
     group="primitive", probes=("nonascii",))
_row("ByteString", _P + "ByteString", [F("value", Bytes()), F("tag", _TAG, meta=True)],
     group="primitive")
# DateTime(None) means "now": always supplied so that a spec determines its bytes
_row("DateTime", _P + "DateTime", [F("value", Date(), req=True), F("tag", _TAG, meta=True)],
     group="primitive")
_row("Interval", _P + "Interval", [F("value", Ivl()), F("tag", _TAG, meta=True)],
     group="primitive", probes=("interval_max",))


# ------------------------------------------------------------------ rows: simple wrappers
def _wrap(name, path, kind, req=False, group="attribute", **kw):
    _row(name, path, [F("value", kind, req=req)], group=group, **kw)


_AT = "kmip.core.attributes:"
_OB = "kmip.core.objects:"
_SE = "kmip.core.secrets:"
_MI = "kmip.core.misc:"
_CO = "kmip.core.messages.contents:"
_ME = "kmip.core.messages.messages:"
_PL = "kmip.core.messages.payloads."

_row("UniqueIdentifier", _AT + "UniqueIdentifier",
     [F("value", Text()),
      F("tag", Enum("Tags", ["UNIQUE_IDENTIFIER", "PRIVATE_KEY_UNIQUE_IDENTIFIER",
                             "PUBLIC_KEY_UNIQUE_IDENTIFIER"]), meta=True)], group="attribute")
_wrap("PrivateKeyUniqueIdentifier", _AT + "PrivateKeyUniqueIdentifier", Text())
_wrap("PublicKeyUniqueIdentifier", _AT + "PublicKeyUniqueIdentifier", Text())
_wrap("Name.NameValue", _AT + "Name.NameValue", Text())
_wrap("Name.NameType", _AT + "Name.NameType", Enum("NameType"), req=True)
_row("Name", _AT + "Name", [F("name_value", Obj("Name.NameValue"), req=True),
                            F("name_type", Obj("Name.NameType"), req=True)], group="attribute")
_wrap("ObjectType", _AT + "ObjectType", Enum("ObjectType"), req=True)
_wrap("CryptographicAlgorithm", _AT + "CryptographicAlgorithm", Enum("CryptographicAlgorithm"),
      req=True)
_wrap("CryptographicLength", _AT + "CryptographicLength", Int())
_wrap("HashingAlgorithm", _AT + "HashingAlgorithm", Enum("HashingAlgorithm"))
_row("CryptographicParameters", _AT + "CryptographicParameters", [
    F("block_cipher_mode", Enum("BlockCipherMode")),
    F("padding_method", Enum("PaddingMethod")),
    F("hashing_algorithm", Enum("HashingAlgorithm")),
    F("key_role_type", Enum("KeyRoleType")),
    F("digital_signature_algorithm", Enum("DigitalSignatureAlgorithm")),
    F("cryptographic_algorithm", Enum("CryptographicAlgorithm")),
    F("random_iv", Bool()),
    F("iv_length", Int()),
    F("tag_length", Int()),
    F("fixed_field_length", Int()),
    F("invocation_field_length", Int()),
    F("counter_length", Int()),
    F("initial_counter_value", Int()),
], group="attribute")
_wrap("CertificateType", _AT + "CertificateType", Enum("CertificateType"))
_wrap("DigestValue", _AT + "DigestValue", Bytes())
_row("Digest", _AT + "Digest", [F("hashing_algorithm", Obj("HashingAlgorithm")),
                                F("digest_value", Obj("DigestValue")),
                                F("key_format_type", Obj("KeyFormatType"))], group="attribute")
_wrap("OperationPolicyName", _AT + "OperationPolicyName", Text())
_wrap("CryptographicUsageMask", _AT + "CryptographicUsageMask", Mask("CryptographicUsageMask"))
_wrap("State", _AT + "State", Enum("State"), req=True)
_row("ApplicationSpecificInformation", _AT + "ApplicationSpecificInformation",
     [F("application_namespace", Text(), req=True), F("application_data", Text(), req=True)],
     group="attribute")
_wrap("ContactInformation", _AT + "ContactInformation", Text())
_wrap("CustomAttribute", _AT + "CustomAttribute", Text())
_row("DerivationParameters", _AT + "DerivationParameters", [
    F("cryptographic_parameters", Obj("CryptographicParameters")),
    F("initialization_vector", Bytes()),
    F("derivation_data", Bytes()),
    F("salt", Bytes()),
    F("iteration_count", Int()),
], group="attribute")

# ------------------------------------------------------------------ rows: misc
_wrap("CertificateValue", _MI + "CertificateValue", Bytes(), group="object")
_wrap("Offset", _MI + "Offset", Ivl(), req=True, group="object")
_wrap("QueryFunction", _MI + "QueryFunction", Enum("QueryFunction"), req=True, group="object")
_wrap("VendorIdentification", _MI + "VendorIdentification", Text(), group="object")
_wrap("KeyFormatType", _MI + "KeyFormatType", Enum("KeyFormatType"), group="object")
_row("ServerInformation", _MI + "ServerInformation", [F("data", Stream(), post=True)],
     group="object")

# ------------------------------------------------------------------ rows: message contents
_row("ProtocolVersion", _CO + "ProtocolVersion",
     [F("major", Int(), req=True), F("minor", Int(), req=True)], group="message")
_wrap("Operation", _CO + "Operation", Enum("Operation"), req=True, group="message")
_wrap("MaximumResponseSize", _CO + "MaximumResponseSize", Int(), group="message")
_wrap("UniqueBatchItemID", _CO + "UniqueBatchItemID", Bytes(), group="message")
_wrap("TimeStamp", _CO + "TimeStamp", Date(), req=True, group="message")
_row("Authentication", _CO + "Authentication",
     [F("credentials", Lst(Obj("Credential"), 1, 2), req=True)], group="message")
_wrap("AsynchronousIndicator", _CO + "AsynchronousIndicator", Bool(), req=True, group="message")
_wrap("AsynchronousCorrelationValue", _CO + "AsynchronousCorrelationValue", Bytes(),
      group="message")
_wrap("ResultStatus", _CO + "ResultStatus", Enum("ResultStatus"), req=True, group="message")
_wrap("ResultReason", _CO + "ResultReason", Enum("ResultReason"), req=True, group="message")
_wrap("ResultMessage", _CO + "ResultMessage", Text(), group="message")
_wrap("BatchOrderOption", _CO + "BatchOrderOption", Bool(), req=True, group="message")
_wrap("BatchErrorContinuationOption", _CO + "BatchErrorContinuationOption",
      Enum("BatchErrorContinuationOption"), req=True, group="message")
_wrap("BatchCount", _CO + "BatchCount", Int(), group="message")
_row("MessageExtension", _CO + "MessageExtension", [], group="message", abstract=True)
_wrap("ServerCorrelationValue", _CO + "ServerCorrelationValue", Text(), group="message")
_wrap("KeyCompressionType", _CO + "KeyCompressionType", Enum("KeyCompressionType"), req=True,
      group="message")

# ------------------------------------------------------------------ rows: objects
_wrap("Attribute.AttributeName", _OB + "Attribute.AttributeName", AttrName(), group="object")
_wrap("Attribute.AttributeIndex", _OB + "Attribute.AttributeIndex", Int(), group="object")
_row("Attribute", _OB + "Attribute", [
    F("attribute_name", Obj("Attribute.AttributeName"), req=True),
    # KMIP 2.0 has no attribute index (Attributes carry bare values)
    F("attribute_index", Obj("Attribute.AttributeIndex"), skip_ctx="conv20"),
    F("attribute_value", Var(_attribute_value_var), req=True),
], group="object")
_row("CurrentAttribute", _OB + "CurrentAttribute", [F("attribute", AttrVal(), req=True)],
     since=V20, group="object", probes=("attr20_undecodable",))
_row("NewAttribute", _OB + "NewAttribute", [F("attribute", AttrVal(), req=True)],
     since=V20, group="object", probes=("attr20_undecodable",))
_row("AttributeReference", _OB + "AttributeReference",
     [F("vendor_identification", Text(), req=True), F("attribute_name", Text(), req=True)],
     since=V20, group="object")
_row("Attributes", _OB + "Attributes",
     [F("attributes", Lst(AttrVal(), 0, 4)),
      F("tag", Enum("Tags", ["ATTRIBUTES", "COMMON_ATTRIBUTES", "PRIVATE_KEY_ATTRIBUTES",
                             "PUBLIC_KEY_ATTRIBUTES"]), meta=True)],
     since=V20, group="object", probes=("attr20_undecodable",))
_row("Nonce", _OB + "Nonce", [F("nonce_id", Bytes(), req=True), F("nonce_value", Bytes(), req=True)],
     group="object")
_row("CredentialValue", _OB + "CredentialValue", [], group="object", abstract=True)
_row("UsernamePasswordCredential", _OB + "UsernamePasswordCredential",
     [F("username", Text(), req=True), F("password", Text())], group="object")
_row("DeviceCredential", _OB + "DeviceCredential", [
    F("device_serial_number", Text()), F("password", Text()), F("device_identifier", Text()),
    F("network_identifier", Text()), F("machine_identifier", Text()),
    F("media_identifier", Text())], group="object")
_row("AttestationCredential", _OB + "AttestationCredential", [
    F("nonce", Obj("Nonce"), req=True),
    F("attestation_type", Enum("AttestationType"), req=True),
    F("attestation_measurement", Bytes()),
    F("attestation_assertion", Bytes())], group="object", fix=_fix_attestation)
_row("Credential", _OB + "Credential", [
    F("credential_type", Enum("CredentialType", sorted(CREDENTIAL_ROWS)), req=True),
    F("credential_value", Var(_credential_value_var), req=True)], group="object")
_wrap("KeyBlock.KeyCompressionType", _OB + "KeyBlock.KeyCompressionType",
      Enum("KeyCompressionType"), req=True, group="object")
_wrap("KeyMaterial", _OB + "KeyMaterial", Bytes(), group="object")
_row("KeyMaterialStruct", _OB + "KeyMaterialStruct", [F("data", Stream(), post=True)],
     group="object")
_row("KeyValue", _OB + "KeyValue", [
    F("key_material", Obj("KeyMaterial")),
    F("attributes", Lst(Obj("Attribute"), 0, 2))], group="object")
_row("EncryptionKeyInformation", _OB + "EncryptionKeyInformation", [
    F("unique_identifier", Text(), req=True),
    F("cryptographic_parameters", Obj("CryptographicParameters"))], group="object")
_row("MACSignatureKeyInformation", _OB + "MACSignatureKeyInformation", [
    F("unique_identifier", Text(), req=True),
    F("cryptographic_parameters", Obj("CryptographicParameters"))], group="object")
_row("KeyWrappingData", _OB + "KeyWrappingData", [
    F("wrapping_method", Enum("WrappingMethod"), req=True),
    F("encryption_key_information", Obj("EncryptionKeyInformation")),
    F("mac_signature_key_information", Obj("MACSignatureKeyInformation")),
    F("mac_signature", Bytes()),
    F("iv_counter_nonce", Bytes()),
    F("encoding_option", Enum("EncodingOption"))], group="object")
_row("KeyBlock", _OB + "KeyBlock", [
    F("key_format_type", Obj("KeyFormatType"), req=True),
    F("key_compression_type", Obj("KeyBlock.KeyCompressionType")),
    F("key_value", Obj("KeyValue"), req=True),
    F("cryptographic_algorithm", Obj("CryptographicAlgorithm")),
    F("cryptographic_length", Obj("CryptographicLength")),
    F("key_wrapping_data", Obj("KeyWrappingData"))], group="object")
_row("KeyWrappingSpecification", _OB + "KeyWrappingSpecification", [
    F("wrapping_method", Enum("WrappingMethod"), req=True),
    F("encryption_key_information", Obj("EncryptionKeyInformation")),
    F("mac_signature_key_information", Obj("MACSignatureKeyInformation")),
    F("attribute_names", Lst(Text(), 0, 3)),
    F("encoding_option", Enum("EncodingOption"))], group="object")
_TA_FIELDS = lambda: [
    # names (template references) do not survive the KMIP 2.0 Attributes conversion
    F("names", Lst(Obj("Name"), 0, 2), skip_ctx="conv20"),
    F("attributes", Lst(Obj("Attribute"), 0, 3))]
_row("TemplateAttribute", _OB + "TemplateAttribute", _TA_FIELDS() + [
    F("tag", Enum("Tags", ["TEMPLATE_ATTRIBUTE", "COMMON_TEMPLATE_ATTRIBUTE",
                           "PRIVATE_KEY_TEMPLATE_ATTRIBUTE", "PUBLIC_KEY_TEMPLATE_ATTRIBUTE"]),
      meta=True)], group="object")
_row("CommonTemplateAttribute", _OB + "CommonTemplateAttribute", _TA_FIELDS(), group="object")
_row("PrivateKeyTemplateAttribute", _OB + "PrivateKeyTemplateAttribute", _TA_FIELDS(),
     group="object")
_row("PublicKeyTemplateAttribute", _OB + "PublicKeyTemplateAttribute", _TA_FIELDS(),
     group="object")
_wrap("ExtensionName", _OB + "ExtensionName", Text(), group="object")
_wrap("ExtensionTag", _OB + "ExtensionTag", Int(), group="object")
_wrap("ExtensionType", _OB + "ExtensionType", Int(), group="object")
_row("ExtensionInformation", _OB + "ExtensionInformation", [
    F("extension_name", Obj("ExtensionName")),
    F("extension_tag", Obj("ExtensionTag")),
    F("extension_type", Obj("ExtensionType"))], group="object")
_wrap("Data", _OB + "Data", Bytes(), group="object")
_wrap("MACData", _OB + "MACData", Bytes(), group="object")
_wrap("RevocationReasonCode", _OB + "RevocationReasonCode", Enum("RevocationReasonCode"),
      group="object")
_row("RevocationReason", _OB + "RevocationReason", [
    F("code", Enum("RevocationReasonCode"), attr="revocation_code"),
    F("message", Text(), attr="revocation_message")], group="object")
_row("ObjectDefaults", _OB + "ObjectDefaults", [
    F("object_type", Enum("ObjectType"), req=True),
    F("attributes", Obj("Attributes", tag="ATTRIBUTES"), req=True)], since=V20, group="object")
_row("DefaultsInformation", _OB + "DefaultsInformation", [
    F("object_defaults", Lst(Obj("ObjectDefaults"), 1, 2), req=True)], since=V20, group="object")
_row("RNGParameters", _OB + "RNGParameters", [
    F("rng_algorithm", Enum("RNGAlgorithm"), req=True),
    F("cryptographic_algorithm", Enum("CryptographicAlgorithm")),
    F("cryptographic_length", Int()),
    F("hashing_algorithm", Enum("HashingAlgorithm")),
    F("drbg_algorithm", Enum("DRBGAlgorithm")),
    F("recommended_curve", Enum("RecommendedCurve")),
    F("fips186_variation", Enum("FIPS186Variation")),
    F("prediction_resistance", Bool())], since=V13, group="object")
_row("ProfileInformation", _OB + "ProfileInformation", [
    F("profile_name", Enum("ProfileName"), req=True),
    F("server_uri", Text()),
    F("server_port", Int())], since=V13, group="object")
_row("ValidationInformation", _OB + "ValidationInformation", [
    F("validation_authority_type", Enum("ValidationAuthorityType"), req=True),
    F("validation_authority_country", Text()),
    F("validation_authority_uri", Text()),
    F("validation_version_major", Int(), req=True),
    F("validation_version_minor", Int()),
    F("validation_type", Enum("ValidationType"), req=True),
    F("validation_level", Int(), req=True),
    F("validation_certificate_identifier", Text()),
    F("validation_certificate_uri", Text()),
    F("validation_vendor_uri", Text()),
    F("validation_profiles", Lst(Text(), 0, 3))], since=V13, group="object")
_row("CapabilityInformation", _OB + "CapabilityInformation", [
    F("streaming_capability", Bool()),
    F("asynchronous_capability", Bool()),
    F("attestation_capability", Bool()),
    F("batch_undo_capability", Bool(), since=V14),
    F("batch_continue_capability", Bool(), since=V14),
    F("unwrap_mode", Enum("UnwrapMode")),
    F("destroy_action", Enum("DestroyAction")),
    F("shredding_algorithm", Enum("ShreddingAlgorithm")),
    F("rng_mode", Enum("RNGMode"))], since=V13, group="object")
_row("ProtectionStorageMasks", _OB + "ProtectionStorageMasks", [
    F("protection_storage_masks", Lst(Mask("ProtectionStorageMask"), 0, 3)),
    F("tag", Enum("Tags", ["PROTECTION_STORAGE_MASKS", "COMMON_PROTECTION_STORAGE_MASKS",
                           "PRIVATE_PROTECTION_STORAGE_MASKS",
                           "PUBLIC_PROTECTION_STORAGE_MASKS"]), meta=True)],
     since=V20, group="object")

# ------------------------------------------------------------------ rows: secrets
_row("Certificate", _SE + "Certificate", [
    F("certificate_type", Enum("CertificateType")),
    F("certificate_value", Bytes())], group="secret")
_row("KeyBlockKey", _SE + "KeyBlockKey", [
    F("key_block", Obj("KeyBlock"), req=True),
    F("tag", Enum("Tags", ["SYMMETRIC_KEY", "PUBLIC_KEY", "PRIVATE_KEY", "DEFAULT"]),
      meta=True)], group="secret")
_row("SymmetricKey", _SE + "SymmetricKey", [F("key_block", Obj("KeyBlock"), req=True)],
     group="secret")
_row("PublicKey", _SE + "PublicKey", [F("key_block", Obj("KeyBlock"), req=True)], group="secret")
_row("PrivateKey", _SE + "PrivateKey", [F("key_block", Obj("KeyBlock"), req=True)],
     group="secret")
_row("SplitKey", _SE + "SplitKey", [
    F("split_key_parts", Int(), req=True),
    F("key_part_identifier", Int(), req=True),
    F("split_key_threshold", Int(), req=True),
    F("split_key_method", Enum("SplitKeyMethod"), req=True),
    F("prime_field_size", Big()),
    F("key_block", Obj("KeyBlock"), req=True)], group="secret", fix=_fix_split_key)
# the writer emits an empty Template, the reader demands at least one attribute
_row("Template", _SE + "Template", [F("attributes", Lst(Obj("Attribute"), 1, 3), req=True)],
     group="secret", probes=("empty_list",))
_wrap("SecretData.SecretDataType", _SE + "SecretData.SecretDataType", Enum("SecretDataType"),
      req=True, group="secret")
_row("SecretData", _SE + "SecretData", [
    F("secret_data_type", Obj("SecretData.SecretDataType"), req=True),
    F("key_block", Obj("KeyBlock"), req=True)], group="secret")
_wrap("OpaqueObject.OpaqueDataType", _SE + "OpaqueObject.OpaqueDataType", Enum("OpaqueDataType"),
      req=True, group="secret")
_wrap("OpaqueObject.OpaqueDataValue", _SE + "OpaqueObject.OpaqueDataValue", Bytes(),
      group="secret")
_row("OpaqueObject", _SE + "OpaqueObject", [
    F("opaque_data_type", Obj("OpaqueObject.OpaqueDataType"), req=True),
    F("opaque_data_value", Obj("OpaqueObject.OpaqueDataValue"), req=True)], group="secret")


# ------------------------------------------------------------------ rows: payloads
def _pl(name, module, fields, **kw):
    _row(name, _PL + module + ":" + name, fields, group="payload", **kw)


_UID = lambda req=False: F("unique_identifier", Text(), req=req)
_UIDO = lambda req=False: F("unique_identifier", Obj("UniqueIdentifier", tag="UNIQUE_IDENTIFIER"),
                            req=req)
_TA = lambda name="template_attribute", tag="TEMPLATE_ATTRIBUTE", **kw: \
    F(name, Obj("TemplateAttribute", tag=tag), **kw)
_CP = lambda: F("cryptographic_parameters", Obj("CryptographicParameters"))
_PSM = lambda name, tag: F(name, Obj("ProtectionStorageMasks", tag=tag), since=V20)

_row("RequestPayload", _PL + "base:RequestPayload", [], group="payload", abstract=True)
_row("ResponsePayload", _PL + "base:ResponsePayload", [], group="payload", abstract=True)

_pl("ActivateRequestPayload", "activate", [_UIDO(req="reader")], probes=("drop_reader_req",))
_pl("ActivateResponsePayload", "activate", [_UIDO()])
_pl("ArchiveRequestPayload", "archive", [_UID()])
_pl("ArchiveResponsePayload", "archive", [_UID()])
_pl("CancelRequestPayload", "cancel", [F("asynchronous_correlation_value", Bytes())])
_pl("CancelResponsePayload", "cancel", [F("asynchronous_correlation_value", Bytes()),
                                        F("cancellation_result", Enum("CancellationResult"))])
_CHECK = lambda: [_UID(), F("usage_limits_count", Long()),
                  F("cryptographic_usage_mask", Mask("CryptographicUsageMask")),
                  F("lease_time", Ivl())]
_pl("CheckRequestPayload", "check", _CHECK())
_pl("CheckResponsePayload", "check", _CHECK())
_pl("CreateRequestPayload", "create", [
    F("object_type", Enum("ObjectType"), req=True),
    _TA(req=True, conv=True),
    _PSM("protection_storage_masks", "PROTECTION_STORAGE_MASKS")])
_pl("CreateResponsePayload", "create", [
    F("object_type", Enum("ObjectType"), req=True), _UID(req=True), _TA(until=V14)])
_pl("CreateKeyPairRequestPayload", "create_key_pair", [
    _TA("common_template_attribute", "COMMON_TEMPLATE_ATTRIBUTE", conv=True),
    _TA("private_key_template_attribute", "PRIVATE_KEY_TEMPLATE_ATTRIBUTE", conv=True),
    _TA("public_key_template_attribute", "PUBLIC_KEY_TEMPLATE_ATTRIBUTE", conv=True),
    _PSM("common_protection_storage_masks", "COMMON_PROTECTION_STORAGE_MASKS"),
    _PSM("private_protection_storage_masks", "PRIVATE_PROTECTION_STORAGE_MASKS"),
    _PSM("public_protection_storage_masks", "PUBLIC_PROTECTION_STORAGE_MASKS")])
_CKP_RESP = lambda a, b: [
    F(a, Text(), req=True, attr="private_key_unique_identifier"),
    F(b, Text(), req=True, attr="public_key_unique_identifier"),
    _TA("private_key_template_attribute", "PRIVATE_KEY_TEMPLATE_ATTRIBUTE", until=V14),
    _TA("public_key_template_attribute", "PUBLIC_KEY_TEMPLATE_ATTRIBUTE", until=V14)]
_pl("CreateKeyPairResponsePayload", "create_key_pair",
    _CKP_RESP("private_key_unique_identifier", "public_key_unique_identifier"))
_pl("DecryptRequestPayload", "decrypt", [
    _UID(), _CP(), F("data", Bytes(), req=True), F("iv_counter_nonce", Bytes()),
    F("auth_additional_data", Bytes(), since=V14), F("auth_tag", Bytes(), since=V14)])
_pl("DecryptResponsePayload", "decrypt", [_UID(req=True), F("data", Bytes(), req=True)])
_pl("DeleteAttributeRequestPayload", "delete_attribute", [
    _UID(),
    F("attribute_name", Text(), req=True, until=V14),
    F("attribute_index", Int(), until=V14),
    F("current_attribute", Obj("CurrentAttribute"), since=V20),
    F("attribute_reference", Obj("AttributeReference"), since=V20)], fix=_fix_delete_attribute)
_pl("DeleteAttributeResponsePayload", "delete_attribute", [
    _UID(req=True), F("attribute", Obj("Attribute"), req=True, until=V14)])
_pl("DeriveKeyRequestPayload", "derive_key", [
    F("object_type", Enum("ObjectType"), req=True),
    F("unique_identifiers", Lst(Text(), 1, 3), req=True),
    F("derivation_method", Enum("DerivationMethod"), req=True),
    F("derivation_parameters", Obj("DerivationParameters"), req=True),
    _TA(req=True, conv=True)])
_pl("DeriveKeyResponsePayload", "derive_key", [_UID(req=True), _TA(until=V14)])
_pl("DestroyRequestPayload", "destroy", [_UIDO()])
_pl("DestroyResponsePayload", "destroy", [_UIDO(req=True)])
_pl("DiscoverVersionsRequestPayload", "discover_versions",
    [F("protocol_versions", Lst(Obj("ProtocolVersion"), 0, 4))])
_pl("DiscoverVersionsResponsePayload", "discover_versions",
    [F("protocol_versions", Lst(Obj("ProtocolVersion"), 0, 4))])
_pl("EncryptRequestPayload", "encrypt", [
    _UID(), _CP(), F("data", Bytes(), req=True), F("iv_counter_nonce", Bytes()),
    F("auth_additional_data", Bytes(), since=V14)])
_pl("EncryptResponsePayload", "encrypt", [
    _UID(req=True), F("data", Bytes(), req=True), F("iv_counter_nonce", Bytes()),
    F("auth_tag", Bytes(), since=V14)])
_pl("GetRequestPayload", "get", [
    _UID(), F("key_format_type", Enum("KeyFormatType")),
    F("key_compression_type", Enum("KeyCompressionType")),
    F("key_wrapping_specification", Obj("KeyWrappingSpecification"))])
_pl("GetResponsePayload", "get", [
    F("object_type", Enum("ObjectType", sorted(SECRET_ROWS)), req=True),
    # write() tests the *value* for truth: '' is reported as "missing" (probe empty_text)
    F("unique_identifier", Text(min_len=1), req=True),
    F("secret", Var(_secret_var), req=True)], probes=("empty_text",))
_pl("GetAttributeListRequestPayload", "get_attribute_list", [_UID()])
_pl("GetAttributeListResponsePayload", "get_attribute_list", [
    _UID(req=True), F("attribute_names", Lst(AttrName(), 1, 4), req=True)])
_pl("GetAttributesRequestPayload", "get_attributes", [
    _UID(), F("attribute_names", Lst(AttrName(), 0, 4))])
_pl("GetAttributesResponsePayload", "get_attributes", [
    # KMIP 2.0: the writer refuses an empty attribute list
    _UID(req=True), F("attributes", Lst(Obj("Attribute"), 0, 3), conv=True, min20=1, req=True,
                      req_since=V20)])
_pl("GetUsageAllocationRequestPayload", "get_usage_allocation",
    [_UID(), F("usage_limits_count", Long())])
_pl("GetUsageAllocationResponsePayload", "get_usage_allocation", [_UID()])
_pl("LocateRequestPayload", "locate", [
    F("maximum_items", Int()), F("offset_items", Int()),
    F("storage_status_mask", Mask("StorageStatusMask")),
    F("object_group_member", Enum("ObjectGroupMember")),
    F("attributes", Lst(Obj("Attribute"), 0, 3), conv=True)])
_pl("LocateResponsePayload", "locate", [
    F("located_items", Int()), F("unique_identifiers", Lst(Text(), 0, 4))])
_pl("MACRequestPayload", "mac", [_UIDO(), _CP(), F("data", Obj("Data"), req=True)])
_pl("MACResponsePayload", "mac", [_UIDO(req=True), F("mac_data", Obj("MACData"), req=True)])
_pl("ModifyAttributeRequestPayload", "modify_attribute", [
    _UID(),
    F("attribute", Obj("Attribute"), req=True, until=V14),
    F("current_attribute", Obj("CurrentAttribute"), since=V20),
    F("new_attribute", Obj("NewAttribute"), req=True, since=V20)])
_pl("ModifyAttributeResponsePayload", "modify_attribute", [
    _UID(req=True), F("attribute", Obj("Attribute"), req=True, until=V14)])
_pl("ObtainLeaseRequestPayload", "obtain_lease", [_UID()])
_pl("ObtainLeaseResponsePayload", "obtain_lease", [
    _UID(), F("lease_time", Ivl()), F("last_change_date", Date())])
_pl("PollRequestPayload", "poll", [F("asynchronous_correlation_value", Bytes())])
_pl("QueryRequestPayload", "query",
    [F("query_functions", Lst(Enum("QueryFunction"), 1, 4), req=True)])
_pl("QueryResponsePayload", "query", [
    F("operations", Lst(Enum("Operation"), 0, 3)),
    F("object_types", Lst(Enum("ObjectType"), 0, 3)),
    F("vendor_identification", Text()),
    F("server_information", Obj("ServerInformation")),
    F("application_namespaces", Lst(Text(), 0, 3)),
    F("extension_information", Lst(Obj("ExtensionInformation"), 0, 2), since=V11),
    F("attestation_types", Lst(Enum("AttestationType"), 0, 3), since=V12),
    # the KMIP >= 1.3 list fields: None is read back as [] and compares unequal (confirmed
    # defect); the bulk generator always supplies them (possibly empty), probe "none_lists"
    # leaves them out
    F("rng_parameters", Lst(Obj("RNGParameters"), 0, 2), since=V13, req="reader"),
    F("profile_information", Lst(Obj("ProfileInformation"), 0, 2), since=V13, req="reader"),
    F("validation_information", Lst(Obj("ValidationInformation"), 0, 2), since=V13,
      req="reader"),
    F("capability_information", Lst(Obj("CapabilityInformation"), 0, 2), since=V13,
      req="reader"),
    F("client_registration_methods", Lst(Enum("ClientRegistrationMethod"), 0, 3), since=V13,
      req="reader"),
    F("defaults_information", Obj("DefaultsInformation"), since=V20),
    F("protection_storage_masks", Lst(Mask("ProtectionStorageMask"), 0, 3), since=V20,
      req="reader")], probes=("drop_reader_req",))
_pl("RecoverRequestPayload", "recover", [_UID()])
_pl("RecoverResponsePayload", "recover", [_UID()])
_pl("RegisterRequestPayload", "register", [
    F("object_type", Enum("ObjectType", sorted(SECRET_ROWS)), req=True),
    _TA(req=True, conv=True),
    F("managed_object", Var(_secret_var), req=True),
    _PSM("protection_storage_masks", "PROTECTION_STORAGE_MASKS")])
_pl("RegisterResponsePayload", "register", [_UID(req=True), _TA(until=V14)])
_pl("RekeyRequestPayload", "rekey", [_UID(), F("offset", Ivl()), _TA()])
_pl("RekeyResponsePayload", "rekey", [_UID(req=True), _TA()])
_pl("RekeyKeyPairRequestPayload", "rekey_key_pair", [
    F("private_key_uuid", Obj("PrivateKeyUniqueIdentifier")),
    F("offset", Obj("Offset")),
    F("common_template_attribute", Obj("CommonTemplateAttribute")),
    F("private_key_template_attribute", Obj("PrivateKeyTemplateAttribute")),
    F("public_key_template_attribute", Obj("PublicKeyTemplateAttribute"))])
_pl("RekeyKeyPairResponsePayload", "rekey_key_pair",
    _CKP_RESP("private_key_uuid", "public_key_uuid"))
_pl("RevokeRequestPayload", "revoke", [
    _UIDO(req="reader"),
    F("revocation_reason", Obj("RevocationReason")),
    F("compromise_occurrence_date", Obj("DateTime", tag="COMPROMISE_OCCURRENCE_DATE"))],
    probes=("drop_reader_req",))
_pl("RevokeResponsePayload", "revoke", [_UIDO()])
_pl("SetAttributeRequestPayload", "set_attribute", [
    _UID(), F("new_attribute", Obj("NewAttribute"), req=True)], since=V20)
_pl("SetAttributeResponsePayload", "set_attribute", [_UID(req=True)], since=V20)
_pl("SignRequestPayload", "sign", [_UID(), _CP(), F("data", Bytes(), req=True)])
_pl("SignResponsePayload", "sign", [_UID(req=True), F("signature_data", Bytes(), req=True)])
_pl("SignatureVerifyRequestPayload", "signature_verify", [
    _UID(), _CP(), F("data", Bytes()), F("digested_data", Bytes()),
    F("signature_data", Bytes()), F("correlation_value", Bytes()),
    F("init_indicator", Bool()), F("final_indicator", Bool())])
_pl("SignatureVerifyResponsePayload", "signature_verify", [
    _UID(req=True), F("validity_indicator", Enum("ValidityIndicator"), req=True),
    F("data", Bytes()), F("correlation_value", Bytes())])

# ------------------------------------------------------------------ rows: headers, items, messages
_row("RequestHeader", _ME + "RequestHeader", [
    F("protocol_version", Obj("ProtocolVersion"), req=True),
    F("maximum_response_size", Obj("MaximumResponseSize")),
    F("asynchronous_indicator", Obj("AsynchronousIndicator")),
    F("authentication", Obj("Authentication")),
    F("batch_error_cont_option", Obj("BatchErrorContinuationOption")),
    F("batch_order_option", Obj("BatchOrderOption")),
    F("time_stamp", Obj("TimeStamp")),
    F("batch_count", Obj("BatchCount"), req=True)], group="message", fix=_fix_header_version)
_row("ResponseHeader", _ME + "ResponseHeader", [
    F("protocol_version", Obj("ProtocolVersion"), req=True),
    F("time_stamp", Obj("TimeStamp"), req=True),
    F("batch_count", Obj("BatchCount"), req=True),
    F("server_hashed_password", Bytes(), since=V20),
    # accepted by the constructor and by read(), never emitted by write(): confirmed defect,
    # reached only by probe "correlation_value"
    F("server_correlation_value", Obj("ServerCorrelationValue"), since=V14,
      skip_ctx="noprobe:correlation_value"),
    ], group="message", fix=_fix_header_version, probes=("correlation_value",))
_row("RequestBatchItem", _ME + "RequestBatchItem", [
    F("operation", Obj("Operation"), req=True),
    F("unique_batch_item_id", Obj("UniqueBatchItemID")),
    F("request_payload", Var(_request_payload_var), req=True),
    F("ephemeral", Bool(), since=V20)], group="message", probes=("unregistered_op",), weight=3)
_row("ResponseBatchItem", _ME + "ResponseBatchItem", [
    F("operation", Obj("Operation")),
    F("unique_batch_item_id", Obj("UniqueBatchItemID")),
    F("result_status", Obj("ResultStatus"), req=True),
    F("result_reason", Obj("ResultReason")),
    F("result_message", Obj("ResultMessage")),
    F("async_correlation_value", Obj("AsynchronousCorrelationValue")),
    F("response_payload", Var(_response_payload_var))], group="message",
    fix=_fix_response_item, probes=("unregistered_op",), weight=3)
_row("RequestMessage", _ME + "RequestMessage", [
    F("request_header", Obj("RequestHeader"), req=True),
    F("batch_items", Lst(Obj("RequestBatchItem"), 0, 3), req=True)], group="message",
    fix=_fix_request_message, weight=6)
_row("ResponseMessage", _ME + "ResponseMessage", [
    F("response_header", Obj("ResponseHeader"), req=True),
    F("batch_items", Lst(Obj("ResponseBatchItem"), 0, 3), req=True)], group="message",
    fix=_fix_response_message, weight=6)


# ====================================================================== value strategies
LEN_EDGES = [0, 1, 7, 8, 9, 15, 16, 17]
INT_EDGES = [-2 ** 31, -1, 0, 1, 2 ** 31 - 1]
LONG_EDGES = [-2 ** 63, -2 ** 63 + 1, -1, 0, 1, 2 ** 63 - 1]
IVL_EDGES = [0, 1, 2 ** 32 - 1]
BIG_EDGES = sorted(set(
    [0, -1, 1, 255, 256, -255, -256]
    + [s * (2 ** k) + d for s in (1, -1) for k in (63, 64, 127, 128, 512) for d in (-1, 0, 1)]))
_ASCII = st.characters(min_codepoint=0, max_codepoint=127)
_NONASCII_SAMPLES = ["é", "naïve", "ü" * 8, "€", "key-\U0001f511", "\u0080",
                     # canonically equivalent to a shorter composed form (not in NFC / NFKC):
                     # the codec carries code points, not equivalence classes
                     "Re\u0301sume\u0301", "A\u030angstro\u0308m", "\u212bngstr\u00f6m",
                     "\u1112\u1161\u11ab\u1100\u1173\u11af", "\u2126", "\ufb01le", "e\u0301" * 4,
                     "\u0301", "a\u0323\u0302", "a\u0302\u0323", "\u00a0x", "\u1e9b\u0323"]


def _len_st(depth):
    opts = [st.sampled_from(LEN_EDGES), st.integers(0, 24)]
    if depth <= 1:
        opts.append(st.sampled_from([256, 257, 263, 264, 300]))
    return st.one_of(*opts)


def _text_st(depth, nonascii=False, min_len=0):
    base = _len_st(depth).map(lambda n: max(n, min_len)).flatmap(
        lambda n: st.text(_ASCII, min_size=n, max_size=n))
    wide = [st.sampled_from(_NONASCII_SAMPLES).map(lambda t: t if len(t) >= min_len else t * 8),
            st.text(st.characters(min_codepoint=128, max_codepoint=0x2fff),
                    min_size=max(1, min_len), max_size=max(9, min_len)),
            st.text(st.sampled_from("ae\u0301\u0308\u030a\u0323k-\u212b\u1112\u1161\u11ab"),
                    min_size=max(1, min_len), max_size=max(9, min_len))]
    if nonascii:
        return st.one_of(*(wide + [base]))
    # everywhere else non-ASCII text is one choice in four
    return st.one_of(base, base, base, st.one_of(*wide))


def _bytes_st(depth):
    return _len_st(depth).flatmap(lambda n: st.binary(min_size=n, max_size=n)).map(
        lambda b: b.hex())


def _mask_st(name):
    bits = [m.value for m in getattr(enums, name)]
    allbits = 0
    for b in bits:
        allbits |= b
    return st.one_of(st.just(0), st.sampled_from(bits), st.just(allbits),
                     st.lists(st.sampled_from(bits), min_size=0, max_size=4).map(
                         lambda xs: _or(xs)))


def _or(xs):
    r = 0
    for x in xs:
        r |= x
    return r


def _ttlv_blob():
    """A few well formed TTLV items (vendor content of ServerInformation / struct key material)."""
    from vlib import ttlvref
    item = st.one_of(
        st.tuples(st.just("t"), st.text(_ASCII, max_size=9)),
        st.tuples(st.just("i"), st.sampled_from(INT_EDGES)),
        st.tuples(st.just("b"), st.binary(max_size=9)))

    def enc(items):
        out = b""
        for k, val in items:
            if k == "t":
                out += ttlvref.encode_text(0x42009d, val)
            elif k == "i":
                out += ttlvref.encode_integer(0x420023, val)
            else:
                out += ttlvref.encode_bytes(0x420045, val)
        return out.hex()
    return st.lists(item, min_size=0, max_size=3).map(enc)


def _leaf_strategy(kind, v, ctx, depth):
    if isinstance(kind, Text):
        if kind.min_len and "probe:empty_text" in ctx:
            return st.just("")
        return _text_st(depth, nonascii=("probe:nonascii" in ctx and depth == 0),
                        min_len=kind.min_len)
    if isinstance(kind, Bytes):
        return _bytes_st(depth)
    if isinstance(kind, Int):
        return st.one_of(st.sampled_from(INT_EDGES), st.integers(-2 ** 31, 2 ** 31 - 1))
    if isinstance(kind, (Long, Date)):
        return st.one_of(st.sampled_from(LONG_EDGES), st.integers(-2 ** 63, 2 ** 63 - 1),
                         st.integers(0, 2 ** 32))
    if isinstance(kind, Big):
        return st.one_of(st.sampled_from(BIG_EDGES), st.integers(-2 ** 520, 2 ** 520),
                         st.integers(-2 ** 70, 2 ** 70))
    if isinstance(kind, Ivl):
        edges = list(IVL_EDGES)
        if "probe:interval_max" in ctx and depth == 0:
            return st.just(2 ** 32)
        return st.one_of(st.sampled_from(edges), st.integers(0, 2 ** 32 - 1))
    if isinstance(kind, Bool):
        return st.booleans()
    if isinstance(kind, Enum):
        if kind.name == "$ENUMS":
            return st.sampled_from(INT_ENUMS)
        return st.sampled_from(kind.members or enum_members(kind.name))
    if isinstance(kind, Mask):
        return _mask_st(kind.name)
    if isinstance(kind, Stream):
        return _ttlv_blob()
    if isinstance(kind, AttrName):
        if tuple(v) >= V20:
            names = list(TABLE_NAMES)
            if "probe:custom_name_20" in ctx:
                names = ["x-custom", "x-ID 7"]
            return st.sampled_from(names)
        return st.one_of(st.sampled_from(TABLE_NAMES + ["x-custom"]), _text_st(max(depth, 2)))
    raise TypeError("no leaf strategy for %r" % kind)


# presence modes for the optional fields of one structure
def _presence(draw, n, depth):
    if n == 0:
        return []
    if depth >= 2:
        mode = draw(st.sampled_from(["none", "one", "one", "rand", "all"]))
    else:
        mode = draw(st.sampled_from(["none", "all", "one", "allbut", "rand", "rand"]))
    if mode == "none":
        return [False] * n
    if mode == "all":
        return [True] * n
    if mode == "one":
        i = draw(st.integers(0, n - 1))
        return [j == i for j in range(n)]
    if mode == "allbut":
        i = draw(st.integers(0, n - 1))
        return [j != i for j in range(n)]
    return [draw(st.booleans()) for _ in range(n)]


MAX_COMPOSITE_DEPTH = 5


def _draw_kind(draw, kind, v, ctx, depth, fields):
    """Draw a JSON value for `kind`; returns (value) or raises _Skip when no value is possible."""
    if isinstance(kind, Var):
        k2 = kind.fn(fields, v, ctx)
        if k2 is None:
            raise _Skip()
        return _draw_kind(draw, k2, v, ctx, depth, fields)
    if isinstance(kind, Obj):
        sub = _draw_fields(draw, ROWS[kind.row], v, _nested_ctx(ctx), depth + 1, kind.fixed)
        return {"cls": kind.row, "fields": sub}
    if isinstance(kind, Lst):
        hi = kind.hi if depth <= 1 else min(kind.hi, max(kind.lo, 2))
        sizes = [st.just(kind.lo), st.integers(kind.lo, hi), st.integers(kind.lo, hi)]
        if depth <= 2 and kind.hi > 0:
            sizes.append(st.integers(hi, hi + 4))      # the occasional longer list
        n = draw(st.one_of(*sizes))
        return [_draw_kind(draw, kind.item, v, ctx, depth, fields) for _ in range(n)]
    if isinstance(kind, AttrVal):
        names = attr_names_for(v, ctx | {"conv20"})
        if "probe:attr20_undecodable" in ctx:
            names = [n for n in names if not ATTR_BY_NAME[n].by_enum]
        name = draw(st.sampled_from(names))
        k2 = attr_value_kind(name, tagged=True)
        return _draw_kind(draw, k2, v, ctx, depth, fields)
    return draw(_leaf_strategy(kind, v, ctx, depth))


class _Skip(Exception):
    pass


def _nested_ctx(ctx):
    # probes act at top level only; version/over flags and conv20 propagate
    return frozenset(c for c in ctx if not c.startswith("probe:"))


def _draw_fields(draw, row, v, ctx, depth, fixed=None):
    fixed = fixed or {}
    over = "over" in ctx
    cand = []
    for f in row.fields:
        if f.name in fixed:
            continue
        if f.skip_ctx and f.skip_ctx in ctx:
            continue
        if f.skip_ctx and f.skip_ctx.startswith("noprobe:") \
                and ("probe:" + f.skip_ctx[8:]) not in ctx:
            continue
        inside = f.exists(v)
        if not inside and not over:
            continue
        cand.append((f, inside))
    required = []
    optional = []
    for f, inside in cand:
        is_req = bool(f.req) and inside and (
            f.req_since is None or tuple(v) >= tuple(f.req_since))
        if f.req == "reader" and "probe:drop_reader_req" in ctx:
            is_req = False
        (required if is_req else optional).append(f)
    pres = _presence(draw, len(optional), depth)
    present = set(f.name for f in required)
    for f, p in zip(optional, pres):
        if p and not (f.kind.composite and depth >= MAX_COMPOSITE_DEPTH
                      and not isinstance(f.kind, Var)):
            present.add(f.name)
    if "probe:drop_reader_req" in ctx:
        for f in row.fields:
            if f.req == "reader":
                present.discard(f.name)
    out = {}
    for f in row.fields:
        if f.name in fixed:
            out[f.name] = fixed[f.name]
            continue
        if f.name not in present:
            continue
        fctx = ctx
        if f.conv and tuple(v) >= V20:
            fctx = ctx | {"conv20"}
        kind = f.kind
        if isinstance(kind, Lst):
            lo = kind.lo
            if f.min20 is not None and tuple(v) >= V20:
                lo = max(lo, f.min20)
            if "probe:empty_list" in ctx:
                lo = 0
            if lo != kind.lo:
                kind = Lst(kind.item, lo, max(kind.hi, lo))
            if "probe:empty_list" in ctx:
                kind = Lst(kind.item, 0, 0)
        try:
            if f.name == "operation" and row.name in ("RequestBatchItem", "ResponseBatchItem"):
                ops = ops_for(v, ctx, response=row.name.startswith("Response"))
                out[f.name] = {"cls": "Operation",
                               "fields": {"value": draw(st.sampled_from(ops))}}
            elif f.name == "attribute_name" and row.name == "Attribute":
                out[f.name] = {"cls": "Attribute.AttributeName", "fields": {
                    "value": draw(st.sampled_from(attr_names_for(v, fctx)))}}
            else:
                out[f.name] = _draw_kind(draw, kind, v, fctx, depth, out)
        except _Skip:
            continue
    if row.fix is not None:
        row.fix(out, v, ctx)
    return out


def strategy_for(name, version, over_specified=False, probe_rate=8):
    """Strategy of specs for class `name` under KMIP `version` (tuple/list (maj, min)).
    probe_rate: one case in `probe_rate` takes one of the row's known-defect probe paths
    (0 disables probes)."""
    row = ROWS[name]
    v = tuple(version)
    if row.abstract:
        raise ValueError("%s is abstract (no wire form of its own)" % name)
    if not row.exists(v) and not over_specified:
        raise ValueError("%s does not exist in KMIP %d.%d" % (name, v[0], v[1]))

    @st.composite
    def _spec(draw):
        ctx = set()
        if over_specified:
            ctx.add("over")
        probe = None
        if row.probes and probe_rate and draw(st.integers(0, probe_rate - 1)) == 0:
            probe = draw(st.sampled_from(row.probes))
            ctx.add("probe:" + probe)
        fields = _draw_fields(draw, row, v, frozenset(ctx), 0)
        spec = {"cls": name, "v": [v[0], v[1]], "fields": fields}
        if probe:
            spec["probe"] = probe
        return spec
    return _spec()


# ====================================================================== build / encode / decode
def _build_value(kind, val, v, sibling_spec):
    if isinstance(kind, Var):
        k2 = kind.fn(sibling_spec, v, frozenset())
        if k2 is None:
            # nested spec carries its own class
            if isinstance(val, dict) and "cls" in val:
                return build(val, v)
            raise ValueError("cannot resolve variant field")
        return _build_value(k2, val, v, sibling_spec)
    if isinstance(kind, (Obj, AttrVal)):
        return build(val, v)
    if isinstance(kind, Lst):
        return [_build_value(kind.item, x, v, sibling_spec) for x in val]
    if isinstance(kind, (Bytes,)):
        return bytes.fromhex(val)
    if isinstance(kind, Stream):
        return _kutils.BytearrayStream(bytes.fromhex(val))
    if isinstance(kind, Enum):
        if kind.name == "$ENUMS":
            return getattr(enums, val)
        return getattr(enums, kind.name)[val]
    if isinstance(kind, (Text, AttrName)):
        return val
    if isinstance(kind, Bool):
        return bool(val)
    return val      # ints


def build(spec, v=None):
    """Library object for a spec (nested specs inherit the version of the outermost one)."""
    row = ROWS[spec["cls"]]
    v = tuple(spec.get("v") or v or V10)
    fields = spec.get("fields", {})
    kwargs, post = {}, {}
    for f in row.fields:
        if f.name not in fields:
            continue
        val = _build_value(f.kind, fields[f.name], v, fields)
        (post if f.post else kwargs)[f.name] = val
    obj = row.cls(**kwargs)
    for k, val in post.items():
        setattr(obj, k, val)
    return obj


def encode(obj, version):
    stream = _kutils.BytearrayStream()
    obj.write(stream, kmip_version=kmip_version(version))
    return bytes(stream.buffer)


def reader_kwargs(name, hint=None):
    """Constructor arguments needed to create the empty instance that will read()."""
    row = ROWS[name]
    kw = {}
    fields = (hint or {}).get("fields", {}) if isinstance(hint, dict) else {}
    for f in row.fields:
        if f.meta and f.name in fields:
            kw[f.name] = _build_value(f.kind, fields[f.name], V10, fields)
    return kw


def decode(name, data, version, hint=None, exact=True):
    """Decode `data` as class `name`; `hint` (a spec of the same class) supplies constructor-level
    facts the wire does not carry (tag of a bare primitive, enum class of an Enumeration)."""
    row = ROWS[name]
    obj = row.cls(**reader_kwargs(name, hint))
    stream = _kutils.BytearrayStream(bytes(data))
    obj.read(stream, kmip_version=kmip_version(version))
    if exact and len(stream.peek()) != 0:
        raise CodecTrailingBytes("%d trailing bytes after %s" % (len(stream.peek()), name))
    return obj


def concrete_rows():
    return [r for r in ROWS.values() if not r.abstract]


def pairs(groups=None):
    """All (row name, version) pairs the table defines."""
    out = []
    for r in ROWS.values():
        if r.abstract or (groups and r.group not in groups):
            continue
        for v in r.versions():
            out.append((r.name, v))
    return out
