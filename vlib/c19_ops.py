"""C19: per-operation table.  For each client operation: argument strategy (JSON-able), how the
call is made through ProxyKmipClient ("pie") and KMIPProxy ("proxy"), where the KMIP specification
/ the client documentation say each argument has to appear in the request, a strategy for legal
success payloads, their independent (ttlvref) encoding/decoding, and the extraction table: what
the documented return value must be for a given payload."""
import enum

from hypothesis import strategies as st

from vlib import ttlvref as T
from vlib import c19_wire as W
from vlib import c19_codec as C

# ----------------------------------------------------------------------------- atoms
ASCII = st.characters(min_codepoint=0x20, max_codepoint=0x7E)
WIDE = st.sampled_from(u"abc \u00e9\u00fc\u0142\u03a9\u4e2d\u20ac\U0001f511e\u0301\u030a\u212b")
# one text in five leaves ASCII (2- to 4-byte UTF-8 sequences, combining marks)
text_s = st.one_of(*([st.text(alphabet=ASCII, min_size=1, max_size=20)] * 4
                     + [st.text(alphabet=WIDE, min_size=1, max_size=12)]))
uid_s = st.one_of(st.integers(1, 99999).map(str), text_s)
bytes_s = st.binary(min_size=0, max_size=40).map(lambda b: b.hex())
nbytes_s = st.binary(min_size=1, max_size=40).map(lambda b: b.hex())
MASK_BITS = [1 << i for i in range(20)]
masks_s = st.lists(st.sampled_from(MASK_BITS), min_size=1, max_size=4, unique=True)
alg_s = st.integers(1, 0x1A)
date_s = st.one_of(st.just(0), st.integers(0, 2_000_000_000))


def opt(s):
    return st.one_of(st.none(), s)


def cp_s():
    return st.fixed_dictionaries({}, optional={
        "block_cipher_mode": st.integers(1, 0x12), "padding_method": st.integers(1, 0xA),
        "hashing_algorithm": st.integers(1, 0x11), "key_role_type": st.integers(1, 0x18),
        "digital_signature_algorithm": st.integers(1, 0x10),
        "cryptographic_algorithm": alg_s, "random_iv": st.booleans(),
        "iv_length": st.integers(0, 512), "tag_length": st.integers(0, 64),
        "fixed_field_length": st.integers(0, 128), "invocation_field_length": st.integers(0, 128),
        "counter_length": st.integers(0, 128), "initial_counter_value": st.integers(0, 1000)})


def orbits(ms):
    x = 0
    for m in ms or []:
        x |= m
    return x


def plain(x):
    """JSON-able rendering of what the client handed back (enum -> number, bytes -> hex, library
    primitives -> their value)."""
    if isinstance(x, enum.Enum):
        return x.value
    if x is None or isinstance(x, (bool, int, str)):
        return x
    if isinstance(x, (bytes, bytearray)):
        return bytes(x).hex()
    if isinstance(x, (list, tuple)):
        return [plain(i) for i in x]
    if isinstance(x, dict):
        return {k: plain(i) for k, i in x.items()}
    if hasattr(x, "value"):
        return plain(x.value)
    return {"?": type(x).__name__}


# ----------------------------------------------------------------------------- library builders
def _E():
    from kmip.core import enums
    return enums


def lib_cp_dict(cp):
    """pie API: cryptographic parameters are a dict of enumerations / numbers."""
    if cp is None:
        return None
    E = _E()
    cls = {"block_cipher_mode": E.BlockCipherMode, "padding_method": E.PaddingMethod,
           "hashing_algorithm": E.HashingAlgorithm, "key_role_type": E.KeyRoleType,
           "digital_signature_algorithm": E.DigitalSignatureAlgorithm,
           "cryptographic_algorithm": E.CryptographicAlgorithm}
    return {k: (cls[k](x) if k in cls else x) for k, x in cp.items()}


def lib_cp(cp):
    """proxy API: a CryptographicParameters structure."""
    if cp is None:
        return None
    from kmip.core import attributes
    return attributes.CryptographicParameters(**lib_cp_dict(cp))


def lib_masks(ms):
    E = _E()
    return None if ms is None else [E.CryptographicUsageMask(m) for m in ms]


def lib_attr(name, value, index=None):
    """A kmip.core.objects.Attribute built by the documented AttributeFactory."""
    from kmip.core.factories import attributes as af
    E = _E()
    f = af.AttributeFactory()
    at = {"Cryptographic Algorithm": E.AttributeType.CRYPTOGRAPHIC_ALGORITHM,
          "Cryptographic Length": E.AttributeType.CRYPTOGRAPHIC_LENGTH,
          "Cryptographic Usage Mask": E.AttributeType.CRYPTOGRAPHIC_USAGE_MASK,
          "Operation Policy Name": E.AttributeType.OPERATION_POLICY_NAME,
          "Name": E.AttributeType.NAME, "Object Type": E.AttributeType.OBJECT_TYPE,
          "State": E.AttributeType.STATE, "Object Group": E.AttributeType.OBJECT_GROUP,
          "Activation Date": E.AttributeType.ACTIVATION_DATE,
          "Process Start Date": E.AttributeType.PROCESS_START_DATE,
          "Protect Stop Date": E.AttributeType.PROTECT_STOP_DATE,
          "Deactivation Date": E.AttributeType.DEACTIVATION_DATE}[name]
    if name == "Cryptographic Algorithm":
        value = E.CryptographicAlgorithm(value)
    elif name == "Cryptographic Usage Mask":
        value = lib_masks(value)
    elif name == "Object Type":
        value = E.ObjectType(value)
    elif name == "State":
        value = E.State(value)
    elif name == "Name":
        value = value["v"] if isinstance(value, dict) else value
    return f.create_attribute(at, value, index)


def lib_template(attrs, tag=None):
    from kmip.core import objects as cobj
    E = _E()
    kw = {}
    if tag is not None:
        kw["tag"] = {"common": E.Tags.COMMON_TEMPLATE_ATTRIBUTE,
                     "private": E.Tags.PRIVATE_KEY_TEMPLATE_ATTRIBUTE,
                     "public": E.Tags.PUBLIC_KEY_TEMPLATE_ATTRIBUTE}[tag]
    return cobj.TemplateAttribute(attributes=[lib_attr(*a) for a in attrs], **kw)


# ----------------------------------------------------------------------------- request checks
def chk_val(probs, node, tag, want, what, required=True):
    got = W.val(node, tag)
    if isinstance(got, (bytes, bytearray)):
        got = bytes(got).hex()
    if want is None:
        if got is not None and required:
            probs.append("%s sent as %r although omitted" % (what, got))
        return
    if got != want:
        probs.append("%s: request carries %r under tag 0x%06x, argument was %r" % (what, got, tag, want))


def chk_only(probs, node, allowed, what):
    """No field outside `allowed` tags may appear in the payload (an argument that landed under a
    different tag shows up here)."""
    for c in (node or {}).get("children", []):
        if c["tag"] not in allowed:
            probs.append("%s: unexpected field 0x%06x in the request payload" % (what, c["tag"]))


def find_attrs(attrs, name):
    return [(i, n) for (nm, i, n) in attrs if nm == name]


def chk_attr(probs, attrs, name, want, what, kind=None, superset=False):
    """Attribute `name` must be present with value `want` (None = no demand)."""
    if want is None:
        return
    found = find_attrs(attrs, name)
    if not found:
        probs.append("%s: attribute %r missing from the request" % (what, name))
        return
    got = [C.dec_attr_value(n) for _, n in found]
    if name == "Name":
        got = [g.get("v") if isinstance(g, dict) else g for g in got]
    if superset:
        if not any(isinstance(g, int) and (g & want) == want for g in got):
            probs.append("%s: attribute %r sent as %r, does not include %r" % (what, name, got, want))
    elif want not in got:
        probs.append("%s: attribute %r sent as %r, argument was %r" % (what, name, got, want))


def template_of(pl, v, which="template"):
    tags = {"template": (W.TEMPLATE_ATTRIBUTE, W.ATTRIBUTES),
            "common": (W.COMMON_TEMPLATE_ATTRIBUTE, W.COMMON_ATTRIBUTES),
            "private": (W.PRIVATE_KEY_TEMPLATE_ATTRIBUTE, W.PRIVATE_KEY_ATTRIBUTES),
            "public": (W.PUBLIC_KEY_TEMPLATE_ATTRIBUTE, W.PUBLIC_KEY_ATTRIBUTES)}[which]
    # KMIP 2.0 replaced Template-Attribute structures by Attributes structures; payload classes
    # that still emit the 1.x container under 2.0 are decodable by the server and are accepted here
    out = []
    for i, tag in enumerate(tags):
        node = W.kid(pl, tag)
        if node is not None:
            out += W.request_attrs(node, (2, 0) if i == 1 else (1, 0))
    return out


# ----------------------------------------------------------------------------- base
class Op(object):
    name = None
    apis = ("pie", "proxy")
    min_version = (1, 0)       # informational: KMIP version that introduced the operation

    @property
    def code(self):
        return W.OPS[self.name]

    def args(self, v, api):
        raise NotImplementedError

    def call(self, api, c, a, v):
        raise NotImplementedError

    def check(self, a, pl, v, api):
        return []

    def payload(self, v):
        return st.fixed_dictionaries({"uid": uid_s})

    def enc(self, p, v):
        return [T.encode_text(W.UNIQUE_IDENTIFIER, p["uid"])]

    def dec(self, node, v):
        return {"uid": W.val(node, W.UNIQUE_IDENTIFIER)}

    # documented return value for payload p (pie) / named result fields (proxy)
    def expect(self, api, p, v):
        return p["uid"] if api == "pie" else {"uid": p["uid"]}

    def observe(self, api, r, v):
        if api == "pie":
            return plain(r)
        return {"uid": plain(self.field(r, "uuid", "unique_identifier", "uid"))}

    @staticmethod
    def field(r, *names):
        """Named field of a KMIPProxy result (result object attribute or dictionary key)."""
        for n in names:
            if isinstance(r, dict):
                if n in r:
                    return r[n]
            elif hasattr(r, n):
                return getattr(r, n)
        return None


OPS = {}


def reg(cls):
    OPS[cls.name] = cls()
    return cls


# ----------------------------------------------------------------------------- uid-only operations
class _UidOp(Op):
    """Operations whose only argument is the (documented-optional) unique identifier and whose
    documented return value is None (pie)."""
    returns_uid = False

    def args(self, v, api):
        return st.fixed_dictionaries({"uid": opt(uid_s)})

    def call(self, api, c, a, v):
        fn = getattr(c if api == "pie" else c.proxy, self.name)
        return fn(a["uid"])

    def check(self, a, pl, v, api):
        probs = []
        chk_val(probs, pl, W.UNIQUE_IDENTIFIER, a["uid"], "uid")
        chk_only(probs, pl, {W.UNIQUE_IDENTIFIER}, self.name)
        return probs

    def expect(self, api, p, v):
        if api == "pie":
            return p["uid"] if self.returns_uid else None
        return {"uid": p["uid"]}


@reg
class Activate(_UidOp):
    name = "activate"


@reg
class Destroy(_UidOp):
    name = "destroy"


@reg
class GetAttributeList(_UidOp):
    name = "get_attribute_list"
    NAMES = ["Cryptographic Algorithm", "Cryptographic Length", "Cryptographic Usage Mask",
             "Name", "Object Type", "State", "Unique Identifier", "Initial Date", "Object Group"]

    def payload(self, v):
        return st.fixed_dictionaries({
            "uid": uid_s,
            "names": st.lists(st.sampled_from(self.NAMES), min_size=1, max_size=6, unique=True)})

    def enc(self, p, v):
        out = [T.encode_text(W.UNIQUE_IDENTIFIER, p["uid"])]
        for n in p["names"]:
            if tuple(v) >= (2, 0):
                out.append(T.encode_enum(W.ATTRIBUTE_REFERENCE, W.ATTR_TAG[n]))
            else:
                out.append(T.encode_text(W.ATTRIBUTE_NAME, n))
        return out

    def dec(self, node, v):
        names = [c["value"] for c in W.kids(node, W.ATTRIBUTE_NAME)]
        for c in W.kids(node, W.ATTRIBUTE_REFERENCE):
            if "children" in c:
                names.append(W.val(c, W.ATTRIBUTE_NAME))
            else:
                names.append(W.ATTR_NAME.get(c["value"], "tag:%06x" % c["value"]))
        return {"uid": W.val(node, W.UNIQUE_IDENTIFIER), "names": names}

    # "Get the names of the attributes": the order of the names is not part of the contract
    def expect(self, api, p, v):
        if api == "pie":
            return sorted(p["names"])
        return {"uid": p["uid"], "names": sorted(p["names"])}

    def observe(self, api, r, v):
        if api == "pie":
            x = plain(r)
            return sorted(x) if isinstance(x, list) and all(isinstance(i, str) for i in x) else x
        names = plain(self.field(r, "names"))
        return {"uid": plain(self.field(r, "uid")),
                "names": sorted(names) if isinstance(names, list) else names}


@reg
class Revoke(Op):
    name = "revoke"

    def args(self, v, api):
        return st.fixed_dictionaries({"code": st.integers(1, 7), "uid": opt(uid_s),
                                      "msg": opt(text_s), "date": opt(date_s)})

    def call(self, api, c, a, v):
        E = _E()
        code = E.RevocationReasonCode(a["code"])
        if api == "pie":
            return c.revoke(code, uid=a["uid"], revocation_message=a["msg"],
                            compromise_occurrence_date=a["date"])
        from kmip.core import primitives
        d = None if a["date"] is None else primitives.DateTime(a["date"],
                                                               E.Tags.COMPROMISE_OCCURRENCE_DATE)
        return c.proxy.revoke(code, a["uid"], a["msg"], d)

    def check(self, a, pl, v, api):
        probs = []
        chk_val(probs, pl, W.UNIQUE_IDENTIFIER, a["uid"], "uid")
        rr = W.kid(pl, W.REVOCATION_REASON)
        chk_val(probs, rr, W.REVOCATION_REASON_CODE, a["code"], "revocation_reason")
        chk_val(probs, rr, W.REVOCATION_MESSAGE, a["msg"], "revocation_message")
        chk_val(probs, pl, W.COMPROMISE_OCCURRENCE_DATE, a["date"], "compromise_occurrence_date")
        return probs

    def expect(self, api, p, v):
        return None if api == "pie" else {"uid": p["uid"]}


# ----------------------------------------------------------------------------- cryptographic operations
class _CryptoOp(Op):
    min_version = (1, 2)
    has_iv = True
    out_tag = W.DATA
    out_key = "data"

    def args(self, v, api):
        d = {"data": bytes_s, "uid": opt(uid_s), "cp": opt(cp_s())}
        if self.has_iv:
            d["iv"] = opt(nbytes_s)
        return st.fixed_dictionaries(d)

    def call(self, api, c, a, v):
        data = W.unhex(a["data"])
        if api == "pie":
            kw = {"uid": a["uid"], "cryptographic_parameters": lib_cp_dict(a["cp"])}
            if self.has_iv:
                kw["iv_counter_nonce"] = W.unhex(a["iv"])
            return getattr(c, self.name)(data, **kw)
        kw = {"unique_identifier": a["uid"], "cryptographic_parameters": lib_cp(a["cp"])}
        if self.has_iv:
            kw["iv_counter_nonce"] = W.unhex(a["iv"])
        return getattr(c.proxy, self.name)(data, **kw)

    def check(self, a, pl, v, api):
        probs = []
        chk_val(probs, pl, W.UNIQUE_IDENTIFIER, a["uid"], "uid")
        chk_val(probs, pl, W.DATA, a["data"], "data")
        C.check_cp(probs, W.kid(pl, W.CRYPTOGRAPHIC_PARAMETERS), a["cp"], self.name)
        allowed = {W.UNIQUE_IDENTIFIER, W.DATA, W.CRYPTOGRAPHIC_PARAMETERS}
        if self.has_iv:
            chk_val(probs, pl, W.IV_COUNTER_NONCE, a["iv"], "iv_counter_nonce")
            allowed.add(W.IV_COUNTER_NONCE)
        chk_only(probs, pl, allowed, self.name)
        return probs

    def payload(self, v):
        return st.fixed_dictionaries({"uid": uid_s, self.out_key: bytes_s})

    def enc(self, p, v):
        return [T.encode_text(W.UNIQUE_IDENTIFIER, p["uid"]),
                T.encode_bytes(self.out_tag, W.unhex(p[self.out_key]))]

    def dec(self, node, v):
        return {"uid": W.val(node, W.UNIQUE_IDENTIFIER),
                self.out_key: W.hexs(W.val(node, self.out_tag))}

    def expect(self, api, p, v):
        if api == "pie":
            return p[self.out_key]
        return {"uid": p["uid"], self.out_key: p[self.out_key]}

    def observe(self, api, r, v):
        if api == "pie":
            return plain(r)
        return {"uid": plain(self.field(r, "unique_identifier")),
                self.out_key: plain(self.field(r, self.out_key))}


@reg
class Encrypt(_CryptoOp):
    name = "encrypt"

    def payload(self, v):
        d = {"uid": uid_s, "data": bytes_s}
        o = {"iv": nbytes_s}
        if tuple(v) >= (1, 4):
            o["tag"] = nbytes_s
        return st.fixed_dictionaries(d, optional=o)

    def enc(self, p, v):
        out = [T.encode_text(W.UNIQUE_IDENTIFIER, p["uid"]), T.encode_bytes(W.DATA, W.unhex(p["data"]))]
        if p.get("iv") is not None:
            out.append(T.encode_bytes(W.IV_COUNTER_NONCE, W.unhex(p["iv"])))
        if p.get("tag") is not None:
            out.append(T.encode_bytes(W.AUTH_TAG, W.unhex(p["tag"])))
        return out

    def dec(self, node, v):
        p = {"uid": W.val(node, W.UNIQUE_IDENTIFIER), "data": W.hexs(W.val(node, W.DATA))}
        for k, t in (("iv", W.IV_COUNTER_NONCE), ("tag", W.AUTH_TAG)):
            x = W.val(node, t)
            if x is not None:
                p[k] = W.hexs(x)
        return p

    # documented: (encrypted data, IV/counter/nonce if autogenerated by the server else None)
    def expect(self, api, p, v):
        if api == "pie":
            return [p["data"], p.get("iv")]
        return {"uid": p["uid"], "data": p["data"], "iv": p.get("iv")}

    def observe(self, api, r, v):
        if api == "pie":
            return plain(r)
        return {"uid": plain(self.field(r, "unique_identifier")), "data": plain(self.field(r, "data")),
                "iv": plain(self.field(r, "iv_counter_nonce"))}


@reg
class Decrypt(_CryptoOp):
    name = "decrypt"


@reg
class Sign(_CryptoOp):
    name = "sign"
    has_iv = False
    out_tag = W.SIGNATURE_DATA
    out_key = "signature"


@reg
class SignatureVerify(Op):
    name = "signature_verify"
    min_version = (1, 2)

    def args(self, v, api):
        return st.fixed_dictionaries({"message": bytes_s, "signature": bytes_s, "uid": opt(uid_s),
                                      "cp": opt(cp_s())})

    def call(self, api, c, a, v):
        m, s = W.unhex(a["message"]), W.unhex(a["signature"])
        if api == "pie":
            return c.signature_verify(m, s, uid=a["uid"],
                                      cryptographic_parameters=lib_cp_dict(a["cp"]))
        return c.proxy.signature_verify(m, s, unique_identifier=a["uid"],
                                        cryptographic_parameters=lib_cp(a["cp"]))

    def check(self, a, pl, v, api):
        probs = []
        chk_val(probs, pl, W.UNIQUE_IDENTIFIER, a["uid"], "uid")
        chk_val(probs, pl, W.DATA, a["message"], "message")
        chk_val(probs, pl, W.SIGNATURE_DATA, a["signature"], "signature")
        C.check_cp(probs, W.kid(pl, W.CRYPTOGRAPHIC_PARAMETERS), a["cp"], self.name)
        chk_only(probs, pl, {W.UNIQUE_IDENTIFIER, W.DATA, W.SIGNATURE_DATA,
                             W.CRYPTOGRAPHIC_PARAMETERS}, self.name)
        return probs

    def payload(self, v):
        return st.fixed_dictionaries({"uid": uid_s, "valid": st.integers(1, 3)})

    def enc(self, p, v):
        return [T.encode_text(W.UNIQUE_IDENTIFIER, p["uid"]),
                T.encode_enum(W.VALIDITY_INDICATOR, p["valid"])]

    def dec(self, node, v):
        return {"uid": W.val(node, W.UNIQUE_IDENTIFIER), "valid": W.val(node, W.VALIDITY_INDICATOR)}

    def expect(self, api, p, v):
        return p["valid"] if api == "pie" else {"uid": p["uid"], "valid": p["valid"]}

    def observe(self, api, r, v):
        if api == "pie":
            # documented: a ValidityIndicator enumeration
            return plain(r) if isinstance(r, enum.Enum) else {"not-an-enumeration": plain(r)}
        return {"uid": plain(self.field(r, "unique_identifier")),
                "valid": plain(self.field(r, "validity_indicator"))}


@reg
class Mac(Op):
    name = "mac"
    min_version = (1, 2)

    def args(self, v, api):
        # uid is not documented as optional for mac(): always given
        return st.fixed_dictionaries({"data": bytes_s, "uid": uid_s,
                                      "alg": opt(st.integers(7, 0xC))})

    def call(self, api, c, a, v):
        E = _E()
        alg = None if a["alg"] is None else E.CryptographicAlgorithm(a["alg"])
        if api == "pie":
            return c.mac(W.unhex(a["data"]), uid=a["uid"], algorithm=alg)
        cp = lib_cp({"cryptographic_algorithm": a["alg"]}) if a["alg"] is not None else None
        return c.proxy.mac(W.unhex(a["data"]), a["uid"], cp)

    def check(self, a, pl, v, api):
        probs = []
        chk_val(probs, pl, W.UNIQUE_IDENTIFIER, a["uid"], "uid")
        chk_val(probs, pl, W.DATA, a["data"], "data")
        if a["alg"] is not None:
            chk_val(probs, W.kid(pl, W.CRYPTOGRAPHIC_PARAMETERS), W.CRYPTOGRAPHIC_ALGORITHM,
                    a["alg"], "algorithm")
        return probs

    def payload(self, v):
        return st.fixed_dictionaries({"uid": uid_s, "mac": nbytes_s})

    def enc(self, p, v):
        return [T.encode_text(W.UNIQUE_IDENTIFIER, p["uid"]),
                T.encode_bytes(W.MAC_DATA, W.unhex(p["mac"]))]

    def dec(self, node, v):
        return {"uid": W.val(node, W.UNIQUE_IDENTIFIER), "mac": W.hexs(W.val(node, W.MAC_DATA))}

    def expect(self, api, p, v):
        return [p["uid"], p["mac"]] if api == "pie" else {"uid": p["uid"], "mac": p["mac"]}

    def observe(self, api, r, v):
        if api == "pie":
            return plain(r)
        return {"uid": plain(self.field(r, "uuid")), "mac": plain(self.field(r, "mac_data"))}
