"""Object fixtures shared by the server-side checks: valid key material of every stored type."""
import hashlib

from vlib import harness as H

_rsa = {}


def rsa_pair(bits=1024):
    """(private PKCS1 DER hex, public PKCS1 DER hex); generated once per process and size."""
    if bits not in _rsa:
        from cryptography.hazmat.primitives.asymmetric import rsa
        from cryptography.hazmat.primitives import serialization as ser
        k = rsa.generate_private_key(public_exponent=65537, key_size=bits)
        priv = k.private_bytes(ser.Encoding.DER, ser.PrivateFormat.TraditionalOpenSSL,
                               ser.NoEncryption())
        pub = k.public_key().public_bytes(ser.Encoding.DER, ser.PublicFormat.PKCS1)
        _rsa[bits] = (priv.hex(), pub.hex())
    return _rsa[bits]


def det_bytes(label, n):
    out = b""
    i = 0
    while len(out) < n:
        out += hashlib.sha256(("%s/%d" % (label, i)).encode()).digest()
        i += 1
    return out[:n].hex()


ALL_MASK = H.all_mask()


def obj_spec(otype, label="x", bits=None):
    """A valid object spec (harness.secret) of the given stored type."""
    if otype == "SymmetricKey":
        n = bits or 128
        return {"type": otype, "value": det_bytes(label, n // 8), "alg": "AES", "len": n, "fmt": "RAW"}
    if otype == "PrivateKey":
        return {"type": otype, "value": rsa_pair()[0], "alg": "RSA", "len": 1024, "fmt": "PKCS_1"}
    if otype == "PublicKey":
        return {"type": otype, "value": rsa_pair()[1], "alg": "RSA", "len": 1024, "fmt": "PKCS_1"}
    if otype == "SplitKey":
        return {"type": otype, "value": det_bytes(label, 16), "alg": "AES", "len": 128, "fmt": "RAW",
                "parts": 3, "part_id": 1, "threshold": 2, "method": "XOR"}
    if otype == "Certificate":
        return {"type": otype, "value": H.make_cert(("fixture",), "client").hex(), "ctype": "X_509"}
    if otype == "SecretData":
        return {"type": otype, "value": det_bytes(label, 12), "dtype": "PASSWORD"}
    if otype == "OpaqueData":
        return {"type": otype, "value": det_bytes(label, 10), "otype": "NONE"}
    raise ValueError(otype)


HAS_MASK = {"SymmetricKey", "PrivateKey", "PublicKey", "SplitKey", "Certificate", "SecretData"}
HAS_STATE = HAS_MASK            # every stored type except OpaqueData carries a lifecycle state


def register_item(otype, mask=ALL_MASK, label="x", extra_attrs=(), bits=None):
    attrs = []
    if otype in HAS_MASK and mask is not None:
        attrs.append(["Cryptographic Usage Mask", mask])
    attrs.extend(extra_attrs)
    return {"op": "Register", "obj": obj_spec(otype, label, bits), "attrs": attrs}


def create_item(mask=ALL_MASK, alg="AES", length=128, extra_attrs=()):
    return {"op": "Create", "attrs": [["Cryptographic Algorithm", alg], ["Cryptographic Length", length],
                                      ["Cryptographic Usage Mask", mask]] + list(extra_attrs)}


def keypair_item(mask_priv=ALL_MASK, mask_pub=ALL_MASK, length=1024):
    common = [["Cryptographic Algorithm", "RSA"], ["Cryptographic Length", length]]
    return {"op": "CreateKeyPair", "common": common,
            "private": [["Cryptographic Usage Mask", mask_priv]],
            "public": [["Cryptographic Usage Mask", mask_pub]]}


def put_state(client, uid, state):
    """Drive object uid to PRE_ACTIVE/ACTIVE/DEACTIVATED/COMPROMISED via Activate/Revoke."""
    if state == "PRE_ACTIVE":
        return
    if state in ("ACTIVE", "DEACTIVATED"):
        r = client.one({"op": "Activate", "uid": uid})
        assert r["status"] == "SUCCESS", r
        if state == "DEACTIVATED":
            r = client.one({"op": "Revoke", "uid": uid, "code": "CESSATION_OF_OPERATION"})
            assert r["status"] == "SUCCESS", r
        return
    if state == "COMPROMISED":
        r = client.one({"op": "Revoke", "uid": uid, "code": "KEY_COMPROMISE"})
        assert r["status"] == "SUCCESS", r
        return
    raise ValueError(state)


STATES = ["PRE_ACTIVE", "ACTIVE", "DEACTIVATED", "COMPROMISED"]
