"""C20 execution: one history (server mode: frames through a real KmipSession; client mode:
ProxyKmipClient / KMIPProxy / KMIPProtocol wired in process to a real KmipSession) with canary
secrets, log capture and leak scan.  See vlib/props/c20.py for the spec format."""
import copy
import logging
import os
import shutil
import sqlite3

from vlib import core, store, ttlvref as T
from vlib import harness as H
from vlib import c20_scan as S

PID = "C20"

# ----------------------------------------------------------------------------- literals (KMIP spec)
TAG_UNIQUE_IDENTIFIER = 0x420094
TAG_PRIVATE_KEY_UID = 0x420066
TAG_PUBLIC_KEY_UID = 0x42006F
TAG_DATA = 0x4200C2
OP_ENCRYPT = 0x1F
REASONS = {
    0x01: "ITEM_NOT_FOUND", 0x02: "RESPONSE_TOO_LARGE", 0x03: "AUTHENTICATION_NOT_SUCCESSFUL",
    0x04: "INVALID_MESSAGE", 0x05: "OPERATION_NOT_SUPPORTED", 0x06: "MISSING_DATA",
    0x07: "INVALID_FIELD", 0x08: "FEATURE_NOT_SUPPORTED", 0x09: "OPERATION_CANCELED_BY_REQUESTER",
    0x0A: "CRYPTOGRAPHIC_FAILURE", 0x0B: "ILLEGAL_OPERATION", 0x0C: "PERMISSION_DENIED",
    0x0D: "OBJECT_ARCHIVED", 0x0E: "INDEX_OUT_OF_BOUNDS", 0x0F: "APPLICATION_NAMESPACE_NOT_SUPPORTED",
    0x10: "KEY_FORMAT_TYPE_NOT_SUPPORTED", 0x11: "KEY_COMPRESSION_TYPE_NOT_SUPPORTED",
    0x12: "ENCODING_OPTION_ERROR", 0x13: "KEY_VALUE_NOT_PRESENT", 0x14: "ATTESTATION_REQUIRED",
    0x15: "ATTESTATION_FAILED", 0x16: "SENSITIVE", 0x17: "NOT_EXTRACTABLE",
    0x18: "OBJECT_ALREADY_EXISTS", 0x100: "GENERAL_FAILURE",
    # KMIP 2.0 additions (labels for the histogram only)
    0x19: "INVALID_TICKET", 0x1A: "USAGE_LIMIT_EXCEEDED", 0x1B: "NUMERIC_RANGE",
    0x1C: "INVALID_DATA_TYPE", 0x1D: "READ_ONLY_ATTRIBUTE", 0x1E: "MULTI_VALUED_ATTRIBUTE",
    0x1F: "UNSUPPORTED_ATTRIBUTE", 0x20: "ATTRIBUTE_INSTANCE_NOT_FOUND", 0x21: "ATTRIBUTE_NOT_FOUND",
    0x22: "ATTRIBUTE_READ_ONLY", 0x23: "ATTRIBUTE_SINGLE_VALUED",
}
FAIL_CLASS = {
    "ITEM_NOT_FOUND": "not-found", "RESPONSE_TOO_LARGE": "oversize",
    "AUTHENTICATION_NOT_SUCCESSFUL": "authentication", "INVALID_MESSAGE": "invalid-message",
    "OPERATION_NOT_SUPPORTED": "unsupported", "FEATURE_NOT_SUPPORTED": "unsupported",
    "MISSING_DATA": "invalid-field", "INVALID_FIELD": "invalid-field",
    "CRYPTOGRAPHIC_FAILURE": "cryptographic-failure", "ILLEGAL_OPERATION": "illegal-operation",
    "PERMISSION_DENIED": "permission-denied", "INDEX_OUT_OF_BOUNDS": "invalid-field",
    "KEY_FORMAT_TYPE_NOT_SUPPORTED": "unsupported", "KEY_COMPRESSION_TYPE_NOT_SUPPORTED": "unsupported",
    "ENCODING_OPTION_ERROR": "unsupported", "GENERAL_FAILURE": "internal-error",
    "READ_ONLY_ATTRIBUTE": "invalid-field", "MULTI_VALUED_ATTRIBUTE": "invalid-field",
    "UNSUPPORTED_ATTRIBUTE": "invalid-field", "ATTRIBUTE_INSTANCE_NOT_FOUND": "not-found",
    "ATTRIBUTE_NOT_FOUND": "not-found", "ATTRIBUTE_READ_ONLY": "invalid-field",
    "ATTRIBUTE_SINGLE_VALUED": "invalid-field",
}

# a fixed RSA-1024 test key (PKCS#1 / PKCS#8 DER); its private numbers are the secret
RSA_PRIV_PKCS1 = (
    "3082025e02010002818100db01fa373019f189d6450915ed9e59c7d7c1c1297e8e42baa406f6eafb33c54f8cf000d479"
    "bd35bb71bd5bae7bb0745019d72b61193766261dc19fc20d88bbe3a2255273fce9412931929fc05dea8e9f43025fb9e2"
    "cc5eddfc6b62619621bfb49b865918076cd0a1e54bddc7f424055367068ff4014dadb72cfb93c2212c52b10203010001"
    "028180309432b555251c0fb008a6284809ecee482c81353c0e403cf82f574bee26a0a8b1a176fdaa774ed8e234d7864f"
    "8767757115ea586268886f0200b5f82c5a5d1a8aceb9997cddead5e825173a96ea22dbf2ed72527bfa68888563a482be"
    "f5ba625446845ae39b817aacc8b8e74cf32e86401ea4cb6e5f7e9a4ec4d80ba594eb71024100fd61537a22dba03a5684"
    "4e21c5648f24b90eea1e6f7e6fed9e84cadbe076a3fbb7eba66404543c9f20528cf87d0dad3d21ddb7cb025a4e2b6b4e"
    "521231dbefdd024100dd45abad0295b9cd4175a1a9e627785f1698d52ddfcd9036f7b4a6a9070975376831c8644f0f42"
    "c588b4650b4eae4fe3ffcb70f1fa83a2ff21dc7910135eaae5024100f360d6f40c23758653b005f47e4c170aa90ee066"
    "97a5951163201e52910aa47c96af2d4608ba78f847edc326b3c7bd4d690835103494555d7356e9923c7e0ba9024100bd"
    "d0b280ec22bd0d130671f469779a8f17b76bc8baa081026664164411c14f48849d90265c9bdecfcd81d2dc6c56a43a16"
    "88d30f01b442f3527ceb6d9af02ef1024100d6d6ea0805a980bd4eeba85eb0141d939b7bfccddcd6e4afd78339a4576b"
    "d967671a145886b925bc2eb5a2cee48181bad91133b0ee827ed816082897decacdb1")
RSA_PUB_PKCS1 = (
    "30818902818100db01fa373019f189d6450915ed9e59c7d7c1c1297e8e42baa406f6eafb33c54f8cf000d479bd35bb71"
    "bd5bae7bb0745019d72b61193766261dc19fc20d88bbe3a2255273fce9412931929fc05dea8e9f43025fb9e2cc5eddfc"
    "6b62619621bfb49b865918076cd0a1e54bddc7f424055367068ff4014dadb72cfb93c2212c52b10203010001")
RSA_PRIV_PKCS8 = "30820278020100300d06092a864886f70d010101050004820262" + RSA_PRIV_PKCS1

_der_cache = {}


def private_parts(der):
    """The secret integers (d, p, q, dP, dQ, qInv) of an RSA private key as big-endian bytes; the
    modulus and public exponent inside the same DER are public and are not secrets.  Unparseable
    values are secret as a whole."""
    der = bytes(der)
    if der in _der_cache:
        return _der_cache[der]
    parts = None
    try:
        from cryptography.hazmat.primitives import serialization as ser
        k = ser.load_der_private_key(der, password=None)
        pn = k.private_numbers()
        parts = []
        for n in (pn.d, pn.p, pn.q, pn.dmp1, pn.dmq1, pn.iqmp):
            parts.append(n.to_bytes((n.bit_length() + 7) // 8, "big"))
    except Exception:
        parts = [der]
    _der_cache[der] = parts
    return parts


# ----------------------------------------------------------------------------- per-case context
class Case(object):
    def __init__(self, seed):
        self.seed = seed
        self.reg = S.Registry()
        self.uids = []            # identifiers created by the history, in order
        self.ciphertexts = []     # Data returned by successful Encrypt items (hex)
        self.uid_kinds = {}       # uid -> secret kinds stored under it
        self.frames = []          # (direction, bytes)
        self.classes = []
        self.nt_failures = 0
        self.kinds_in_flight = set()
        self.buckets = []
        self.known_rows = set()

    # --- placeholders
    def resolve(self, node):
        if isinstance(node, str):
            if node.startswith("$c:"):
                _, kind, idx, n = node.split(":")
                b = S.canary_bytes(self.seed, idx, int(n))
                self.reg.add(kind, b)
                return b.hex()
            if node.startswith("$t:"):
                _, kind, idx, n = node.split(":")
                t = S.canary_text(self.seed, idx, int(n))
                self.reg.add(kind, t.encode())
                return t
            if node.startswith("$u:"):
                k = int(node[3:])
                return self.uids[k] if k < len(self.uids) else "9999"
            if node.startswith("$d:"):
                k = int(node[3:])
                if self.ciphertexts:
                    return self.ciphertexts[k % len(self.ciphertexts)]
                b = S.canary_bytes(self.seed, "d%d" % k, 16)
                self.reg.add("ciphertext", b)
                return b.hex()
            if node == "$rsa:priv":
                self.add_private(RSA_PRIV_PKCS1)
                return RSA_PRIV_PKCS1
            if node == "$rsa:priv8":
                self.add_private(RSA_PRIV_PKCS8)
                return RSA_PRIV_PKCS8
            if node == "$rsa:pub":
                return RSA_PUB_PKCS1
            return node
        if isinstance(node, list):
            return [self.resolve(x) for x in node]
        if isinstance(node, dict):
            return {k: self.resolve(v) for k, v in node.items()}
        return node

    def add_private(self, der_hex, kind="key-private"):
        for p in private_parts(bytes.fromhex(der_hex)):
            self.reg.add(kind, p, window=16)

    # --- what the server stores (read through stdlib sqlite3, not through the engine)
    def harvest_db(self, server):
        con = sqlite3.connect("file:%s?mode=ro" % server.db, uri=True)
        try:
            rows = con.execute("select uid, class_type, value from managed_objects").fetchall()
        except sqlite3.Error:
            rows = []
        finally:
            con.close()
        have = {}
        for kind, v, _ in self.reg.items:
            have.setdefault(v, kind)
        for uid, cls, value in rows:
            if (uid, value) in self.known_rows or value is None:
                continue
            self.known_rows.add((uid, value))
            value = bytes(value)
            uid = str(uid)
            if cls in ("PublicKey", "X509Certificate", "Certificate"):
                continue
            if cls == "PrivateKey":
                kind = "stored-private-key"
                parts = private_parts(value)
                if all(p in have for p in parts):
                    kind = have[parts[0]]
                else:
                    for p in parts:
                        self.reg.add(kind, p, window=16)
            else:
                kind = have.get(value)
                if kind is None:
                    kind = "stored-" + {"SymmetricKey": "symmetric-key", "SplitKey": "split-key",
                                        "SecretData": "secret-data", "OpaqueObject": "opaque",
                                        "OpaqueData": "opaque"}.get(
                        cls, str(cls).lower())
                    if not self.reg.add(kind, value):
                        continue
            self.uid_kinds.setdefault(uid, set()).add(kind)

    # --- responses
    def read_responses(self, sent, collect=True):
        """Independent reading of what the session sent: [(reason name|None for success,
        operation, message)] per batch item, harvesting identifiers and Encrypt output."""
        out = []
        for data in sent:
            try:
                items = T.response_items(data)
            except Exception:
                self.classes.append("response-unparseable-by-reference")
                out.append(("UNPARSEABLE", None, data.decode("latin-1")))
                continue
            for it in items:
                if it["status"] == 0:
                    out.append((None, it["operation"], None))
                    if collect and it["payload"] is not None:
                        self._collect(it)
                else:
                    r = it["reason"]
                    out.append((REASONS.get(r, "REASON_0x%x" % r if r is not None else "NO_REASON"),
                                it["operation"], it["message"]))
        return out

    def _collect(self, it):
        p = it["payload"]
        for tag in (TAG_UNIQUE_IDENTIFIER, TAG_PRIVATE_KEY_UID, TAG_PUBLIC_KEY_UID):
            for c in T.children(p, tag):
                u = c.get("value")
                # creating operations: Create 1, CreateKeyPair 2, Register 3, DeriveKey 5
                if isinstance(u, str) and it["operation"] in (1, 2, 3, 5) and u not in self.uids:
                    self.uids.append(u)
        if it["operation"] == OP_ENCRYPT:
            c = T.child(p, TAG_DATA)
            if c is not None and isinstance(c.get("value"), bytes) and len(c["value"]) >= 8:
                self.ciphertexts.append(c["value"].hex())
                self.reg.add("ciphertext-out", c["value"])

    # --- verdicts
    def judge(self, entries, messages):
        seen = {}
        for e, kind, form in S.scan_entries(entries, self.reg):
            seen.setdefault(S.log_bucket(e, "log", kind), S.log_detail(e, kind, form))
        for e, direction, form in S.scan_frames(entries, self.frames):
            seen.setdefault(S.log_bucket(e, "log-frame", "message-bytes"),
                            "%s frame bytes (%s form) in %s record of %s: %s" % (
                                direction, form, e["level"], e["logger"], S._snip(e["text"], 400)))
        texts = {}
        for reason, op, msg in messages:
            if msg:
                texts.setdefault(msg, reason)
        if texts and not S.scan_text("\n\x00\n".join(texts), self.reg):
            texts = {}
        for msg, reason in texts.items():
            for kind, form in S.scan_text(msg, self.reg):
                key = "%s|result-message|%s|%s|%s" % (PID, reason, core.norm_msg(msg), kind)
                seen.setdefault(key, "%s canary visible (%s form) in Result Message: %s" % (
                    kind, form, S._snip(msg, 400)))
        self.buckets = list(seen.items())


def referenced_uids(req):
    out = []
    for it in req.get("items", []):
        if not isinstance(it, dict):
            continue
        if isinstance(it.get("uid"), str):
            out.append(it["uid"])
        for u in it.get("uids") or []:
            if isinstance(u, str):
                out.append(u)
        w = it.get("wrap")
        if isinstance(w, dict):
            for k in ("eki", "mski"):
                if isinstance(w.get(k), dict) and isinstance(w[k].get("uid"), str):
                    out.append(w[k]["uid"])
    return out


# ----------------------------------------------------------------------------- frame mutation
def canary_offsets(data, reg):
    offs = set()
    for _, v, _ in reg.items:
        i = data.find(v)
        while i >= 0:
            offs.add(i)
            i = data.find(v, i + 1)
    return sorted(offs)


def _fix_outer(b):
    if len(b) >= 8:
        b[4:8] = ((len(b) - 8) & 0xFFFFFFFF).to_bytes(4, "big")
    return b


def mutate(data, mut, reg):
    """Deterministic frame mutation from a JSON description."""
    if not mut:
        return data
    b = bytearray(data)
    k = mut["kind"]
    if k == "flip":
        b[mut["pos"] % len(b)] = mut["val"] & 0xFF
    elif k == "hdr":
        slot = (mut["pos"] % max(1, len(b) // 8)) * 8
        f = mut["field"]
        if f == "tag":
            b[slot + 2] = mut["val"] & 0xFF
        elif f == "type":
            b[slot + 3] = mut["val"] & 0xFF
        else:
            b[slot + 4:slot + 8] = (mut["val"] & 0xFFFFFFFF).to_bytes(4, "big")
    elif k == "cut":
        at = mut["at"] % len(b)
        b = b[:at]
        if mut.get("fix", True):
            _fix_outer(b)
    elif k == "append":
        b += bytes.fromhex(mut["data"])
        if mut.get("fix", True):
            _fix_outer(b)
    elif k == "garbage":
        body = bytes.fromhex(mut["data"])
        body += b"\x00" * (-len(body) % 8)
        b = bytearray(b"\x42\x00\x78\x01" + len(body).to_bytes(4, "big") + body)
    elif k == "at-canary":
        offs = canary_offsets(bytes(b), reg)
        if not offs:
            return bytes(b)
        o = offs[mut.get("which", 0) % len(offs)]
        f = mut["field"]
        if o < 8:
            return bytes(b)
        if f == "type":
            b[o - 5] = mut["val"] & 0xFF
        elif f == "tag":
            b[o - 8:o - 5] = (mut["val"] & 0xFFFFFF).to_bytes(3, "big")
        elif f == "len":
            cur = int.from_bytes(b[o - 4:o], "big")
            how, x = mut["val"]
            new = {"abs": x, "add": cur + x, "mul": cur * x}[how]
            b[o - 4:o] = (new & 0xFFFFFFFF).to_bytes(4, "big")
        elif f == "cut":
            at = max(8, min(len(b), o + mut["val"]))
            b = b[:at]
            _fix_outer(b)
        elif f == "byte":
            b[o + (mut["val"][0] % 8)] ^= (mut["val"][1] | 1) & 0xFF
    else:
        raise core.HarnessError("unknown mutation %r" % (mut,))
    return bytes(b)


# ----------------------------------------------------------------------------- certificates / plugins
def make_cert(kind, who):
    if kind == "default":
        return H.make_cert((who,), "client")
    if kind == "none":
        return None
    if kind == "no-eku":
        return H.make_cert((who,), None)
    if kind == "server-eku":
        return H.make_cert((who,), "server")
    if kind == "two-cn":
        return H.make_cert((who, "mallory"), "client")
    if kind == "no-cn":
        return H.make_cert((), "client")
    raise core.HarnessError("unknown certificate kind %r" % (kind,))


class _Resp(object):
    def __init__(self, code, body=None):
        self.status_code = code
        self._body = body or {}

    def json(self):
        return self._body


class FakeRequests(object):
    """Stands in for the `requests` module inside kmip.services.server.auth.slugs."""

    def __init__(self, beh):
        self.beh = beh

    def get(self, url, timeout=None):
        groups = url.rstrip("/").endswith("/groups")
        if self.beh == "slugs-down":
            raise IOError("connection refused: " + url)
        if self.beh == "slugs-404":
            return _Resp(404)
        if self.beh == "slugs-groups404":
            return _Resp(404) if groups else _Resp(200)
        return _Resp(200, {"groups": ["staff"]})


class slugs_patch(object):
    def __init__(self, auth):
        self.auth = auth

    def __enter__(self):
        self.mod = None
        if self.auth and self.auth.startswith("slugs"):
            from kmip.services.server.auth import slugs as mod
            self.mod = mod
            self.saved = mod.requests
            mod.requests = FakeRequests(self.auth)

    def __exit__(self, *a):
        if self.mod is not None:
            self.mod.requests = self.saved


def auth_settings(auth):
    if not auth:
        return None
    if auth == "unsupported":
        return [("auth:ldap", {"enabled": "True", "url": "ldap://ldap.test/"})]
    if auth == "slugs-nourl":
        return [("auth:slugs", {"enabled": "True"})]
    return [("auth:slugs", {"enabled": "True", "url": "http://slugs.test:8080/slugs/"})]


def resolve_ts(req):
    ts = req.get("ts")
    if isinstance(ts, str):
        now = int(H.CLOCK.now)
        req["ts"] = {"now": now, "stale": now - 1000, "future": now + 1000}[ts]
    return req


# ----------------------------------------------------------------------------- one session exchange
def exchange(case, server, cap, data, who="alice", cert="default", auth=None, chunks=None):
    """Feed one frame to a fresh KmipSession; returns the list of frames it sent."""
    case.frames.append(("request", data))
    with slugs_patch(auth):
        conn, errors = server.session(data, cn=who, cert=make_cert(cert, who), chunks=chunks or None,
                                      auth_settings=auth_settings(auth), max_loops=4)
    for e in errors:
        cap.add_escaped_exception(e)
    if errors:
        case.classes.append("fail:loop-exception")
    for s in conn.sent:
        case.frames.append(("response", s))
    return conn.sent, errors


def account(case, step_label, results, errors, in_flight, intent=None, mutated=False, batch=False):
    """Failure classes of one exchange; counts it as a non-trivial failure when a secret was in
    flight."""
    fails = set()
    for reason, op, msg in results:
        if reason is None:
            case.classes.append("item:SUCCESS")
            continue
        case.classes.append("item:" + reason)
        cls = FAIL_CLASS.get(reason, "other")
        if reason == "INVALID_MESSAGE" and op is None and msg and msg.startswith("Error parsing"):
            cls = "decode"
        if intent == "state" and cls in ("permission-denied", "illegal-operation"):
            cls = "illegal-state"
        fails.add(cls)
    if errors:
        fails.add("loop-exception")
    if batch and fails:
        fails.add("batch")
    for f in sorted(fails):
        case.classes.append("fail:" + f)
        if in_flight:
            case.classes.append("nt-fail:" + f)
    if fails and in_flight:
        case.nt_failures += 1
        case.kinds_in_flight.update(in_flight)
    return fails


def stopped_before_engine(result):
    """Certificate / authentication refusals and undecodable requests never reach an operation."""
    reason, op, msg = result
    if reason == "AUTHENTICATION_NOT_SUCCESSFUL":
        return True
    return reason == "INVALID_MESSAGE" and op is None and bool(msg) and msg.startswith("Error parsing")


def in_flight_kinds(case, frame, req):
    kinds = set(case.reg.contains(frame))
    for u in referenced_uids(req or {}):
        kinds.update(case.uid_kinds.get(u, ()))
    return kinds


def spy_generated_secrets(server, case):
    """Pass-through wrappers around the server's key generation / derivation: what they return is
    secret from the moment it exists, also when the request then fails and nothing is stored (the
    database harvest would never see it)."""
    ce = getattr(server.engine, "_cryptography_engine", None)
    if ce is None:
        return

    def wrap(name, kinds):
        real = getattr(ce, name, None)
        if real is None:
            return

        def spy(*a, **kw):
            out = real(*a, **kw)
            try:
                vals = []
                if isinstance(out, dict) and "value" in out:
                    vals.append((kinds[0], out["value"]))
                elif isinstance(out, (tuple, list)):
                    for k, part in zip(kinds, out):
                        if isinstance(part, dict) and "value" in part:
                            vals.append((k, part["value"]))
                elif isinstance(out, (bytes, bytearray)):
                    vals.append((kinds[0], bytes(out)))
                for k, val in vals:
                    if k is None or not isinstance(val, (bytes, bytearray)):
                        continue
                    if k == "generated-private-key":
                        for part in private_parts(bytes(val)):
                            case.reg.add(k, part, window=16)
                    else:
                        case.reg.add(k, bytes(val))
            except Exception:
                pass
            return out
        setattr(ce, name, spy)

    wrap("create_symmetric_key", ["generated-symmetric-key"])
    wrap("create_asymmetric_key_pair", [None, "generated-private-key"])   # (public, private)
    wrap("derive_key", ["derived-key"])


# ----------------------------------------------------------------------------- server mode
def run_server(spec):
    cap = S.install()
    server, idx = store.fresh_server()
    cap = S.install()              # Server() may have detached loggers meanwhile
    cap.clear()
    case = Case(spec.get("seed", 0))
    messages = []
    kmip_logger = logging.getLogger("kmip")
    if spec.get("debug"):
        kmip_logger.setLevel(logging.DEBUG)
    try:
        case.harvest_db(server)
        spy_generated_secrets(server, case)
        for step in spec.get("steps", []):
            if not isinstance(step, dict) or "req" not in step:
                continue
            H.CLOCK.tick()
            step = case.resolve(copy.deepcopy(step))
            req = resolve_ts(dict(step["req"]))
            who = step.get("who", "alice")
            try:
                clean = H.encode_request(req)
            except Exception:
                case.classes.append("unencodable")
                continue
            data = mutate(clean, step.get("mut"), case.reg)
            # in flight: secrets in the bytes actually sent; the secrets of addressed objects only
            # when the request got as far as an operation (decided after the exchange)
            kinds = in_flight_kinds(case, data, None)
            n_items = len(req.get("items", []))
            sent, errors = exchange(case, server, cap, data, who, step.get("cert", "default"),
                                    step.get("auth"), step.get("chunks"))
            results = case.read_responses(sent)
            messages.extend(results)
            if results and not any(stopped_before_engine(r) for r in results):
                kinds = in_flight_kinds(case, data, req)
            account(case, step.get("label"), results, errors, kinds, step.get("intent"),
                    bool(step.get("mut")), batch=n_items > 1)
            if step.get("label"):
                case.classes.append("step:" + step["label"].split("/")[0])
            if any(r[0] is None for r in results):
                case.harvest_db(server)
        entries = list(cap.entries)
        case.judge(entries, messages)
        case.classes.append("log-records>=INFO:%s" % ("some" if entries else "none"))
        case.below_info = cap.below_info
        if spec.get("debug"):
            case.classes.append("control:debug-enabled:%s" % (
                "records-below-INFO-seen-and-ignored" if cap.below_info else "NO-DEBUG-RECORDS"))
    finally:
        kmip_logger.setLevel(logging.INFO)
        server.close()
        cap.clear()
    return finish(case)


def finish(case):
    classes = list(case.classes)
    for k in sorted(case.kinds_in_flight):
        classes.append("canary-in-flight-at-failure:" + k)
    return {"buckets": case.buckets, "nontrivial": case.nt_failures > 0, "classes": classes,
            "kinds": case.reg.kinds(), "below_info": getattr(case, "below_info", 0)}


# ----------------------------------------------------------------------------- client mode
class FakeSocket(object):
    def __init__(self, responder):
        self.responder = responder
        self.out = b""
        self.pos = 0
        self.chunks = []
        self.ci = 0

    def sendall(self, data):
        self.out = bytes(self.responder(bytes(data)))
        self.pos = 0

    def recv(self, n):
        if self.pos >= len(self.out):
            return b""
        k = n
        if self.chunks:
            k = max(1, min(n, self.chunks[self.ci % len(self.chunks)]))
            self.ci += 1
        out = self.out[self.pos:self.pos + k]
        self.pos += len(out)
        return out

    def shutdown(self, how):
        pass

    def close(self):
        pass

    def settimeout(self, t):
        pass


def response_fault(data, fault, case):
    if not fault or not data:
        return data
    k = fault["kind"]
    if k == "truncate":
        return data[:fault["at"] % len(data)]
    if k == "cut-fixed":
        b = bytearray(data[:max(8, fault["at"] % len(data))])
        return bytes(_fix_outer(b))
    if k == "flip":
        b = bytearray(data)
        b[fault["pos"] % len(b)] = fault["val"] & 0xFF
        return bytes(b)
    if k == "hdr":
        return mutate(data, dict(fault, kind="hdr"), case.reg)
    if k == "at-canary":
        return mutate(data, dict(fault, kind="at-canary"), case.reg)
    if k == "garbage":
        body = bytes.fromhex(fault["data"])
        body += b"\x00" * (-len(body) % 8)
        return b"\x42\x00\x7b\x01" + len(body).to_bytes(4, "big") + body
    if k == "empty":
        return b""
    raise core.HarnessError("unknown response fault %r" % (fault,))


def _en(cls, name):
    if name is None:
        return None
    return cls[name] if isinstance(name, str) else cls(name)


def _masks(names):
    from kmip.core import enums
    return None if names is None else [enums.CryptographicUsageMask[n] for n in names]


def pie_object(o):
    """A kmip.pie managed object from {"kind", "value"(hex), ...}."""
    from kmip.core import enums
    from kmip.pie import objects as po
    k = o["kind"]
    v = bytes.fromhex(o["value"])
    alg = _en(enums.CryptographicAlgorithm, o.get("alg", "AES"))
    name = o.get("name", "c20 object")
    if k == "SymmetricKey":
        return po.SymmetricKey(alg, o.get("len", len(v) * 8), v, masks=_masks(o.get("masks")), name=name)
    if k == "PrivateKey":
        return po.PrivateKey(_en(enums.CryptographicAlgorithm, o.get("alg", "RSA")), o.get("len", 1024), v,
                             _en(enums.KeyFormatType, o.get("fmt", "PKCS_1")),
                             masks=_masks(o.get("masks")), name=name)
    if k == "PublicKey":
        return po.PublicKey(_en(enums.CryptographicAlgorithm, o.get("alg", "RSA")), o.get("len", 1024), v,
                            _en(enums.KeyFormatType, o.get("fmt", "PKCS_1")),
                            masks=_masks(o.get("masks")), name=name)
    if k == "SecretData":
        return po.SecretData(v, _en(enums.SecretDataType, o.get("dtype", "PASSWORD")),
                             masks=_masks(o.get("masks")), name=name)
    if k == "OpaqueObject":
        return po.OpaqueObject(v, _en(enums.OpaqueDataType, o.get("otype", "NONE")), name=name)
    if k == "SplitKey":
        return po.SplitKey(cryptographic_algorithm=alg, cryptographic_length=o.get("len", len(v) * 8),
                           key_value=v, cryptographic_usage_masks=_masks(o.get("masks")), name=name,
                           split_key_parts=o.get("parts", 3), key_part_identifier=o.get("part_id", 1),
                           split_key_threshold=o.get("threshold", 2),
                           split_key_method=_en(enums.SplitKeyMethod, o.get("method", "XOR")),
                           prime_field_size=o.get("prime"))
    raise core.HarnessError("pie_object: unknown kind %r" % k)


def pie_params(p):
    from kmip.core import enums
    if p is None:
        return None
    m = {"mode": ("block_cipher_mode", enums.BlockCipherMode),
         "pad": ("padding_method", enums.PaddingMethod),
         "hash": ("hashing_algorithm", enums.HashingAlgorithm),
         "alg": ("cryptographic_algorithm", enums.CryptographicAlgorithm),
         "dsa": ("digital_signature_algorithm", enums.DigitalSignatureAlgorithm),
         "role": ("key_role_type", enums.KeyRoleType)}
    out = {}
    for k, v in p.items():
        if k in m:
            out[m[k][0]] = _en(m[k][1], v)
        else:
            out[k] = v
    return out


def _hx(s):
    return None if s is None else bytes.fromhex(s)


def pie_call(client, m, a):
    from kmip.core import enums
    if m == "register":
        return client.register(pie_object(a["obj"]))
    if m == "create":
        return client.create(_en(enums.CryptographicAlgorithm, a.get("alg", "AES")), a.get("len", 128),
                             name=a.get("name"), cryptographic_usage_mask=_masks(a.get("masks")))
    if m == "create_key_pair":
        return client.create_key_pair(enums.CryptographicAlgorithm.RSA, a.get("len", 1024),
                                      public_usage_mask=_masks(["VERIFY"]),
                                      private_usage_mask=_masks(["SIGN"]))
    if m == "get":
        kws = a.get("kws")
        if kws is not None:
            kws = {"wrapping_method": _en(enums.WrappingMethod, kws.get("method", "ENCRYPT")),
                   "encryption_key_information": {
                       "unique_identifier": kws["uid"],
                       "cryptographic_parameters": pie_params(kws.get("params", {"mode": "NIST_KEY_WRAP"}))},
                   "encoding_option": _en(enums.EncodingOption, kws.get("enc", "NO_ENCODING"))}
        return client.get(a.get("uid"), key_wrapping_specification=kws)
    if m == "get_attributes":
        return client.get_attributes(a.get("uid"), a.get("names"))
    if m == "get_attribute_list":
        return client.get_attribute_list(a.get("uid"))
    if m == "locate":
        return client.locate()
    if m == "activate":
        return client.activate(a.get("uid"))
    if m == "revoke":
        return client.revoke(_en(enums.RevocationReasonCode, a.get("code", "KEY_COMPROMISE")), a.get("uid"),
                             a.get("msg"))
    if m == "destroy":
        return client.destroy(a.get("uid"))
    if m == "encrypt":
        return client.encrypt(_hx(a["data"]), uid=a.get("uid"),
                              cryptographic_parameters=pie_params(a.get("params")),
                              iv_counter_nonce=_hx(a.get("iv")))
    if m == "decrypt":
        return client.decrypt(_hx(a["data"]), uid=a.get("uid"),
                              cryptographic_parameters=pie_params(a.get("params")),
                              iv_counter_nonce=_hx(a.get("iv")))
    if m == "sign":
        return client.sign(_hx(a["data"]), uid=a.get("uid"),
                           cryptographic_parameters=pie_params(a.get("params")))
    if m == "signature_verify":
        return client.signature_verify(_hx(a["data"]), _hx(a["sig"]), uid=a.get("uid"),
                                       cryptographic_parameters=pie_params(a.get("params")))
    if m == "mac":
        return client.mac(_hx(a["data"]), uid=a.get("uid"),
                          algorithm=_en(enums.CryptographicAlgorithm, a.get("alg")))
    if m == "derive_key":
        dp = a.get("dp", {})
        params = {"cryptographic_parameters": pie_params(dp.get("params", {}))}
        if dp.get("data") is not None:
            params["derivation_data"] = _hx(dp["data"])
        if dp.get("salt") is not None:
            params["salt"] = _hx(dp["salt"])
        if dp.get("iv") is not None:
            params["initialization_vector"] = _hx(dp["iv"])
        if dp.get("iter") is not None:
            params["iteration_count"] = dp["iter"]
        return client.derive_key(_en(enums.ObjectType, a.get("otype", "SYMMETRIC_KEY")), a.get("uids", []),
                                 _en(enums.DerivationMethod, a.get("method", "HASH")), params,
                                 cryptographic_length=a.get("len", 128),
                                 cryptographic_algorithm=_en(enums.CryptographicAlgorithm, a.get("alg", "AES")))
    raise core.HarnessError("pie_call: unknown method %r" % m)


def device_credential(c):
    from kmip.core import enums, objects as cobj
    if c is None:
        return None
    return cobj.Credential(
        credential_type=enums.CredentialType.DEVICE,
        credential_value=cobj.DeviceCredential(device_serial_number=c.get("serial", "sn-1"),
                                               password=c.get("password"),
                                               device_identifier=c.get("device", "dev-1")))


def proxy_call(proxy, m, a):
    """The same operations through KMIPProxy with core objects (vlib.harness builders)."""
    from kmip.core import enums, attributes as cattr
    cred = device_credential(a.get("cred"))
    if m == "register":
        o = a["obj"]
        return proxy.register(H.OT[o["type"]], H.template(a.get("attrs", [])), H.secret(o), credential=cred)
    if m == "create":
        return proxy.create(enums.ObjectType.SYMMETRIC_KEY, H.template(a.get("attrs", [])), credential=cred)
    if m == "get":
        return proxy.get(uuid=a.get("uid"), key_format_type=_en(enums.KeyFormatType, a.get("fmt")),
                         credential=cred)
    if m == "get_attributes":
        return proxy.get_attributes(a.get("uid"), a.get("names"))
    if m == "activate":
        return proxy.activate(a.get("uid"), credential=cred)
    if m == "destroy":
        return proxy.destroy(a.get("uid"), credential=cred)
    if m == "revoke":
        return proxy.revoke(_en(enums.RevocationReasonCode, a.get("code", "KEY_COMPROMISE")), a.get("uid"),
                            credential=cred)
    if m == "locate":
        return proxy.locate(credential=cred)
    if m == "query":
        return proxy.query(query_functions=[enums.QueryFunction.QUERY_OPERATIONS], credential=cred)
    if m in ("encrypt", "decrypt"):
        return getattr(proxy, m)(_hx(a["data"]), a.get("uid"), H.crypto_params(a.get("params")),
                                 _hx(a.get("iv")), credential=cred)
    if m == "sign":
        return proxy.sign(_hx(a["data"]), a.get("uid"), H.crypto_params(a.get("params")), credential=cred)
    if m == "signature_verify":
        return proxy.signature_verify(_hx(a["data"]), _hx(a["sig"]), a.get("uid"),
                                      H.crypto_params(a.get("params")), credential=cred)
    if m == "mac":
        return proxy.mac(_hx(a["data"]), a.get("uid"), H.crypto_params(a.get("params")), credential=cred)
    if m == "derive_key":
        dp = a.get("dp", {})
        return proxy.derive_key(
            _en(enums.ObjectType, a.get("otype", "SYMMETRIC_KEY")), a.get("uids", []),
            _en(enums.DerivationMethod, a.get("method", "HASH")),
            cattr.DerivationParameters(
                cryptographic_parameters=H.crypto_params(dp.get("params", {})),
                initialization_vector=_hx(dp.get("iv")), derivation_data=_hx(dp.get("data")),
                salt=_hx(dp.get("salt")), iteration_count=dp.get("iter")),
            H.template(a.get("attrs", [["Cryptographic Length", 128], ["Cryptographic Algorithm", "AES"]])),
            credential=cred)
    raise core.HarnessError("proxy_call: unknown method %r" % m)


def make_client(v, responder, username=None, password=None):
    """A ProxyKmipClient marked open whose KMIPProxy talks through a real KMIPProtocol to a fake
    socket.  os.devnull as configuration file: every setting is its default or the given value."""
    from kmip.pie.client import ProxyKmipClient
    from kmip.services.kmip_protocol import KMIPProtocol
    client = ProxyKmipClient(hostname="127.0.0.1", port=5696, config_file=os.devnull,
                             username=username, password=password, kmip_version=H.KV(v))
    sock = FakeSocket(responder)
    client.proxy.socket = sock
    client.proxy.protocol = KMIPProtocol(sock)
    client._is_open = True
    return client, sock


def run_client(spec):
    cap = S.install()
    server, idx = store.fresh_server()
    cap = S.install()
    cap.clear()
    case = Case(spec.get("seed", 0))
    messages = []
    client = None
    try:
        case.harvest_db(server)
        head = case.resolve(copy.deepcopy({"cred": spec.get("cred"), "who": spec.get("who", "alice")}))
        cred = head["cred"] or [None, None]
        state = {"call": None, "requests": 0, "kinds": set(), "results": []}

        def responder(data):
            call = state["call"]
            state["requests"] += 1
            H.CLOCK.tick()
            state["kinds"] = set(case.reg.contains(data))
            sent, errors = exchange(case, server, cap, data, head["who"], call.get("cert", "default"),
                                    call.get("auth"), None)
            results = case.read_responses(sent)
            state["results"] = results
            state["errors"] = errors
            messages.extend(results)
            out = response_fault(b"".join(sent), call.get("fault"), case)
            if call.get("fault"):
                case.frames.append(("response", out))
            # secrets in what the client is about to read (Get / Decrypt / Encrypt responses)
            state["kinds"].update(case.reg.contains(out))
            return out

        client, sock = make_client(tuple(spec.get("v", (1, 2))), responder, cred[0], cred[1])
        for call in spec.get("calls", []):
            if not isinstance(call, dict) or "m" not in call:
                continue
            before = len(case.reg.items)
            call = case.resolve(copy.deepcopy(call))
            new_kinds = set(k for k, _, _ in case.reg.items[before:])
            api, m, a = call.get("api", "pie"), call["m"], call.get("args", {})
            for u in ([a.get("uid")] if isinstance(a.get("uid"), str) else []) + [
                    x for x in (a.get("uids") or []) if isinstance(x, str)]:
                state.setdefault("ref", set()).update(case.uid_kinds.get(u, ()))
            state.update(call=call, requests=0, kinds=set(), results=[], errors=[])
            sock.chunks = [max(1, int(c)) for c in call.get("chunks") or []]
            sock.ci = 0
            label = "%s.%s" % (api, m)
            outcome = None
            try:
                if api == "pie":
                    pie_call(client, m, a)
                else:
                    proxy_call(client.proxy, m, a)
                outcome = "returned"
            except core.HarnessError:
                raise
            except Exception as e:
                outcome = type(e).__name__
            case.classes.append("call:" + label)
            ref = state.pop("ref", set())
            kinds = set(state["kinds"]) | new_kinds
            if state["results"] and not any(stopped_before_engine(r) for r in state["results"]):
                kinds |= ref
            failed_items = any(r[0] is not None for r in state["results"])
            client_fail = None
            if state["requests"] == 0:
                client_fail = "client-refused-before-sending"
            elif call.get("fault") and outcome != "returned":
                client_fail = "client-response-undecodable"
            elif outcome == "KmipOperationFailure" or (outcome == "returned" and failed_items):
                client_fail = "client-operation-failure"
            elif outcome != "returned":
                client_fail = "client-exception:" + outcome
            fails = account(case, label, state["results"], state.get("errors"), kinds)
            if client_fail:
                case.classes.append("fail:" + client_fail)
                if kinds:
                    case.classes.append("nt-fail:" + client_fail)
                    if not fails:
                        case.nt_failures += 1
                        case.kinds_in_flight.update(kinds)
            if any(r[0] is None for r in state["results"]):
                case.harvest_db(server)
        entries = list(cap.entries)
        case.judge(entries, messages)
    finally:
        if client is not None:
            try:
                client.proxy.socket = None
                client._is_open = False
            except Exception:
                pass
        server.close()
        cap.clear()
    return finish(case)


def config_text(sections):
    """INI text from [[section name, [[option, value], ...]], ...] (values written verbatim)."""
    out = []
    for name, opts in sections:
        out.append("[%s]" % name)
        for k, v in opts:
            out.append("%s=%s" % (k, v))
        out.append("")
    return "\n".join(out)


def run_client_config(spec):
    """The client reads its settings - among them the password - from a configuration file.
    spec: sections [[name, [[option, value-parts]]]] where a value is a list of parts, each plain
    text or a '$t:password:<id>:<n>' canary; config = the section the client is pointed at;
    api pie|proxy; then one call through a scripted socket (the credential travels in it)."""
    import tempfile
    cap = S.install()
    cap.clear()
    case = Case(spec.get("seed", 0))
    client = None
    d = tempfile.mkdtemp(prefix="c20-conf-")
    try:
        sections = []
        for name, opts in spec["sections"]:
            row = []
            for k, parts in opts:
                val = "".join(case.resolve(x) for x in parts)
                if "\n" in val or "\r" in val:
                    raise core.HarnessError("line break in a configuration value")
                row.append([k, val])
            sections.append([name, row])
        path = os.path.join(d, "pykmip.conf")
        with open(path, "w", encoding="utf-8") as fh:
            fh.write(config_text(sections))
        from kmip.pie.client import ProxyKmipClient
        from kmip.services.kmip_client import KMIPProxy
        from kmip.services.kmip_protocol import KMIPProtocol
        api = spec.get("api", "pie")
        outcome = "constructed"
        proxy = None
        try:
            if api == "pie":
                client = ProxyKmipClient(config=spec.get("config", "client"), config_file=path)
                proxy = client.proxy
            else:
                proxy = KMIPProxy(config=spec.get("config", "client"), config_file=path)
        except Exception as e:
            outcome = "constructor:" + type(e).__name__
        case.classes.append("config:" + outcome)
        if proxy is not None and spec.get("call", True):
            def responder(data):
                case.frames.append(("request", bytes(data)))
                v = tuple(spec.get("v", (1, 2)))
                from vlib import c19_wire as W
                return W.build_response(v, 10, W.STATUS_FAILED, reason=1,
                                        message="Could not locate object: 1")
            sock = FakeSocket(responder)
            proxy.socket = sock
            proxy.protocol = KMIPProtocol(sock)
            try:
                if client is not None:
                    client._is_open = True
                    client.get("1")
                else:
                    proxy.get("1")
                case.classes.append("config-call:returned")
            except core.HarnessError:
                raise
            except Exception as e:
                case.classes.append("config-call:" + type(e).__name__)
            if case.reg.items and any(case.reg.contains(f[1]) for f in case.frames):
                case.classes.append("config:password-travelled-in-request")
        case.nt_failures += 1 if case.reg.items else 0
        case.kinds_in_flight.update(case.reg.kinds())
        case.judge(list(cap.entries), [])
    finally:
        try:
            if client is not None:
                client.proxy.socket = None
                client._is_open = False
            elif proxy is not None:
                proxy.socket = None
        except Exception:
            pass
        shutil.rmtree(d, ignore_errors=True)
        cap.clear()
    return finish(case)


def run_case(spec):
    if spec.get("mode") == "client":
        return run_client(spec)
    if spec.get("mode") == "client-config":
        return run_client_config(spec)
    return run_server(spec)
