"""C19: execution of one case (scripted responder or real engine behind the client) and the oracle.
Everything is rebuilt from the JSON-able spec; oracle failures come back as (bucket key, detail)."""
import re
import traceback

from vlib import core
from vlib import ttlvref as T
from vlib import c19_wire as W
from vlib.c19_ops import OPS, plain
from vlib import c19_ops2, c19_ops3  # noqa: F401  (register the operations)

PID = "C19"

# pie methods whose failure branch dereferences result.result_message.value (result objects)
FAILURE_STATUS = 1
FAULT_LABEL = {"truncate": "truncated", "cut-item": "truncated", "garbage-tag": "undecodable", "garbage-body": "undecodable",
               "wrong-operation": "mismatched-operation", "extra-item": "extra-batch-item"}


def vkey(v):
    return "%d.%d" % (v[0], v[1])


_lead = re.compile(r"^(.*?)(?: sent| missing|:| carries| although|$)")


def prob_key(op, msg):
    m = _lead.match(msg)
    return core.norm_msg(m.group(1) if m else msg)


# ----------------------------------------------------------------------------- response from spec
def response_bytes(spec, op, v, request_op):
    """Encode the scripted reply (before any transport fault)."""
    r = spec["resp"]
    fault = spec.get("fault") or {}
    if fault.get("kind") == "wrong-operation":
        # a well-formed success response, but for another operation than the one requested
        other = OPS[fault["op"]]
        return W.build_response(v, other.code, W.STATUS_SUCCESS,
                                payload_children=other.enc(fault["payload"], v))
    if fault.get("kind") == "extra-item" and r["kind"] == "success":
        return W.build_response(v, request_op, W.STATUS_SUCCESS,
                                payload_children=op.enc(r["payload"], v), repeat=2)
    if r["kind"] == "success":
        p = r["payload"]
        kids = op.enc(p, v)
        data = W.build_response(v, request_op, W.STATUS_SUCCESS, payload_children=kids, hdr=r.get("hdr"))
        # harness self-check: the expectation derived from the wire by the independent decoder
        # equals the expectation derived from the spec
        _, item = W.single_item(data)
        back = op.dec(item["payload"], v)
        for api in op.apis:
            if op.expect(api, back, v) != op.expect(api, p, v):
                raise core.HarnessError("payload codec mismatch for %s: %r vs %r" % (op.name, back, p))
        return data
    return W.build_response(v, request_op if r.get("echo", True) else None, W.STATUS_FAILED,
                            reason=r["reason"], message=r.get("message"), hdr=r.get("hdr"))


def apply_fault(data, fault):
    if not fault:
        return data
    k = fault["kind"]
    if k in ("wrong-operation", "extra-item"):
        return data
    if k == "cut-item":
        # stream ends exactly at an item boundary: before the last leaf item / before the last
        # child of the last structure that has more than one child.  What is left may still be
        # parseable, so only the length-prefixed framing can notice that the stream ended early.
        node = T.parse_one(data)
        size = None
        while "children" in node and node["children"]:
            last = node["children"][-1]
            if fault["level"] == "child" and len(node["children"]) > 1:
                size = 8 + (last["length"] + 7) // 8 * 8
            node = last
        if fault["level"] == "leaf" or size is None:
            size = 8 + (node["length"] + 7) // 8 * 8
        return data[:len(data) - size]
    if k == "truncate":
        # cut strictly inside the message: at least one byte is missing
        at = fault["at"] % len(data)     # negative offsets count from the end
        return data[:at]
    if k == "garbage-tag":
        # well-formed TTLV, but not a ResponseMessage: top-level tag of a RequestMessage
        return bytes([0x42, 0x00, 0x78]) + data[3:]
    if k == "garbage-body":
        body = bytes.fromhex(fault["data"])
        body = body + b"\xff" * (-len(body) % 8)
        # item type 0xFF never exists: the body cannot be TTLV
        body = b"\x42\x00\x7a\xff" + body[4:] if len(body) >= 4 else b"\x42\x00\x7a\xff\x00\x00\x00\x00"
        return bytes([0x42, 0x00, 0x7B, 0x01]) + len(body).to_bytes(4, "big") + body
    raise core.HarnessError("unknown fault %r" % (fault,))


# ----------------------------------------------------------------------------- server-side decoding
def server_decode(req):
    """Decode the request exactly as the PyKMIP server session does; returns the exception or None."""
    from kmip.core import enums, utils
    from kmip.core.messages import messages
    m = messages.RequestMessage()
    try:
        # KmipSession: request.read(data, kmip_version=<engine default, KMIP 1.2>); the batch items
        # are then decoded under the version found in the request header
        m.read(utils.BytearrayStream(req), kmip_version=enums.KMIPVersion.KMIP_1_2)
    except Exception as e:      # noqa
        return e
    return None


def check_request(req, op, api, a, v, cred, buckets, label):
    """Request-side oracle for one emitted request."""
    e = server_decode(req)
    if e is not None:
        buckets.append((core.exc_bucket(PID, "request-undecodable|" + op.name, e),
                        "%s: the server-side decoder rejects the emitted request: %s: %s\nrequest=%s"
                        % (label, type(e).__name__, e, req.hex())))
    try:
        pr = W.parse_request(req)
    except T.TTLVError as e2:
        buckets.append(("C19|request-not-ttlv|%s" % op.name, "%s: %s" % (label, e2)))
        return
    probs, env = [], []
    if tuple(pr["version"]) != tuple(v):
        env.append("protocol version: header carries %r, client kmip_version is %r" % (pr["version"], v))
    if pr["batch_count"] != 1 or len(pr["items"]) != 1:
        env.append("batch count: %r with %d items" % (pr["batch_count"], len(pr["items"])))
    if pr["operation"] != op.code:
        probs.append("operation: request carries %r, expected %r" % (pr["operation"], op.code))
    if cred:
        want = {"type": 1, "username": cred[0], "password": cred[1]}
        if pr["credentials"] != [want]:
            env.append("credential: header carries %r, configured %r" % (pr["credentials"], cred))
    elif pr["credentials"]:
        env.append("credential: header carries %r, none configured" % (pr["credentials"],))
    for msg in env:     # request header: one code path for all operations
        buckets.append(("C19|request-field|header|%s" % prob_key("header", msg),
                        "%s %s: %s" % (label, vkey(v), msg)))
    if pr["payload"] is None:
        probs.append("request payload: missing")
    elif e is None:
        probs.extend(op.check(a, pr["payload"], v, api))
    for msg in probs:
        buckets.append(("C19|request-field|%s|%s" % (op.name, prob_key(op.name, msg)),
                        "%s %s: %s" % (label, vkey(v), msg)))


# ----------------------------------------------------------------------------- outcome oracle
def failure_details(x):
    """(status, reason, message) carried by an operation-failure exception or a result object."""
    if isinstance(x, BaseException):
        msg = getattr(x, "message", None)
        if not hasattr(x, "message"):
            msg = x.args[0] if x.args else None
        return plain(getattr(x, "status", None)), plain(getattr(x, "reason", None)), msg
    if isinstance(x, dict):
        return (plain(x.get("result_status")), plain(x.get("result_reason")),
                plain(x.get("result_message")))
    return (plain(getattr(x, "result_status", None)), plain(getattr(x, "result_reason", None)),
            plain(getattr(x, "result_message", None)))


def is_failure_exc(e):
    from kmip.pie import exceptions as pexc
    from kmip.core import exceptions as cexc
    return isinstance(e, (pexc.KmipOperationFailure, cexc.OperationFailure))


def judge(op, api, v, outcome, wire, buckets, label):
    """outcome = ("ret", value) | ("exc", exception).  wire = dict(kind=success|failure|bad, ...)
    describing what the server really answered (independently of the client)."""
    kind, x = outcome
    tag = "%s.%s" % (api, op.name)
    if wire["kind"] == "bad":
        if kind == "ret":
            buckets.append(("C19|bad-stream-accepted|%s" % wire["fault"],
                            "%s: stream was %s but the call returned %r" % (label, wire["fault"], plain(x))))
        return
    if wire["kind"] == "failure":
        want = (FAILURE_STATUS, wire["reason"], wire["message"])
        if kind == "exc" and not is_failure_exc(x):
            phase = "failure-response|" + ("no-message" if wire["message"] is None else "with-message")
            buckets.append((core.exc_bucket(PID, phase, x),
                            "%s: server answered failure %r; client raised %s: %s\n%s"
                            % (label, want, type(x).__name__, x, _tb(x))))
            return
        if kind == "ret" and api == "pie":
            buckets.append(("C19|failure-reported-as-success|%s" % tag,
                            "%s: server answered failure %r; call returned %r" % (label, want, plain(x))))
            return
        got = failure_details(x)
        if got != want:
            buckets.append(("C19|failure-detail-mismatch|%s" % tag,
                            "%s: server answered (status, reason, message)=%r; client reports %r"
                            % (label, want, got)))
        return
    # success
    if kind == "exc":
        buckets.append((core.exc_bucket(PID, "success-response", x),
                        "%s: server answered success %r; client raised %s: %s\n%s"
                        % (label, wire["payload"], type(x).__name__, x, _tb(x))))
        return
    expected = op.expect(api, wire["payload"], v)
    try:
        observed = op.observe(api, x, v)
    except Exception as e:      # the return value does not have the documented shape
        observed = {"unreadable": "%s: %s" % (type(e).__name__, e)}
    if api == "proxy" and not getattr(op, "proxy_returns_payload", False):
        st = failure_details(x)
        if st[0] != 0:
            buckets.append(("C19|success-status-mismatch|%s" % tag,
                            "%s: server answered success; result object says %r" % (label, st)))
    if observed != expected:
        buckets.append(("C19|success-value-mismatch|%s" % tag,
                        "%s: payload %r\n expected return %r\n observed return %r"
                        % (label, wire["payload"], expected, observed)))


def _tb(e):
    """The frames inside the code under test (harness frames and line numbers would make the
    stored details unstable)."""
    frames = [f for f in traceback.extract_tb(e.__traceback__)
              if "/kmip/" in f.filename.replace("\\", "/") and "/vlib/" not in f.filename]
    return "".join("  %s:%d in %s: %s\n" % (f.filename.split("/kmip/", 1)[1], f.lineno, f.name, f.line)
                   for f in frames[-3:])


def is_refusal(e):
    """The client declined to build the request with a library error class (version / argument
    not supported under this KMIP version).  The property leaves this open."""
    return type(e).__module__ == "kmip.core.exceptions" and not is_failure_exc(e)


# ----------------------------------------------------------------------------- scripted case
def run_scripted(spec):
    """-> dict(buckets=[(key, detail)], classes=[...], nontrivial=bool, refused=bool)."""
    op = OPS[spec["op"]]
    api = spec["api"]
    v = tuple(spec["v"])
    a = spec["args"]
    cred = spec.get("cred")
    fault = spec.get("fault")
    buckets = []
    label = "%s.%s" % (api, op.name)
    state = {"harness": None, "wire": None}

    def responder(req):
        try:
            try:
                rop = W.parse_request(req)["operation"]
            except T.TTLVError:
                rop = op.code
            data = response_bytes(spec, op, v, rop)
            r = spec["resp"]
            if fault:
                if fault["kind"] == "extra-item" and r["kind"] != "success":
                    raise core.HarnessError("extra-item fault needs a success response")
                state["wire"] = {"kind": "bad", "fault": FAULT_LABEL[fault["kind"]]}
            elif r["kind"] == "success":
                state["wire"] = {"kind": "success", "payload": r["payload"]}
            else:
                state["wire"] = {"kind": "failure", "reason": r["reason"], "message": r.get("message")}
            return apply_fault(data, fault)
        except BaseException as e:      # harness trouble must not look like a client problem
            state["harness"] = (e, traceback.format_exc())
            raise

    kv = spec.get("kv", "ctor")
    if kv == "none" and v != (1, 2):
        raise core.HarnessError("kv=none implies KMIP 1.2")
    client, sock = W.make_client(None if kv == "none" else (1, 0) if kv == "setter" else v,
                                 responder, spec.get("chunks"),
                                 username=cred[0] if cred else None,
                                 password=cred[1] if cred else None)
    try:
        if kv == "setter":      # documented: kmip_version can be modified at any time
            client.kmip_version = W.kmip_version_enum(v)
        try:
            if spec.get("ctx") and api == "pie":
                # documented usage: `with client: client.op(...)`; the transport's open/close are
                # stubbed (the fake socket is already in place), the client's own are not
                client._is_open = False
                client.proxy.open = lambda: None
                client.proxy.close = lambda: None
                ret = None      # what the caller has if the with block ends without an exception
                with client:
                    ret = op.call(api, client, a, v)
                outcome = ("ret", ret)
            else:
                outcome = ("ret", op.call(api, client, a, v))
        except Exception as e:      # noqa
            outcome = ("exc", e)
    finally:
        W.release_client(client)
    if state["harness"] is not None:
        raise core.HarnessError("responder failed:\n" + state["harness"][1])

    r = spec["resp"]
    rk = (FAULT_LABEL[fault["kind"]] if fault else
          "success" if r["kind"] == "success" else
          "failure-msg" if r.get("message") is not None else "failure-nomsg")
    classes = ["op:" + label, "v:" + vkey(v), "resp:" + rk, "mode:scripted", "kmip_version:" + kv]
    if spec.get("ctx") and api == "pie":
        classes.append("called-inside-with-block")
    if cred:
        classes.append("credential")
    if r["kind"] == "failure" and not r.get("echo", True):
        classes.append("failure-without-operation-echo")

    if not sock.requests:
        e = outcome[1]
        if outcome[0] == "exc" and is_refusal(e):
            classes.append("refused:" + type(e).__name__)
            return {"buckets": [], "classes": classes, "nontrivial": False, "refused": True}
        if outcome[0] == "exc":
            buckets.append((core.exc_bucket(PID, "no-request|" + op.name, e),
                            "%s(%r) under KMIP %s raised %s: %s before sending anything\n%s"
                            % (label, a, vkey(v), type(e).__name__, e, _tb(e))))
        else:
            buckets.append(("C19|no-request|returned|%s" % label,
                            "%s returned %r without sending a request" % (label, plain(outcome[1]))))
        return {"buckets": buckets, "classes": classes, "nontrivial": False, "refused": False}

    if len(sock.requests) != 1:
        buckets.append(("C19|request-count|%s" % label, "%d requests for one call" % len(sock.requests)))
    check_request(sock.requests[0], op, api, a, v, cred, buckets, label)
    judge(op, api, v, outcome, state["wire"], buckets, label)
    chunks = "2+" if sock.recv_chunks > 2 else "1"
    classes.append("chunks:" + chunks)
    nontrivial = (r["kind"] == "failure" or v != (1, 2) or sock.recv_chunks > 2)
    return {"buckets": buckets, "classes": classes, "nontrivial": nontrivial, "refused": False}


# ----------------------------------------------------------------------------- scripted sequence
def run_scripted_seq(spec):
    """Several calls on ONE client object (spec['calls'] = [{op, args, resp, chunks}], no stream
    faults).  Every call is judged exactly as a single scripted call is; in addition every value
    the client handed back earlier must still read the same after the later calls (a result is
    the caller's: a later call must not rewrite it), and a later result must not carry anything
    left over from an earlier answer (that is the ordinary per-call comparison)."""
    import copy
    api = spec["api"]
    v = tuple(spec["v"])
    calls = spec["calls"]
    buckets = []
    cur = {"i": 0}
    state = {"harness": None, "wires": {}}

    def responder(req):
        try:
            c = calls[cur["i"]]
            op = OPS[c["op"]]
            try:
                rop = W.parse_request(req)["operation"]
            except T.TTLVError:
                rop = op.code
            one = {"resp": c["resp"], "fault": None}
            data = response_bytes(one, op, v, rop)
            r = c["resp"]
            if r["kind"] == "success":
                state["wires"][cur["i"]] = {"kind": "success", "payload": r["payload"]}
            else:
                state["wires"][cur["i"]] = {"kind": "failure", "reason": r["reason"],
                                            "message": r.get("message")}
            return data
        except BaseException as e:
            state["harness"] = (e, traceback.format_exc())
            raise

    client, sock = W.make_client(v, responder, spec.get("chunks"))
    kept = []       # (index, op, returned object, observation at return time)
    classes = ["mode:scripted-seq", "v:" + vkey(v), "seq:len=%d" % len(calls)]
    kinds = []
    refused = 0
    try:
        for i, c in enumerate(calls):
            cur["i"] = i
            op = OPS[c["op"]]
            label = "%s.%s (call %d of %d on one client)" % (api, op.name, i + 1, len(calls))
            nreq = len(sock.requests)
            try:
                outcome = ("ret", op.call(api, client, c["args"], v))
            except Exception as e:      # noqa
                outcome = ("exc", e)
            if state["harness"] is not None:
                raise core.HarnessError("responder failed:\n" + state["harness"][1])
            if len(sock.requests) == nreq:
                e = outcome[1]
                if outcome[0] == "exc" and is_refusal(e):
                    refused += 1
                    kinds.append("refused")
                    continue
                if outcome[0] == "exc":
                    buckets.append((core.exc_bucket(PID, "no-request|" + op.name, e),
                                    "%s raised %s: %s before sending anything\n%s"
                                    % (label, type(e).__name__, e, _tb(e))))
                else:
                    buckets.append(("C19|no-request|returned|%s.%s" % (api, op.name),
                                    "%s returned %r without sending a request"
                                    % (label, plain(outcome[1]))))
                kinds.append("nothing-sent")
                continue
            check_request(sock.requests[-1], op, api, c["args"], v, None, buckets, label)
            judge(op, api, v, outcome, state["wires"][i], buckets, label)
            kinds.append(c["resp"]["kind"])
            classes.append("op:%s.%s" % (api, op.name))
            if outcome[0] == "ret":
                try:
                    snap = copy.deepcopy(_observation(op, api, outcome[1], v))
                except Exception:
                    continue
                kept.append((i, op, outcome[1], snap))
        for i, op, obj, snap in kept:
            try:
                now = _observation(op, api, obj, v)
            except Exception as e:
                now = {"unreadable": "%s: %s" % (type(e).__name__, e)}
            if now != snap:
                buckets.append(("C19|earlier-result-rewritten|%s.%s" % (api, op.name),
                                "the value returned by call %d (%s.%s) read %r when it was "
                                "returned and reads %r after the later calls of the sequence"
                                % (i + 1, api, op.name, snap, now)))
    finally:
        W.release_client(client)
    classes.append("seq:kinds=" + ">".join(kinds))
    nontrivial = len([k for k in kinds if k in ("success", "failure")]) >= 2
    return {"buckets": buckets, "classes": classes, "nontrivial": nontrivial,
            "refused": refused == len(calls)}


def _observation(op, api, x, v):
    """What a caller can read from a returned value: the operation's own extraction plus, for
    result objects / dictionaries, the status triple."""
    out = {"value": op.observe(api, x, v)}
    if api == "proxy" and not getattr(op, "proxy_returns_payload", False):
        out["status"] = failure_details(x)
    if isinstance(x, dict):
        out["keys"] = sorted(str(k) for k in x)
    return out
