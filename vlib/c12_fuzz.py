"""atheris/libFuzzer stage of C12 (thorough tier only; run as a subprocess by vlib.props.c12).

usage: python -m vlib.c12_fuzz <outdir> <seed> <runs> <seeded|empty>

Target `fuzz_session`: byte 0 of the input picks the recv chunk schedule, byte 1 the final valid
request (read-only requests under several versions whose natural answers on the template store are
computed once, on a fresh connection); the remaining bytes are the attacker's part of the stream.
The stream attacker-bytes + valid request is fed to a real KmipSession._handle_message_loop in
front of a real engine; the per-frame oracle of C12 (vlib.props.c12.check_frames: one answer per
complete frame, envelope, Invalid Message / engine not entered / store unchanged for undecodable
frames, nothing escapes the loop, step budgets) runs inside the target, plus: when the final
request sits at its own frame and no earlier frame changed the store, its answer is byte for byte
the natural one.  One engine is kept for speed; after an iteration in which the database file
changed the server is rebuilt from the template, so a saved input reproduces on its own (findings
are stored as C12 case specs and re-run by the main oracle).  Oracle failures do not crash the
fuzzer: they go to <outdir>/findings.json (bucket -> smallest input) and the search continues.
"""
import json
import os
import sys

import atheris

with atheris.instrument_imports(include=["kmip.core", "kmip.services.server.session"]):
    import kmip.core.primitives          # noqa: F401
    import kmip.core.utils               # noqa: F401
    import kmip.core.objects             # noqa: F401
    import kmip.core.secrets             # noqa: F401
    import kmip.core.messages.contents   # noqa: F401
    import kmip.core.messages.payloads   # noqa: F401
    import kmip.core.messages.messages   # noqa: F401
    import kmip.services.server.session  # noqa: F401

from vlib import core, harness as H, store   # noqa: E402
from vlib.props import c12                   # noqa: E402


def good_requests(idx):
    sk = idx["SymmetricKey/ACTIVE"]
    return [
        {"v": [1, 2], "items": [{"op": "Get", "uid": sk}]},
        {"v": [1, 0], "items": [{"op": "GetAttributes", "uid": idx["SymmetricKey/PRE_ACTIVE"]}]},
        {"v": [2, 0], "items": [{"op": "GetAttributeList", "uid": sk}]},
        {"v": [1, 4], "items": [{"op": "Locate", "attrs": [["Object Type", "SymmetricKey"]]}]},
        {"v": [1, 1], "items": [{"op": "Query"}]},
        {"v": [1, 3], "items": [{"op": "Get", "uid": "9999"}]},
        {"v": [2, 0], "items": [{"op": "Get", "uid": idx["Certificate/ACTIVE"]},
                                {"op": "Query"}]},
        {"v": [1, 2], "items": [{"op": "Encrypt", "uid": sk,
                                 "params": {"alg": "AES", "mode": "CBC", "pad": "PKCS5"},
                                 "data": "00" * 16, "iv": "11" * 16}]},
    ]


def write_seeds(corpus):
    n = 0
    units = c12.sweep_units()
    for j, (v, op, it, nn) in enumerate(units):
        try:
            data = H.encode_request({"v": list(v), "items": [it]})
        except Exception:
            continue
        if len(data) > 2000:
            continue
        with open(os.path.join(corpus, "%05d" % n), "wb") as f:
            f.write(bytes([j % 7, j % 5]) + data)
        n += 1
    # a few two-frame streams and header variants
    q = H.encode_request({"v": [1, 2], "items": [{"op": "Query"}]})
    for hv in c12.HEADER_VARIANTS:
        try:
            d = H.encode_request(c12._resolve(dict({"v": [1, 4], "items": [{"op": "Query"}]}, **hv)))
        except Exception:
            continue
        with open(os.path.join(corpus, "%05d" % n), "wb") as f:
            f.write(bytes([n % 11, n % 3]) + d + q)
        n += 1
    return n


DICTIONARY = [
    b"\x42\x00\x78\x01", b"\x42\x00\x77\x01\x00\x00\x00\x38", b"\x42\x00\x69\x01\x00\x00\x00\x20",
    b"\x42\x00\x6a\x02\x00\x00\x00\x04\x00\x00\x00\x01\x00\x00\x00\x00",
    b"\x42\x00\x6b\x02\x00\x00\x00\x04\x00\x00\x00\x02\x00\x00\x00\x00",
    b"\x42\x00\x6a\x02\x00\x00\x00\x04\x00\x00\x00\x02\x00\x00\x00\x00",
    b"\x42\x00\x6b\x02\x00\x00\x00\x04\x00\x00\x00\x00\x00\x00\x00\x00",
    b"\x42\x00\x0d\x02\x00\x00\x00\x04\x00\x00\x00\x01\x00\x00\x00\x00",
    b"\x42\x00\x0f\x01", b"\x42\x00\x5c\x05\x00\x00\x00\x04", b"\x42\x00\x79\x01",
    b"\x42\x00\x94\x07", b"\x42\x00\x50\x02\x00\x00\x00\x04", b"\x42\x00\x93\x08",
    b"\x42\x00\x07\x06\x00\x00\x00\x08", b"\x42\x00\x92\x09\x00\x00\x00\x08",
    b"\x00\x00\x00\x18\x00\x00\x00\x00", b"\xff\xff\xff\xff", b"\x00\x00\x00\x00"]


def write_dictionary(path):
    """libFuzzer dictionary of TTLV item headers (KMIP tag table); the empty-corpus run starts
    from these tokens alone."""
    with open(path, "w") as f:
        for i, tok in enumerate(DICTIONARY):
            f.write('t%d="%s"\n' % (i, "".join("\\x%02x" % b for b in tok)))


def main():
    outdir, seed, runs, kind = sys.argv[1], int(sys.argv[2]), int(sys.argv[3]), sys.argv[4]
    corpus = os.path.join(outdir, "corpus")
    os.makedirs(corpus, exist_ok=True)
    # libFuzzer leaves through _exit: all temporary databases go below one directory that the
    # parent removes
    import tempfile
    work = tempfile.mkdtemp(prefix="c12-fuzz-work-", dir=os.environ.get("VERIF_TMP"))
    os.environ["VERIF_TMP"] = work
    with open(os.path.join(outdir, "workdir.txt"), "w") as f:
        f.write(work)
    db, idx = store.standard_template()
    nseeds = write_seeds(corpus) if kind == "seeded" else 0

    goods = []
    for req in good_requests(idx):
        data = H.encode_request(req)
        srv, _ = store.fresh_server()
        H.CLOCK.now = c12.T0
        obs = c12.drive(srv, data, [])
        srv.close()
        if len(obs.sent.get(0, [])) != 1 or obs.errors:
            raise core.HarnessError("fuzz stage: no natural answer for %r" % (req,))
        goods.append((req, data, obs.sent[0][0]))

    state = {"srv": store.fresh_server()[0]}
    with open(db, "rb") as f:
        pristine = f.read()
    findings = {}
    stats = {"execs": 0, "frames": 0, "frames_undecodable": 0, "frames_nontrivial": 0,
             "frames_engine_entered": 0, "final_in_place": 0, "store_restores": 0,
             "seeds": nseeds}

    def flush():
        tmp = os.path.join(outdir, "findings.json.tmp")
        with open(tmp, "w") as f:
            json.dump({"findings": findings, "stats": stats}, f)
        os.replace(tmp, os.path.join(outdir, "findings.json"))

    def fuzz_session(data):
        stats["execs"] += 1
        if stats["execs"] % 250 == 0:
            flush()
        if len(data) < 2:
            return
        chunks = c12.SCHEDULES[data[0] % len(c12.SCHEDULES)]
        req, good, natural = goods[data[1] % len(goods)]
        prefix = bytes(data[2:])
        stream = prefix + good
        frames, tail = c12.split_frames(stream)
        srv = state["srv"]
        H.CLOCK.now = c12.T0
        obs = c12.drive(srv, stream, chunks)
        B = {}
        info = []
        c12.check_frames(stream, obs, tail, B, info)
        stats["frames"] += len(info)
        for f in info:
            stats["frames_undecodable"] += bool(f["undecodable"])
            stats["frames_nontrivial"] += bool(f["undecodable"] and f["J"]["depth"] >= 2)
            stats["frames_engine_entered"] += f["outcome"] in ("engine", "lenient-accept")
        aligned = bool(frames) and frames[-1] == (len(prefix), len(stream))
        dirty = obs.final_dump != pristine
        if aligned:
            stats["final_in_place"] += 1
            before = obs.dumps.get(len(prefix))
            if before == pristine:
                got = c12._outcome(obs, len(frames) - 1)
                if got != ([natural], []):
                    B.setdefault("C12|final-request|answer-differs-from-fresh-connection",
                                 "store untouched by %d earlier frame(s); answer %s errors %s; on "
                                 "a fresh connection %s" % (len(frames) - 1,
                                                            [c12._brief(r) for r in got[0]],
                                                            got[1], c12._brief(natural)))
        if dirty:
            stats["store_restores"] += 1
            srv.close()
            state["srv"] = store.fresh_server()[0]
        for key, detail in B.items():
            cur = findings.get(key)
            if cur is None or len(data) < cur["size"]:
                findings[key] = {
                    "size": len(data), "detail": detail[:800],
                    "spec": {"bad": [{"raw": prefix.hex(), "hdr": "none"}] if prefix else [],
                             "good": req, "mrs": None, "chunks": chunks, "chunks2": [1]}}
                flush()

    flush()
    dict_path = os.path.join(outdir, "ttlv.dict")
    write_dictionary(dict_path)
    args = [sys.argv[0], corpus, "-runs=%d" % runs, "-seed=%d" % (seed % (2 ** 31)),
            "-max_len=3000", "-timeout=60", "-print_final_stats=0", "-verbosity=0",
            "-dict=%s" % dict_path,
            "-artifact_prefix=%s/" % outdir]
    atheris.Setup(args, fuzz_session)
    try:
        atheris.Fuzz()
    finally:
        flush()
        try:
            state["srv"].close()
        except Exception:
            pass


if __name__ == "__main__":
    main()
