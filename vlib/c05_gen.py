"""C05 generator: JSON-able case specs.

case = {
  "path": "raw" | "pie" | "proxy",       # harness.Client payloads | ProxyKmipClient | KMIPProxy
  "v": [major, minor],
  "how": "register" | "create" | "keypair" | "derive",
  "obj": {...},                           # register: harness.secret spec (type, value, alg, len, fmt, wrap, ...)
  "attrs": [[name, value], ...],          # attributes supplied at creation, in order
  "pub": [...], "priv": [...],            # keypair: specific attributes ("attrs" = common)
  "derive": {"otype","method","dp","base_len"},
  "pre": n,                               # objects created before (uid offset)
  "before": [step, ...],                  # optional history before the target is stored: other objects
                                          # created / changed / destroyed (the newest one last), restart
  "inter": [step, ...],                   # operations on OTHER objects / restarts before reading back
  "again": [step, ...],                   # between the two read-backs
}
Probability-weighted "probe" branches produce the features of confirmed defects; excluded() in
props/c05.py recognises them from the spec and keeps them out of the bulk search."""
from hypothesis import strategies as st

from kmip.core import enums as E

from vlib import harness as H

VERSIONS = H.VERSIONS
ASCII = "".join(chr(c) for c in range(0x20, 0x7f))
KNOWN_MASK = H.all_mask()
POLICIES = ["default", "pol-a", "p" * 60]

KEY_TYPES = ["SymmetricKey", "PublicKey", "PrivateKey", "SplitKey"]
FORMATS = {"SymmetricKey": ["RAW"],
           "PublicKey": ["RAW", "X_509", "PKCS_1"],
           "PrivateKey": ["RAW", "PKCS_1", "PKCS_8"],
           "SplitKey": ["RAW", "OPAQUE", "PKCS_1", "PKCS_8", "X_509", "EC_PRIVATE_KEY"]}
MULTI = ("Name", "Object Group", "Application Specific Information")


def names(cls):
    return [m.name for m in cls]


_raw = st.integers(0, 2 ** 24)


def _mix(x, n):
    """Hypothesis favours small / boundary integers; spread them so that 1-in-n really is rare."""
    return ((x * 2654435761) >> 5) % n


def chance(draw, n):
    """True about once in n draws."""
    return _mix(draw(_raw), n) == n // 2 if n > 1 else True


def weighted(*pairs):
    """pairs of (weight, strategy)."""
    pool = []
    for w, s in pairs:
        pool += [s] * w
    return _raw.flatmap(lambda x: pool[_mix(x, len(pool))])


# mostly printable ASCII, some text outside it (2- to 4-byte UTF-8 sequences)
# ... and combining marks / singletons, so that texts occur that are not in a Unicode normal form
CHARS = ASCII * 6 + u"\u00e9\u00fc\u00df\u0142\u03a9\u0416\u05d0\u4e2d\u6f22\u20ac\U0001f511e\u0301\u030a\u212b\u2126"
txt = st.text(alphabet=CHARS, min_size=0, max_size=20)
txt1 = st.text(alphabet=CHARS, min_size=1, max_size=20)
long_txt = st.text(alphabet=ASCII, min_size=200, max_size=300)
name_txt = weighted((8, txt1), (1, st.just("")), (1, long_txt))


def hexs(s):
    return s.map(lambda b: b.hex())


any_bytes = weighted((1, st.just(b"")), (2, st.binary(min_size=1, max_size=1)),
                     (5, st.binary(min_size=2, max_size=64)), (2, st.binary(min_size=1025, max_size=1300)))
some_bytes = weighted((2, st.binary(min_size=1, max_size=1)), (5, st.binary(min_size=2, max_size=64)),
                      (2, st.binary(min_size=1025, max_size=1300)))
small_int = st.sampled_from([0, 0, 1, 12, 16, 96, 255, 65536, 2 ** 31 - 1])
length_s = st.sampled_from([0, 1, 8, 128, 192, 256, 1024, 2048, 4096, 2 ** 31 - 1])


# ----------------------------------------------------------------------------- wrapping data
def params_s(probe):
    opt = {"mode": st.sampled_from(names(E.BlockCipherMode)),
           "pad": st.sampled_from(names(E.PaddingMethod)),
           "hash": st.sampled_from(names(E.HashingAlgorithm)),
           "role": st.sampled_from(names(E.KeyRoleType)),
           "dsa": st.sampled_from(names(E.DigitalSignatureAlgorithm)),
           "alg": st.sampled_from(names(E.CryptographicAlgorithm)),
           "random_iv": st.booleans(), "iv_length": small_int, "tag_length": small_int,
           "fixed_field_length": small_int, "invocation_field_length": small_int,
           "counter_length": small_int, "initial_counter_value": small_int}
    full = st.fixed_dictionaries({}, optional=opt)
    truthy = full.filter(lambda d: any(d.values()))
    # parameters that are all zero / False are parameters like any other (the defect that lost them
    # is repaired): built directly, one wrapped key in seven carries such a set
    fopt = {k: (st.just(False) if k == "random_iv" else st.just(0)) for k in opt
            if k in ("random_iv", "iv_length", "tag_length", "fixed_field_length",
                     "invocation_field_length", "counter_length", "initial_counter_value")}
    falsy = st.fixed_dictionaries({}, optional=fopt).filter(lambda d: d)
    return weighted((30, truthy), (12, falsy), (4, st.none()))


def info_s(probe):
    return st.fixed_dictionaries({"uid": txt1, "params": params_s(probe)})


def wrap_s(probe):
    return st.fixed_dictionaries(
        {"method": st.sampled_from(names(E.WrappingMethod))},
        optional={"eki": info_s(probe), "mski": info_s(probe), "mac": hexs(any_bytes),
                  "iv": hexs(any_bytes), "enc": st.sampled_from(names(E.EncodingOption))})


# ----------------------------------------------------------------------------- objects
@st.composite
def obj_s(draw, t, probe=True):
    P = (lambda n: chance(draw, n)) if probe else (lambda n: False)
    if t in KEY_TYPES:
        wrap = draw(wrap_s(probe)) if draw(st.integers(0, 2)) == 0 else None
        alg = draw(st.sampled_from(names(E.CryptographicAlgorithm)))
        fmt = draw(st.sampled_from(FORMATS[t]))
        if t == "SymmetricKey" and wrap is None:
            # the library checks the length of an unwrapped symmetric key against its value
            val = draw(weighted((1, st.just(b"")), (2, st.binary(min_size=1, max_size=1)),
                                (6, st.sampled_from([8, 16, 24, 32, 64]).flatmap(
                                    lambda n: st.binary(min_size=n, max_size=n))),
                                (2, st.binary(min_size=1025, max_size=1300))))
            ln = len(val) * 8
        else:
            val = draw(any_bytes)
            ln = draw(length_s)
        o = {"type": t, "value": val.hex(), "alg": alg, "len": ln, "fmt": fmt}
        if wrap is not None:
            o["wrap"] = wrap
        if t == "SplitKey":
            method = draw(st.sampled_from(names(E.SplitKeyMethod)))
            o.update(parts=draw(st.sampled_from([0, 1, 2, 3, 5, 255, 2 ** 31 - 1])),
                     part_id=draw(st.sampled_from([0, 1, 2, 3, 255, 2 ** 31 - 1])),
                     threshold=draw(st.sampled_from([0, 1, 2, 3, 255, 2 ** 31 - 1])),
                     method=method)
            if method == "POLYNOMIAL_SHARING_PRIME_FIELD" or draw(st.integers(0, 3)) == 0:
                o["prime"] = draw(weighted(
                    (12, st.sampled_from([2, 104729, 2 ** 31 - 1, 2 ** 61 - 1, 2 ** 63 - 25])),
                    (1 if probe else 0, st.sampled_from([2 ** 63, 2 ** 64 + 13, 2 ** 127 - 1, 2 ** 521 - 1])),
                    (3, st.just(0))))
        return o
    if t == "Certificate":
        return {"type": t, "value": draw(any_bytes).hex(),
                "ctype": "PGP" if P(60) else "X_509"}
    if t == "SecretData":
        o = {"type": t, "value": draw(any_bytes).hex(),
             "dtype": draw(st.sampled_from(names(E.SecretDataType)))}
        if P(50):
            o["fmt"] = "RAW"
        if P(50):
            o["alg"] = draw(st.sampled_from(["AES", "HMAC_SHA256"]))
            o["len"] = draw(st.sampled_from([8, 128]))
        return o
    if t == "OpaqueData":
        return {"type": t, "value": draw(any_bytes).hex(),
                "otype": draw(st.sampled_from(names(E.OpaqueDataType)))}
    raise ValueError(t)


# ----------------------------------------------------------------------------- attributes
def mask_s(probe):
    return weighted((6, st.just(0)), (6, st.just(KNOWN_MASK)),
                    (9, st.sampled_from(list(E.CryptographicUsageMask)).map(lambda m: m.value)),
                    (18, st.integers(0, KNOWN_MASK)),
                    (1 if probe else 0, st.tuples(st.integers(0, KNOWN_MASK), st.integers(24, 30)).map(
                        lambda p: p[0] | (1 << p[1]))))


@st.composite
def attrs_s(draw, t, v, rich=True, probe=True, need_mask=False, own=None):
    """Supplied attributes for an object of type t under version v.  rich=False: what the pie
    object model can carry (text names, mask, policy name, application specific information)."""
    v = tuple(v)
    out = []
    cap = 3
    if v >= (2, 0) and rich and not chance(draw, 8):
        cap = 1       # KMIP 2.0 requests carry no attribute index: the server accepts one instance
    nn = draw(st.integers(0, cap))
    if not rich and not (probe and chance(draw, 25)):
        nn = min(nn, 1)     # ProxyKmipClient.register sends several names without index (confirmed defect)
    seen = set()
    for _ in range(nn):
        s = draw(name_txt)
        if s in seen:
            continue
        seen.add(s)
        uri = rich and probe and chance(draw, 60)
        out.append(["Name", {"v": s, "t": "URI" if uri else "UNINTERPRETED_TEXT_STRING"}])
    if rich:
        for _ in range(draw(st.integers(0, cap))):
            out.append(["Object Group", draw(weighted((6, txt), (2, st.sampled_from(["g1", "g2"])), (1, long_txt)))])
    if rich or t in ("SymmetricKey", "PublicKey", "PrivateKey"):
        for _ in range(draw(st.integers(0, cap))):
            out.append(["Application Specific Information",
                        {"ns": draw(weighted((6, txt), (2, st.sampled_from(["ssl", "ns"])))),
                         "data": draw(weighted((6, txt), (1, long_txt)))}])
    if t != "OpaqueData" and (need_mask or draw(st.integers(0, 3)) != 0):
        out.append(["Cryptographic Usage Mask", draw(mask_s(probe and rich))])
    if draw(st.integers(0, 2)) == 0:
        if v < (2, 0) or chance(draw, 6):
            out.append(["Operation Policy Name", draw(st.sampled_from(POLICIES))])
    if rich:
        if draw(st.integers(0, 2)) == 0 and (v >= (1, 4) or chance(draw, 20)):
            out.append(["Sensitive", draw(st.booleans())])
    elif probe and chance(draw, 30):
        out.append(["Sensitive", True])
    if rich and probe and t == "Certificate" and chance(draw, 40):
        out.append(draw(st.sampled_from([["Cryptographic Length", 2048], ["Cryptographic Algorithm", "RSA"]])))
    if rich and own is not None:
        if draw(st.integers(0, 3)) == 0:
            out.append(["Cryptographic Algorithm", own[0]])
        if draw(st.integers(0, 3)) == 0:
            out.append(["Cryptographic Length", own[1]])
    # any order; the relative order inside a multivalued attribute is what the oracle looks at
    return draw(st.permutations(out))


# ----------------------------------------------------------------------------- other operations
def steps_s(v, restarts=True):
    v = tuple(v)
    fd = st.fixed_dictionaries
    idx = st.integers(0, 7)
    pool = [
        fd({"k": st.just("create"), "who": st.sampled_from(["alice", "bob"]), "share": st.booleans()}),
        fd({"k": st.just("create"), "who": st.sampled_from(["alice", "bob"]), "share": st.booleans()}),
        fd({"k": st.just("register"), "t": st.sampled_from(H.OBJECT_TYPES), "share": st.booleans()}),
        fd({"k": st.just("destroy"), "i": idx}),
        fd({"k": st.just("activate"), "i": idx}),
        fd({"k": st.just("revoke"), "i": idx}),
        fd({"k": st.just("modify"), "i": idx, "attr": st.sampled_from(MULTI), "val": txt1}),
        fd({"k": st.just("delete"), "i": idx, "attr": st.sampled_from(MULTI), "index": st.integers(0, 2)}),
        fd({"k": st.just("locate")}),
        fd({"k": st.just("read-target"), "i": idx,
            "mode": st.sampled_from(["get", "wrapped", "wrapped+commit", "wrapped+get", "attrs+commit", "get+commit"])}),
        fd({"k": st.just("read-target"), "i": idx,
            "mode": st.sampled_from(["wrapped+commit", "wrapped+commit", "wrapped+get", "get+commit"])}),
        fd({"k": st.just("tick"), "n": st.integers(1, 100000)}),
    ]
    if v >= (2, 0):
        pool.append(fd({"k": st.just("set"), "i": idx, "val": st.booleans()}))
    if restarts:
        pool += [fd({"k": st.just("restart")})] * 3
    return st.lists(st.one_of(*pool), min_size=0, max_size=8).map(_cap_restarts)


def _cap_restarts(steps):
    out, n = [], 0
    for s in steps:
        if s["k"] == "restart":
            n += 1
            if n > 2:
                continue
        out.append(s)
    return out


# ----------------------------------------------------------------------------- cases
PATHS = ["raw", "pie", "proxy"]
KINDS = H.OBJECT_TYPES + ["create", "keypair", "derive"]

DERIVE = st.sampled_from([
    {"method": "HASH", "dp": {"params": {"hash": "SHA_256"}}},
    {"method": "HASH", "dp": {"params": {"hash": "SHA_512"}}},
    {"method": "HMAC", "dp": {"params": {"hash": "SHA_256"}, "data": "a1a2", "salt": "0b0c"}},
    {"method": "HMAC", "dp": {"params": {"hash": "SHA_1"}, "data": "", "salt": "00"}},
    {"method": "PBKDF2", "dp": {"params": {"hash": "SHA_256"}, "salt": "73616c74", "iter": 3}},
    {"method": "ENCRYPT", "dp": {"params": {"alg": "AES", "mode": "CBC", "pad": "PKCS5"},
                                 "data": "00112233445566778899aabbccddeeff", "iv": "00" * 16}},
])


@st.composite
def case_s(draw, path, kind, probe=True):
    v = list(draw(st.sampled_from(VERSIONS)))
    rich = path != "pie"
    spec = {"path": path, "v": v}
    if kind in H.OBJECT_TYPES:
        o = draw(obj_s(kind, probe))
        spec.update(how="register", obj=o)
        own = (o["alg"], o["len"]) if kind in KEY_TYPES else None
        spec["attrs"] = draw(attrs_s(kind, v, rich, probe, own=own))
    elif kind == "create":
        alg, ln = draw(st.sampled_from([("AES", 128), ("AES", 192), ("AES", 256), ("TRIPLE_DES", 192),
                                        ("TRIPLE_DES", 64), ("BLOWFISH", 128), ("BLOWFISH", 448),
                                        ("CAMELLIA", 256), ("RC4", 40), ("CAST5", 80), ("IDEA", 128),
                                        ("HMAC_SHA256", 256)]))
        spec.update(how="create", alg=alg, len=ln)
        spec["attrs"] = draw(attrs_s("SymmetricKey", v, rich, probe, need_mask=True))
    elif kind == "keypair":
        spec.update(how="keypair", alg="RSA", len=draw(st.sampled_from([1024, 1024, 1024, 1024, 2048])))
        common = draw(attrs_s("PrivateKey", v, rich, probe))
        # names must differ between the two keys only if the client wants so; a common name is legal
        spec["attrs"] = [a for a in common if a[0] not in ("Cryptographic Usage Mask",)]
        for side in ("pub", "priv"):
            extra = draw(attrs_s("PrivateKey", v, rich, probe, need_mask=True))
            spec[side] = [a for a in extra if a[0] in ("Name", "Cryptographic Usage Mask")]
    else:
        d = dict(draw(DERIVE))
        d["otype"] = draw(st.sampled_from(["SymmetricKey", "SymmetricKey", "SecretData"]))
        d["base_len"] = draw(st.sampled_from([16, 32]))
        ln = draw(st.sampled_from([64, 128, 160, 256]))
        if d["method"] == "ENCRYPT":
            ln = 128
        spec.update(how="derive", derive=d, alg=draw(st.sampled_from(["AES", "HMAC_SHA256", "TRIPLE_DES"])),
                    len=ln)
        spec["attrs"] = draw(attrs_s(d["otype"], v, rich, probe))
    if path == "pie" and spec["how"] != "register":
        # create / create_key_pair / derive_key take one name, a mask and a policy name
        for part in ("attrs", "pub", "priv"):
            kept, named = [], False
            for a in spec.get(part, []):
                if a[0] == "Application Specific Information" or (a[0] == "Name" and (named or not a[1]["v"])):
                    continue
                named = named or a[0] == "Name"
                kept.append(a)
            if part in spec:
                spec[part] = kept
    if path == "pie":
        spec["mshape"] = draw(st.sampled_from([0, 0, 1, 2, 3]))     # see c05_exec._masks
    spec["pre"] = draw(st.sampled_from([0, 0, 1, 3]))
    if draw(st.integers(0, 2)) == 0:
        hist = draw(steps_s(v))
        hist = [s_ for s_ in hist if s_["k"] != "read-target"]
        hist.append({"k": "rich-then-destroy", "t": draw(st.sampled_from(H.OBJECT_TYPES)),
                     "share": draw(st.booleans())})
        if draw(st.booleans()):
            hist.append({"k": "restart"})
        spec["before"] = hist
    spec["inter"] = draw(steps_s(v))
    spec["again"] = draw(weighted((2, st.just([])), (1, steps_s(v))))
    n = 0
    for part in ("inter", "again"):       # 0-2 restarts per case
        kept = []
        for s_ in spec[part]:
            if s_["k"] == "restart":
                n += 1
                if n > 2:
                    continue
            kept.append(s_)
        spec[part] = kept
    return spec
