"""Independent reference implementations for property C06.

Nothing in this module imports or calls `kmip`.  The references are

 * hashlib / hmac                     : HASH, HMAC, PBKDF2
 * hand-written RFC 5869              : HKDF (extract-then-expand)
 * hand-written SP 800-108 counter KDF: HMAC PRF, 32-bit big-endian counter before the fixed data
 * hand-written RFC 3394              : AES key wrap / unwrap   } on top of a raw single-block
 * hand-written RFC 4493 / SP 800-38B : CMAC (64/128-bit blocks) } ECB primitive from `cryptography`
 * hand-written PKCS#7 and ANSI X.923 padding
 * direct `Cipher(alg(key), mode(iv))` use of `cryptography` for the encryption differential
 * hand-written RSASSA-PKCS1-v1_5 (EMSA encoding + modular exponentiation) and RSASSA-PSS
   verification (RFC 8017 9.1.2, any salt length) on the integers of the key

All algorithm/hash/mode names are the *names* of the KMIP enumeration members (strings); the
tables that map those names to constructions are written here from the KMIP specification and the
algorithm standards, not taken from the code under test.
"""
import hashlib
import hmac as _hmac
import warnings

warnings.filterwarnings("ignore")

from cryptography.hazmat.primitives import serialization  # noqa: E402
from cryptography.hazmat.primitives.asymmetric import rsa  # noqa: E402
from cryptography.hazmat.primitives.ciphers import Cipher, modes  # noqa: E402
from cryptography.hazmat.primitives.ciphers import algorithms as _alg_new  # noqa: E402

try:  # cryptography >= 43 moved the legacy ciphers
    from cryptography.hazmat.decrepit.ciphers import algorithms as _alg_old  # noqa: E402
except Exception:  # pragma: no cover
    _alg_old = _alg_new


def _cls(name):
    return getattr(_alg_old, name, None) or getattr(_alg_new, name)


# ------------------------------------------------------------------ tables (KMIP names)
# KMIP HashingAlgorithm member name -> hashlib name
HASHES = {"MD5": "md5", "SHA_1": "sha1", "SHA_224": "sha224", "SHA_256": "sha256",
          "SHA_384": "sha384", "SHA_512": "sha512"}
# KMIP CryptographicAlgorithm member name (HMAC family) -> hashlib name
HMAC_ALGS = {"HMAC_MD5": "md5", "HMAC_SHA1": "sha1", "HMAC_SHA224": "sha224",
             "HMAC_SHA256": "sha256", "HMAC_SHA384": "sha384", "HMAC_SHA512": "sha512"}
# KMIP DigitalSignatureAlgorithm member name -> KMIP HashingAlgorithm member name
DSA_HASH = {"MD5_WITH_RSA_ENCRYPTION": "MD5", "SHA1_WITH_RSA_ENCRYPTION": "SHA_1",
            "SHA224_WITH_RSA_ENCRYPTION": "SHA_224", "SHA256_WITH_RSA_ENCRYPTION": "SHA_256",
            "SHA384_WITH_RSA_ENCRYPTION": "SHA_384", "SHA512_WITH_RSA_ENCRYPTION": "SHA_512"}
HASH_DSA = {v: k for k, v in DSA_HASH.items()}

# symmetric algorithms: class, block size in bytes (None: stream cipher), valid key sizes in bits
CIPHERS = {
    "AES": ("AES", 16, [128, 192, 256]),
    "TRIPLE_DES": ("TripleDES", 8, [64, 128, 192]),
    "BLOWFISH": ("Blowfish", 8, list(range(32, 449, 8))),
    "CAMELLIA": ("Camellia", 16, [128, 192, 256]),
    "CAST5": ("CAST5", 8, list(range(40, 129, 8))),
    "IDEA": ("IDEA", 8, [128]),
    "RC4": ("ARC4", None, [40, 56, 64, 80, 128, 160, 192, 256]),
}
BLOCK_MODES = ["CBC", "ECB", "OFB", "CFB", "CTR", "GCM"]
IV_MODES = ["CBC", "OFB", "CFB", "CTR", "GCM"]
PAD_MODES = ["CBC", "ECB"]          # modes that work on whole blocks only
PADDINGS = ["PKCS5", "ANSI_X923"]


def block_bytes(alg):
    return CIPHERS[alg][1]


def key_sizes(alg):
    return CIPHERS[alg][2]


def cipher_obj(alg, key):
    return _cls(CIPHERS[alg][0])(key)


# ------------------------------------------------------------------ hash / hmac / kdfs
def hash_ref(hname, data):
    return hashlib.new(HASHES[hname], data).digest()


def hmac_ref(hashlib_name, key, data):
    return _hmac.new(key, data, hashlib_name).digest()


def pbkdf2_ref(hname, password, salt, iterations, length):
    return hashlib.pbkdf2_hmac(HASHES[hname], password, salt, iterations, length)


def hkdf_ref(hname, ikm, salt, info, length):
    """RFC 5869.  salt None/empty -> HashLen zero bytes; info None -> empty."""
    h = HASHES[hname]
    hlen = hashlib.new(h).digest_size
    if length > 255 * hlen:
        raise ValueError("HKDF output too long")
    if not salt:
        salt = b"\x00" * hlen
    prk = _hmac.new(salt, ikm, h).digest()
    info = info or b""
    okm = b""
    t = b""
    i = 0
    while len(okm) < length:
        i += 1
        t = _hmac.new(prk, t + info + bytes([i]), h).digest()
        okm += t
    return okm[:length]


def kbkdf_ctr_ref(hname, key, fixed, length):
    """NIST SP 800-108 KDF in counter mode, PRF = HMAC-hash, r = 32, counter before the fixed
    input data: K(i) = PRF(key, [i]_32 || fixed);  output = leftmost `length` bytes."""
    h = HASHES[hname]
    out = b""
    i = 0
    while len(out) < length:
        i += 1
        out += _hmac.new(key, i.to_bytes(4, "big") + fixed, h).digest()
    return out[:length]


# ------------------------------------------------------------------ raw block primitive
class Block(object):
    """Single-block ECB encryption / decryption E_K, D_K."""

    def __init__(self, alg, key):
        c = Cipher(cipher_obj(alg, key), modes.ECB())
        self.n = block_bytes(alg)
        self._e = c.encryptor()
        self._d = c.decryptor()

    def enc(self, b):
        assert len(b) == self.n
        return self._e.update(b)

    def dec(self, b):
        assert len(b) == self.n
        return self._d.update(b)


# ------------------------------------------------------------------ RFC 3394
_A0 = bytes.fromhex("A6A6A6A6A6A6A6A6")


def aes_wrap_ref(kek, material):
    if len(material) % 8 or len(material) < 16:
        raise ValueError("RFC 3394 needs n >= 2 64-bit blocks")
    blk = Block("AES", kek)
    n = len(material) // 8
    r = [None] + [material[8 * i:8 * i + 8] for i in range(n)]
    a = _A0
    for j in range(6):
        for i in range(1, n + 1):
            b = blk.enc(a + r[i])
            t = n * j + i
            a = (int.from_bytes(b[:8], "big") ^ t).to_bytes(8, "big")
            r[i] = b[8:]
    return a + b"".join(r[1:])


def aes_unwrap_ref(kek, wrapped):
    if len(wrapped) % 8 or len(wrapped) < 24:
        raise ValueError("bad wrapped length")
    blk = Block("AES", kek)
    n = len(wrapped) // 8 - 1
    a = wrapped[:8]
    r = [None] + [wrapped[8 * i:8 * i + 8] for i in range(1, n + 1)]
    for j in range(5, -1, -1):
        for i in range(n, 0, -1):
            t = n * j + i
            b = blk.dec((int.from_bytes(a, "big") ^ t).to_bytes(8, "big") + r[i])
            a = b[:8]
            r[i] = b[8:]
    if a != _A0:
        raise ValueError("integrity check failed")
    return b"".join(r[1:])


# ------------------------------------------------------------------ CMAC (RFC 4493 / SP 800-38B)
def cmac_ref(alg, key, data):
    blk = Block(alg, key)
    n = blk.n
    rb = {16: 0x87, 8: 0x1B}[n]
    mask = (1 << (8 * n)) - 1

    def dbl(x):
        v = int.from_bytes(x, "big")
        v2 = (v << 1) & mask
        if v >> (8 * n - 1):
            v2 ^= rb
        return v2.to_bytes(n, "big")

    k1 = dbl(blk.enc(b"\x00" * n))
    k2 = dbl(k1)
    nblocks = (len(data) + n - 1) // n
    if nblocks == 0:
        nblocks = 1
        complete = False
    else:
        complete = len(data) % n == 0
    last = data[(nblocks - 1) * n:]
    if complete:
        last = bytes(a ^ b for a, b in zip(last, k1))
    else:
        last = last + b"\x80" + b"\x00" * (n - len(last) - 1)
        last = bytes(a ^ b for a, b in zip(last, k2))
    x = b"\x00" * n
    for i in range(nblocks - 1):
        x = blk.enc(bytes(a ^ b for a, b in zip(x, data[i * n:(i + 1) * n])))
    return blk.enc(bytes(a ^ b for a, b in zip(x, last)))


# ------------------------------------------------------------------ padding
def pad_ref(method, data, n):
    if method is None:             # no padding: whole blocks only
        if len(data) % n:
            raise ValueError("not block aligned")
        return data
    k = n - len(data) % n
    if method == "PKCS5":          # PKCS#7: k bytes of value k
        return data + bytes([k]) * k
    if method == "ANSI_X923":      # k-1 zero bytes, then k
        return data + b"\x00" * (k - 1) + bytes([k])
    raise ValueError(method)


def unpad_ref(method, data, n):
    if method is None:
        return data
    if not data or len(data) % n:
        raise ValueError("not block aligned")
    k = data[-1]
    if k < 1 or k > n:
        raise ValueError("bad pad length")
    body, padding = data[:-k], data[-k:]
    if method == "PKCS5":
        if padding != bytes([k]) * k:
            raise ValueError("bad PKCS#7 padding")
    elif method == "ANSI_X923":
        if padding[:-1] != b"\x00" * (k - 1):
            raise ValueError("bad X.923 padding")
    else:
        raise ValueError(method)
    return body


# ------------------------------------------------------------------ encryption differential
_MODES = {"CBC": modes.CBC, "OFB": modes.OFB, "CFB": modes.CFB, "CTR": modes.CTR}


def _mode_obj(mode, iv, tag=None):
    if mode == "ECB":
        return modes.ECB()
    if mode == "GCM":
        if tag is None:
            return modes.GCM(iv)
        return modes.GCM(iv, tag, min_tag_length=len(tag))
    return _MODES[mode](iv)


def encrypt_ref(alg, key, mode, pad, iv, aad, msg):
    """-> (cipher_text, full_tag_or_None).  RC4 is a stream cipher: mode, padding, IV unused.
    Padding is applied for the whole-block modes CBC and ECB only."""
    if alg == "RC4":
        enc = Cipher(cipher_obj(alg, key), None).encryptor()
        return enc.update(msg) + enc.finalize(), None
    if mode in PAD_MODES:
        msg = pad_ref(pad, msg, block_bytes(alg))
    enc = Cipher(cipher_obj(alg, key), _mode_obj(mode, iv)).encryptor()
    if mode == "GCM" and aad is not None:
        enc.authenticate_additional_data(aad)
    ct = enc.update(msg) + enc.finalize()
    return ct, (enc.tag if mode == "GCM" else None)


def decrypt_ref(alg, key, mode, pad, iv, aad, tag, ct):
    if alg == "RC4":
        dec = Cipher(cipher_obj(alg, key), None).decryptor()
        return dec.update(ct) + dec.finalize()
    dec = Cipher(cipher_obj(alg, key), _mode_obj(mode, iv, tag)).decryptor()
    if mode == "GCM" and aad is not None:
        dec.authenticate_additional_data(aad)
    pt = dec.update(ct) + dec.finalize()
    if mode in PAD_MODES:
        pt = unpad_ref(pad, pt, block_bytes(alg))
    return pt


# ------------------------------------------------------------------ RSA
_DIGESTINFO = {
    "MD5": "3020300c06082a864886f70d020505000410",
    "SHA_1": "3021300906052b0e03021a05000414",
    "SHA_224": "302d300d06096086480165030402040500041c",
    "SHA_256": "3031300d060960864801650304020105000420",
    "SHA_384": "3041300d060960864801650304020205000430",
    "SHA_512": "3051300d060960864801650304020305000440",
}

_rsa_cache = {}


def rsa_key(bits, idx=0):
    """Reference RSA key, generated once per process (and inherited by forked workers)."""
    k = (bits, idx)
    if k not in _rsa_cache:
        _rsa_cache[k] = rsa.generate_private_key(public_exponent=65537, key_size=bits)
    return _rsa_cache[k]


def rsa_private_bytes(key, fmt):
    enc = serialization.Encoding.PEM if fmt.endswith("PEM") else serialization.Encoding.DER
    pf = (serialization.PrivateFormat.TraditionalOpenSSL if fmt.startswith("PKCS_1")
          else serialization.PrivateFormat.PKCS8)
    return key.private_bytes(enc, pf, serialization.NoEncryption())


def rsa_public_bytes(key, fmt):
    enc = serialization.Encoding.PEM if fmt.endswith("PEM") else serialization.Encoding.DER
    pf = (serialization.PublicFormat.PKCS1 if fmt.startswith("PKCS_1")
          else serialization.PublicFormat.SubjectPublicKeyInfo)
    return key.public_key().public_bytes(enc, pf)


def load_public_numbers(data):
    """(n, e) from DER/PEM, PKCS#1 or SubjectPublicKeyInfo."""
    try:
        k = serialization.load_der_public_key(data)
    except Exception:
        k = serialization.load_pem_public_key(data)
    nums = k.public_numbers()
    return nums.n, nums.e


def load_private_numbers(data):
    """(n, e, d) from DER/PEM, PKCS#1 or PKCS#8."""
    try:
        k = serialization.load_der_private_key(data, password=None)
    except Exception:
        k = serialization.load_pem_private_key(data, password=None)
    nums = k.private_numbers()
    return nums.public_numbers.n, nums.public_numbers.e, nums.d


def _emsa_pkcs1(hname, msg, k):
    t = bytes.fromhex(_DIGESTINFO[hname]) + hash_ref(hname, msg)
    if k < len(t) + 11:
        raise ValueError("modulus too short")
    return b"\x00\x01" + b"\xff" * (k - len(t) - 3) + b"\x00" + t


def pkcs1_sign_ref(n, d, hname, msg):
    k = (n.bit_length() + 7) // 8
    em = _emsa_pkcs1(hname, msg, k)
    return pow(int.from_bytes(em, "big"), d, n).to_bytes(k, "big")


def pkcs1_verify_ref(n, e, hname, msg, sig):
    k = (n.bit_length() + 7) // 8
    if len(sig) != k:
        return False
    s = int.from_bytes(sig, "big")
    if s >= n:
        return False
    try:
        return pow(s, e, n).to_bytes(k, "big") == _emsa_pkcs1(hname, msg, k)
    except (ValueError, OverflowError):
        return False


def _mgf1(hname, seed, length):
    out = b""
    c = 0
    while len(out) < length:
        out += hash_ref(hname, seed + c.to_bytes(4, "big"))
        c += 1
    return out[:length]


def pss_verify_ref(n, e, hname, msg, sig):
    """RFC 8017 8.1.2 / 9.1.2 with MGF1 over the same hash; the salt length is recovered from the
    encoded message (any length accepted).  -> (valid, salt_length)"""
    k = (n.bit_length() + 7) // 8
    if len(sig) != k:
        return False, None
    s = int.from_bytes(sig, "big")
    if s >= n:
        return False, None
    em_bits = n.bit_length() - 1
    em_len = (em_bits + 7) // 8
    m = pow(s, e, n)
    try:
        em = m.to_bytes(em_len, "big")
    except OverflowError:
        return False, None
    mhash = hash_ref(hname, msg)
    hlen = len(mhash)
    if em_len < hlen + 2 or em[-1] != 0xBC:
        return False, None
    masked = em[:em_len - hlen - 1]
    h = em[em_len - hlen - 1:-1]
    zero_bits = 8 * em_len - em_bits
    if zero_bits and masked[0] >> (8 - zero_bits):
        return False, None
    dbmask = _mgf1(hname, h, len(masked))
    db = bytearray(a ^ b for a, b in zip(masked, dbmask))
    if zero_bits:
        db[0] &= 0xFF >> zero_bits
    i = 0
    while i < len(db) and db[i] == 0:
        i += 1
    if i == len(db) or db[i] != 0x01:
        return False, None
    salt = bytes(db[i + 1:])
    h2 = hash_ref(hname, b"\x00" * 8 + mhash + salt)
    return h2 == h, len(salt)


def verify_ref(n, e, pad, hname, msg, sig):
    if pad == "PKCS1v15":
        return pkcs1_verify_ref(n, e, hname, msg, sig)
    if pad == "PSS":
        return pss_verify_ref(n, e, hname, msg, sig)[0]
    raise ValueError(pad)


def selftest():
    """Known-answer sanity of the hand-written references (RFC vectors).  Raises on mismatch."""
    fh = bytes.fromhex
    # RFC 3394 4.1 / 4.6
    w = aes_wrap_ref(fh("000102030405060708090A0B0C0D0E0F"), fh("00112233445566778899AABBCCDDEEFF"))
    assert w == fh("1FA68B0A8112B447AEF34BD8FB5A7B829D3E862371D2CFE5"), "rfc3394 4.1"
    assert aes_unwrap_ref(fh("000102030405060708090A0B0C0D0E0F"), w) == \
        fh("00112233445566778899AABBCCDDEEFF")
    kek = fh("000102030405060708090A0B0C0D0E0F101112131415161718191A1B1C1D1E1F")
    w = aes_wrap_ref(kek, fh("00112233445566778899AABBCCDDEEFF000102030405060708090A0B0C0D0E0F"))
    assert w == fh("28C9F404C4B810F4CBCCB35CFB87F8263F5786E2D80ED326"
                   "CBC7F0E71A99F43BFB988B9B7A02DD21"), "rfc3394 4.6"
    # RFC 4493 examples
    k = fh("2b7e151628aed2a6abf7158809cf4f3c")
    assert cmac_ref("AES", k, b"") == fh("bb1d6929e95937287fa37d129b756746")
    assert cmac_ref("AES", k, fh("6bc1bee22e409f96e93d7e117393172a")) == \
        fh("070a16b46b4d4144f79bdd9dd04a287c")
    m40 = fh("6bc1bee22e409f96e93d7e117393172aae2d8a571e03ac9c9eb76fac45af8e51"
             "30c81c46a35ce411")
    assert cmac_ref("AES", k, m40) == fh("dfa66747de9ae63030ca32611497c827")
    # SP 800-38B TDES example (three-key, 64-bit block), D.1 example 1-2
    k3 = fh("8aa83bf8cbda10620bc1bf19fbb6cd58bc313d4a371ca8b5")
    assert cmac_ref("TRIPLE_DES", k3, b"") == fh("b7a688e122ffaf95")
    assert cmac_ref("TRIPLE_DES", k3, fh("6bc1bee22e409f96")) == fh("8e8f293136283797")
    # RFC 5869 A.1
    okm = hkdf_ref("SHA_256", fh("0b" * 22), fh("000102030405060708090a0b0c"),
                   fh("f0f1f2f3f4f5f6f7f8f9"), 42)
    assert okm == fh("3cb25f25faacd57a90434f64d0362f2a2d2d0a90cf1a5a4c5db02d56ecc4c5bf"
                     "34007208d5b887185865"), "rfc5869 A.1"
    # RFC 5869 A.3 (no salt, no info)
    okm = hkdf_ref("SHA_256", fh("0b" * 22), None, None, 42)
    assert okm == fh("8da4e775a563c18f715f802a063c5a31b8a11f5c5ee1879ec3454e5f3c738d2d"
                     "9d201395faa4b61a96c8"), "rfc5869 A.3"
    assert pad_ref("PKCS5", b"abc", 8) == b"abc\x05\x05\x05\x05\x05"
    assert pad_ref("ANSI_X923", b"abc", 8) == b"abc\x00\x00\x00\x00\x05"
    assert pad_ref("PKCS5", b"", 8) == b"\x08" * 8
    assert unpad_ref("ANSI_X923", pad_ref("ANSI_X923", b"12345678", 8), 8) == b"12345678"
    return True
