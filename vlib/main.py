"""./check <Cxx> [--tier quick|thorough] [--replay file]"""
import argparse
import importlib
import json
import os
import sys
import time
import traceback

from vlib import core


def _buckets_of(mod, spec):
    out = mod.replay(spec)
    keys = []
    for b in out or []:
        keys.append(b if isinstance(b, str) else b[0])
    return keys


def _scratch_dir():
    """Per-run scratch directory (removed on exit): every temp file of the run, also those of the
    forked shard workers, lives below it.  tmpfs when available (SQLite is then much faster)."""
    import shutil
    import tempfile
    base = os.environ.get("VERIF_TMP")
    if not base:
        base = None
        try:
            if os.path.isdir("/dev/shm") and os.access("/dev/shm", os.W_OK) and \
                    shutil.disk_usage("/dev/shm").free > (4 << 30):
                base = "/dev/shm"
        except OSError:
            base = None
    d = tempfile.mkdtemp(prefix="vrun-", dir=base)
    os.environ["VERIF_TMP"] = d
    os.environ["TMPDIR"] = d
    tempfile.tempdir = d
    return d


def main(argv=None):
    import shutil
    scratch = _scratch_dir()
    owner = os.getpid()
    try:    # `kill -USR1 <pid>` prints where a run is (workers inherit the registration)
        import faulthandler, signal
        faulthandler.register(signal.SIGUSR1, all_threads=True)
    except Exception:
        pass
    try:
        return _main(argv)
    finally:
        if os.getpid() == owner:
            shutil.rmtree(scratch, ignore_errors=True)


def _main(argv=None):
    ap = argparse.ArgumentParser()
    ap.add_argument("pid")
    ap.add_argument("--tier", default=os.environ.get("VERIF_TIER", "quick"),
                    choices=["quick", "thorough"])
    ap.add_argument("--replay", default=None)
    ap.add_argument("--no-shrink", action="store_true")
    args = ap.parse_args(argv)
    pid = args.pid.upper()
    try:
        seed = int(os.environ.get("VERIF_SEED", "1") or "1")
    except ValueError:
        seed = 1
    t0 = time.time()
    try:
        mod = importlib.import_module("vlib.props.%s" % pid.lower())
    except ImportError:
        traceback.print_exc()
        print("harness error: no check for %s" % pid, file=sys.stderr)
        return 2

    if args.replay:
        try:
            data = core.load_replay(args.replay)
            spec = data["spec"] if isinstance(data, dict) and "spec" in data else data
            keys = _buckets_of(mod, spec)
        except Exception:
            traceback.print_exc()
            return 2
        if keys:
            for k in keys:
                print("replay bucket: %s" % k)
            print("VIOLATION property=%s replay=%s" % (pid, args.replay))
            return 1
        print("replay: property held on this case")
        return 0

    ctx = core.Ctx(pid, args.tier, seed)
    try:
        col = mod.run(ctx)
        # known findings: re-execute stored replay; active only if it still fails
        known_active = {}
        regressions = []
        for ent in core.load_known(pid):
            data = core.load_replay(ent["replay"])
            spec = data["spec"] if isinstance(data, dict) and "spec" in data else data
            try:
                keys = _buckets_of(mod, spec)
            except Exception as e:
                # the stored replay cannot be executed on this tree (e.g. the fixture store cannot
                # be built): the entry is inert for this run; generated cases are judged as usual
                print("note: stored replay %s could not be executed here (%s: %s)"
                      % (ent["replay"], type(e).__name__, str(e)[:120]), file=sys.stderr)
                continue
            if ent.get("status", "known") == "fixed":
                if keys:
                    regressions.append((ent, keys))
                continue
            if ent["bucket"] in keys:
                known_active[ent["bucket"]] = ent
                print("KNOWN-FINDING: property=%s %s" % (pid, ent["what"]))
            # other buckets hit by the stored replay are judged like generated ones
            for k in keys:
                if k != ent["bucket"] and k not in col.buckets:
                    col.add_bucket(k, spec, "from known-finding replay " + ent["replay"])
        known_hit = {}
        new = []
        for key, info in sorted(col.buckets.items()):
            if key in known_active:
                known_hit[key] = info["count"]
            else:
                new.append((key, info))
        violations = 0
        for ent, keys in regressions:
            violations += 1
            print("fixed finding has returned: %s -> %s" % (ent["what"], keys))
            print("VIOLATION property=%s replay=%s" % (pid, ent["replay"]))
        for key, info in new:
            spec = info["example"]
            if not args.no_shrink and hasattr(mod, "replay"):
                try:
                    spec = core.shrink_spec(
                        spec, lambda s: key in _buckets_of(mod, s),
                        budget=getattr(mod, "SHRINK_BUDGET", 120 if ctx.quick else 400))
                except Exception:
                    pass
            rel = core.write_replay(pid, key, spec, info.get("detail", ""))
            violations += 1
            print("bucket: %s  (cases: %d)" % (key, info["count"]))
            if info.get("detail"):
                print("  detail: " + info["detail"].replace("\n", "\n    ")[:1500])
            print("VIOLATION property=%s replay=%s" % (pid, rel))
        core.write_evidence(
            pid, args.tier, seed, getattr(mod, "LEVEL", "exploration"), col,
            getattr(mod, "RULE", ""), getattr(mod, "ASSUMPTIONS", []),
            time.time() - t0, violations, known_hit,
            exhaustive=col.extra.pop("exhaustive", None))
        if not violations and (col.evaluations == 0 or len(col.nontrivial) < 2):
            print("harness error: vacuous run (evaluations=%d nontrivial=%d)"
                  % (col.evaluations, len(col.nontrivial)), file=sys.stderr)
            return 2
        print("%s %s seed=%d: evaluations=%d distinct_nontrivial=%d known_buckets=%d "
              "violations=%d wall=%.1fs" % (pid, args.tier, seed, col.evaluations,
                                           len(col.nontrivial), len(known_hit), violations,
                                           time.time() - t0))
        return 1 if violations else 0
    except core.HarnessError:
        traceback.print_exc()
        return 2
    except Exception:
        traceback.print_exc()
        print("harness error (not a verdict)", file=sys.stderr)
        return 2


if __name__ == "__main__":
    sys.exit(main())
