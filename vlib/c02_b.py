"""C02 part B: every response the server emits follows the message envelope.

A history is a list of connections; every connection is one real KmipSession
(kmip/services/server/session.py) over a scripted connection in front of a real KmipEngine on a
byte copy of the standard store.  Each request is

  {"kind": "batch", "v": [ma, mi], "items": [...], + header fields of harness.build_request}
  {"kind": "raw",  "hex": ...}                  bytes sent as they are (self-framed)
  {"kind": "mangle", "req": <batch>, "ops": []} a valid encoding, then tree / byte mutations

Everything the session hands to connection.sendall is judged with vlib.ttlvref and the literal
tables of vlib.c02_tables; the request side of the comparison (protocol version, operations, unique
batch item ids) is read from the *request bytes* with ttlvref as well.
"""
import glob
import json
import os
import struct

from vlib import core, ttlvref
from vlib import c02_tables as L
from vlib import c02_a as A

PID = "C02"

import logging
logging.getLogger("kmip.server.session").addHandler(logging.NullHandler())

PATHS = ("engine-batch", "engine-request-error", "parse-error", "auth-error",
         "oversize-replacement")

# Operation enumeration (KMIP spec 9.1.3.2.27) - labels for the evidence only
OPERATION = {
    0x01: "Create", 0x02: "CreateKeyPair", 0x03: "Register", 0x04: "Rekey", 0x05: "DeriveKey",
    0x06: "Certify", 0x07: "Recertify", 0x08: "Locate", 0x09: "Check", 0x0A: "Get",
    0x0B: "GetAttributes", 0x0C: "GetAttributeList", 0x0D: "AddAttribute",
    0x0E: "ModifyAttribute", 0x0F: "DeleteAttribute", 0x10: "ObtainLease",
    0x11: "GetUsageAllocation", 0x12: "Activate", 0x13: "Revoke", 0x14: "Destroy",
    0x15: "Archive", 0x16: "Recover", 0x17: "Validate", 0x18: "Query", 0x19: "Cancel",
    0x1A: "Poll", 0x1B: "Notify", 0x1C: "Put", 0x1D: "RekeyKeyPair", 0x1E: "DiscoverVersions",
    0x1F: "Encrypt", 0x20: "Decrypt", 0x21: "Sign", 0x22: "SignatureVerify", 0x23: "MAC",
    0x24: "MACVerify", 0x25: "RNGRetrieve", 0x26: "RNGSeed", 0x27: "Hash",
    0x28: "CreateSplitKey", 0x29: "JoinSplitKey", 0x2A: "Import", 0x2B: "Export",
    0x30: "AdjustAttribute", 0x31: "SetAttribute",
}

RESPONSE_ITEM_TAGS = {0x42005C, 0x420093, 0x42007F, 0x42007E, 0x42007D, 0x420006, 0x42007C,
                      0x420051}


# ------------------------------------------------------------------------ request side (ttlvref)
def frame_ok(data):
    """The session reads 8 bytes, then as many bytes as bytes 4..8 announce."""
    return len(data) >= 8 and struct.unpack("!I", data[4:8])[0] == len(data) - 8


def request_facts(data):
    """What an independent reader can tell about the request bytes:
    {"version": (ma, mi) | None, "items": [(operation|None, batch id|None)] | None,
     "wellformed": bool}.
    The version is read leniently: it only needs the message header, the Request Header item
    and its first child (Protocol Version) to be well-formed - the rest may be garbage."""
    data = bytes(data)
    facts = {"version": None, "items": None, "wellformed": False, "count": None}
    try:
        root = ttlvref.parse_one(data)
        facts["wellformed"] = True
    except ttlvref.TTLVError:
        root = None
    if root is not None:
        if root["tag"] == L.T_REQUEST_MESSAGE and root["type"] == L.STRUCT:
            kids = root["children"]
            if kids and kids[0]["tag"] == L.T_REQUEST_HEADER and kids[0]["type"] == L.STRUCT:
                facts["version"] = _version_of_header(kids[0])
                bc = ttlvref.child(kids[0], 0x42000D)
                if bc is not None and bc["type"] == L.INT:
                    facts["count"] = bc["value"]
            items = []
            for k in kids[1:]:
                if k["tag"] == L.T_BATCH_ITEM and k["type"] == L.STRUCT:
                    op = ttlvref.child(k, 0x42005C)
                    bid = ttlvref.child(k, 0x420093)
                    items.append((None if op is None or op["type"] != L.ENUM else op["value"],
                                  None if bid is None or bid["type"] != L.BYTES
                                  else bytes(bid["value"])))
            facts["items"] = items
        return facts
    # lenient: message item header, then one well-formed Request Header
    if len(data) < 16 or int.from_bytes(data[0:3], "big") != L.T_REQUEST_MESSAGE or data[3] != 1:
        return facts
    if int.from_bytes(data[8:11], "big") != L.T_REQUEST_HEADER or data[11] != 1:
        return facts
    hl = int.from_bytes(data[12:16], "big")
    if hl % 8 or 16 + hl > len(data):
        return facts
    try:
        hdr = ttlvref.parse_one(data[8:16 + hl])
    except ttlvref.TTLVError:
        # even more lenient: only the Protocol Version structure at the front of the header
        if len(data) >= 24 and int.from_bytes(data[16:19], "big") == L.T_PROTOCOL_VERSION \
                and data[19] == 1 and int.from_bytes(data[20:24], "big") == 32 and len(data) >= 56:
            try:
                pv = ttlvref.parse_one(data[16:56])
            except ttlvref.TTLVError:
                return facts
            facts["version"] = _version_of_pv(pv)
        return facts
    facts["version"] = _version_of_header(hdr)
    return facts


def _version_of_header(hdr):
    kids = hdr.get("children") or []
    if not kids or kids[0]["tag"] != L.T_PROTOCOL_VERSION or kids[0]["type"] != L.STRUCT:
        return None
    return _version_of_pv(kids[0])


def _version_of_pv(pv):
    kids = pv.get("children") or []
    if len(kids) != 2 or kids[0]["tag"] != 0x42006A or kids[1]["tag"] != 0x42006B:
        return None
    if kids[0]["type"] != L.INT or kids[1]["type"] != L.INT:
        return None
    return (kids[0]["value"], kids[1]["value"])


# ------------------------------------------------------------------------ the envelope oracle
def judge_response(resp, req_bytes, path, want_reasons=None):
    """-> (buckets, info).  resp: bytes the session sent; req_bytes: the request as sent;
    path: which construction path produced the response (observed by the spy; '?' if unknown)."""
    out = []
    info = {"items": 0, "failed": 0, "ops_ok": [], "reasons": [], "version": None}
    facts = request_facts(req_bytes)
    try:
        root = ttlvref.parse_one(resp)
    except ttlvref.TTLVError as e:
        return [("%s|response|malformed|%s" % (PID, A.malformed_label(resp, str(e))),
                 "path %s: %s\nresponse %s" % (path, e, bytes(resp).hex()[:600]))], info
    # --- the shared envelope invariant (DESIGN 1.3)
    ver = facts["version"]
    strict_ver = ver if ver in L.SUPPORTED_VERSIONS else None
    probs = ttlvref.check_response_envelope(resp, strict_ver)
    for p in probs:
        if "differs from request version" in p:
            out.append(("%s|envelope|%s|response-version-is-not-the-request's" % (PID, path),
                        "request carries a well-formed header with supported version %d.%d; %s"
                        % (ver[0], ver[1], p)))
        elif p == "response has no batch item" and path == "engine-batch" and (
                facts["count"] == 0 or facts["items"] == []):
            # the request announced / carried no batch item: an empty batch answers it
            # consistently (Batch Count 0, no items) - the statement is vacuously met
            info["empty_batch"] = True
        else:
            out.append(("%s|envelope|%s|%s" % (PID, path, _norm_problem(p)), p))
    if root["tag"] != L.T_RESPONSE_MESSAGE or not root.get("children") \
            or root["children"][0]["tag"] != L.T_RESPONSE_HEADER:
        return out, info
    hdr = root["children"][0]
    pv = ttlvref.child(hdr, L.T_PROTOCOL_VERSION)
    rver = _version_of_pv(pv) if pv is not None else None
    info["version"] = rver
    if rver is not None and strict_ver is None:
        # undecodable header or unsupported version: the request's own version or any version
        # the server supports
        if rver not in L.SUPPORTED_VERSIONS and rver != ver:
            out.append(("%s|envelope|%s|response-version-neither-supported-nor-the-request's"
                        % (PID, path), "response says %r, request %r" % (rver, ver)))
    # --- spec layout of header, items and everything nested (literal tables)
    out += A.check_layout(root)
    types = A._types_in(root, set())
    if L.DATEX in types and (rver or (0, 0)) < (2, 0):
        out.append(("%s|response|item-type-11-before-kmip-2.0" % PID, ""))
    items = [k for k in root["children"][1:] if k["tag"] == L.T_BATCH_ITEM]
    info["items"] = len(items)
    for i, it in enumerate(items):
        for c in it.get("children", []):
            if c["tag"] not in RESPONSE_ITEM_TAGS and (c["tag"] >> 16) != 0x54:
                out.append(("%s|envelope|%s|request-only-field-in-response-item" % (PID, path),
                            "item %d carries 0x%06x" % (i, c["tag"])))
        st = ttlvref.child(it, 0x42007F)
        rr = ttlvref.child(it, 0x42007E)
        op = ttlvref.child(it, 0x42005C)
        if st is not None and st["type"] == L.ENUM:
            if st["value"] not in L.STATUSES:
                out.append(("%s|envelope|%s|result-status-not-in-enumeration" % (PID, path),
                            "item %d status %d" % (i, st["value"])))
            if st["value"] != L.STATUS_SUCCESS:
                info["failed"] += 1
                if rr is not None:
                    info["reasons"].append(rr["value"])
            elif op is not None:
                info["ops_ok"].append(op["value"])
        if rr is not None and rr["type"] == L.ENUM and rr["value"] not in L.REASON:
            out.append(("%s|envelope|%s|result-reason-not-in-enumeration" % (PID, path),
                        "item %d reason 0x%x" % (i, rr["value"])))
    # --- echo of operation and unique batch item id (spec 7.2: "if specified in the request")
    if path == "engine-batch" and facts["items"] is not None:
        rq = facts["items"]
        if len(items) > len(rq):
            out.append(("%s|envelope|%s|more-response-items-than-request-items" % (PID, path),
                        "%d > %d" % (len(items), len(rq))))
        for i, it in enumerate(items[:len(rq)]):
            op = ttlvref.child(it, 0x42005C)
            bid = ttlvref.child(it, 0x420093)
            want_op, want_bid = rq[i]
            if want_op is not None and (op is None or op["value"] != want_op):
                out.append(("%s|envelope|%s|operation-not-echoed" % (PID, path),
                            "item %d: request operation 0x%x, response %r"
                            % (i, want_op, None if op is None else op["value"])))
            if want_bid is not None and (bid is None or bytes(bid["value"]) != want_bid):
                out.append(("%s|envelope|%s|unique-batch-item-id-not-echoed" % (PID, path),
                            "item %d: request id %s, response %r"
                            % (i, want_bid.hex(), None if bid is None else bytes(bid["value"]).hex())))
            if want_bid is None and bid is not None:
                out.append(("%s|envelope|%s|unique-batch-item-id-invented" % (PID, path),
                            "item %d" % i))
    # --- non-batch paths: one failed item with the reason section 11 assigns to the situation
    if path in PATHS and path != "engine-batch":
        if len(items) != 1 or info["failed"] != 1:
            out.append(("%s|envelope|%s|error-response-is-not-one-failed-item" % (PID, path),
                        "%d items, %d failed" % (len(items), info["failed"])))
        elif want_reasons is not None and (len(info["reasons"]) != 1
                                            or info["reasons"][0] not in want_reasons):
            out.append(("%s|envelope|%s|unexpected-result-reason" % (PID, path),
                        "reasons %r, expected %s"
                        % (info["reasons"], " or ".join(L.REASON[r] for r in want_reasons))))
    seen = {}
    for k, d in out:
        seen.setdefault(k, d)
    return list(seen.items()), info


import re
_N = re.compile(r"\d+")


def _norm_problem(p):
    p = re.sub(r"0x[0-9a-fA-F]+", "T", p)
    p = _N.sub("N", p)
    return p.replace(" ", "-").replace(":", "")[:80]


# ------------------------------------------------------------------------ mutations of a request
def _enc(node):
    if "raw" in node:
        raw = node["raw"]
        return (node["tag"].to_bytes(3, "big") + bytes([node["type"]])
                + len(raw).to_bytes(4, "big") + raw + b"\x00" * (-len(raw) % 8))
    if node["type"] == ttlvref.STRUCTURE:
        return ttlvref.encode_struct(node["tag"], [_enc(c) for c in node["children"]])
    if node["type"] == ttlvref.BIG_INTEGER:
        n = node["length"]
        return ttlvref._hdr(node["tag"], 4, n) + node["value"].to_bytes(n, "big", signed=True)
    return ttlvref.encode_node(node)


def _structs(node, acc):
    if "children" in node:
        acc.append(node)
        for c in node["children"]:
            _structs(c, acc)
    return acc


def _leaves(node, acc):
    if "children" in node:
        for c in node["children"]:
            _leaves(c, acc)
    else:
        acc.append(node)
    return acc


def mangle(data, ops):
    """Apply mutations to a valid request encoding; the result is always correctly framed (the
    outer length field matches) so that the session reads exactly this message.
    ops: ["del"|"dup"|"swap"|"retag"|"retype"|"text"|"flip"|"cut"|"tail", i, j]"""
    data = bytes(data)
    for op in ops:
        kind, i, j = op[0], op[1], op[2]
        if kind in ("flip", "cut", "tail"):
            body = bytearray(data[8:])
            if kind == "flip" and body:
                body[i % len(body)] ^= (1 << (j % 8))
            elif kind == "cut" and len(body) > 8:
                body = body[:len(body) - 8 * (1 + i % max(1, min(4, len(body) // 8 - 1)))]
            elif kind == "tail":
                body += ttlvref.encode_integer(0x42000D, j % 7) if i % 2 else b"\x00" * 8
            data = data[:4] + len(body).to_bytes(4, "big") + bytes(body)
            continue
        try:
            root = ttlvref.parse_one(data, strict=False)
        except ttlvref.TTLVError:
            continue
        structs = _structs(root, [])
        s = structs[i % len(structs)]
        kids = s["children"]
        if kind == "text":
            texts = [n for n in _leaves(root, []) if n["type"] == ttlvref.TEXT_STRING]
            if not texts:
                continue
            texts[i % len(texts)]["value"] = ["é", "naïve-ü", "ключ", "é" * 8][j % 4]
        elif not kids:
            continue
        elif kind == "del":
            del kids[j % len(kids)]
        elif kind == "dup":
            kids.insert(j % len(kids), kids[j % len(kids)])
        elif kind == "swap" and len(kids) > 1:
            a, b = j % len(kids), (j + 1) % len(kids)
            kids[a], kids[b] = kids[b], kids[a]
        elif kind == "retag":
            k = kids[j % len(kids)]
            k["tag"] = [0x420094, 0x42000D, 0x420008, 0x42005C, 0x4200FF, 0x540001][(i + j) % 6]
        elif kind == "retype":
            k = kids[j % len(kids)]
            if "children" in k:
                body = b"".join(_enc(c) for c in k["children"])
                k.pop("children")
                k["type"] = ttlvref.BYTE_STRING
                k["value"] = body
            else:
                raw = _enc(k)
                ln = int.from_bytes(raw[4:8], "big")
                k["raw"] = raw[8:8 + ln]
                k["type"] = [2, 5, 7, 8, 3][(i + j) % 5]
        data = _enc(root)
    return data


# ------------------------------------------------------------------------ running a history
class _Conn(object):
    """Scripted socket recording what the session sends, with a marker per response."""

    def __init__(self, data, chunks, cert, log):
        self.data = bytes(data)
        self.pos = 0
        self.chunks = list(chunks or [])
        self.ci = 0
        self.sent = []
        self.cert = cert
        self.log = log

    def recv(self, n):
        if self.pos >= len(self.data):
            return b""
        k = n
        if self.chunks:
            k = max(1, min(n, self.chunks[self.ci % len(self.chunks)]))
            self.ci += 1
        out = self.data[self.pos:self.pos + k]
        self.pos += len(out)
        return out

    def sendall(self, b):
        self.sent.append(bytes(b))
        self.log.append(("sent", len(self.sent) - 1))

    def getpeercert(self, binary_form=False):
        return self.cert

    def cipher(self):
        return ("TLS_FAKE", "TLSv1.2", 256)

    def shared_ciphers(self):
        return None

    def do_handshake(self):
        pass

    def shutdown(self, how):
        pass

    def close(self):
        pass


def cert_must_fail(cert, tls):
    """docs/source/server.rst (Authentication): the client certificate must be there, carry the
    clientAuth extended key usage when the TLS client-auth check is enabled, and name exactly one
    common name (the client identity)."""
    if cert is None:
        return True
    if tls and cert.get("eku") not in ("client", "both"):
        return True
    return len(cert["cns"]) != 1


def _classify(events, cert_bad):
    """Construction path of one response, from the spy events recorded before its 'sent'
    marker: did the engine see the request (process_request called / returned), was a canned
    error response built afterwards.  -> (path, acceptable result reasons or None)"""
    called = any(e[0] == "process_request" for e in events)
    returned = any(e[0] == "returned" for e in events)
    errs = [e for e in events if e[0] == "error_response"]
    if called and returned:
        if errs:        # the engine's answer was replaced
            if errs[-1][1] == 0x100:
                # the session could not encode the engine's answer and says so (General Failure);
                # sent instead of dropping the response (repo commit aa0049f)
                return "unencodable-replacement", (0x100,)
            return "oversize-replacement", (L.R_RESPONSE_TOO_LARGE,)
        return "engine-batch", None
    if called:
        if not errs:
            raise core.HarnessError("response sent without a response construction: %r" % (events,))
        return "engine-request-error", None
    if not errs:
        raise core.HarnessError("response sent without a response construction: %r" % (events,))
    if cert_bad:
        # the request never reached the engine; whether the certificate or (for a request that
        # is also undecodable) the message is blamed first is left open
        if errs[-1][1] == L.R_INVALID_MESSAGE:
            return "parse-error", (L.R_INVALID_MESSAGE,)
        return "auth-error", (L.R_AUTH_NOT_SUCCESSFUL,)
    return "parse-error", (L.R_INVALID_MESSAGE,)


def _last_uid(resp):
    """First Unique Identifier text inside a successful item's payload (request chaining)."""
    try:
        for it in ttlvref.response_items(resp):
            if it["status"] == 0 and it["payload"] is not None:
                for c in it["payload"].get("children", []):
                    if c["tag"] in (0x420094, 0x420066) and c["type"] == ttlvref.TEXT_STRING:
                        return c["value"]
    except Exception:
        pass
    return None


def _subst(node, last):
    if isinstance(node, dict):
        return {k: _subst(v, last) for k, v in node.items()}
    if isinstance(node, list):
        return [_subst(v, last) for v in node]
    if node == "$last":
        return last if last is not None else "9999"
    return node


def encode_one(req, last_uid):
    """Request spec -> bytes (or raises: the spec cannot be encoded; the case is skipped)."""
    from vlib import harness as H
    kind = req.get("kind", "batch")
    if kind == "raw":
        return bytes.fromhex(req["hex"])
    base = req["req"] if kind == "mangle" else req
    spec = {k: v for k, v in base.items() if k not in ("kind",)}
    spec = _subst(spec, last_uid)
    ts = spec.get("ts")
    if isinstance(ts, str):
        now = int(H.CLOCK.now)
        spec["ts"] = {"now": now, "stale": now - 1000, "future": now + 1000,
                      "edge59": now - 59, "edge60": now - 60}[ts]
    data = H.encode_request(spec)
    if kind == "mangle":
        data = mangle(data, req.get("ops", []))
    return data


def run_history(spec):
    """-> (buckets, classes, nontrivial, counters)"""
    from vlib import harness as H, store
    from kmip.core import exceptions as kexc
    from kmip.services.server import session as session_mod
    buckets, classes = [], []
    counters = {}
    nontrivial = False

    def bump(k, n=1):
        counters[k] = counters.get(k, 0) + n

    server, _idx = store.fresh_server()
    engine = server.engine
    log = []
    real_pr = engine.process_request
    real_be = engine.build_error_response

    def spy_pr(request, credential=None, *a, **kw):
        log.append(("process_request",))
        r = real_pr(request, credential, *a, **kw)
        log.append(("returned",))
        return r

    def spy_be(version, reason, message, *a, **kw):
        log.append(("error_response", getattr(reason, "value", reason), message))
        return real_be(version, reason, message, *a, **kw)

    engine.process_request = spy_pr
    engine.build_error_response = spy_be
    last_uid = None
    try:
        for conn_spec in spec["conns"]:
            cert = conn_spec.get("cert", {"cns": ["alice"], "eku": "client"})
            der = None if cert is None else H.make_cert(tuple(cert["cns"]), cert.get("eku"))
            blobs = []
            H.CLOCK.tick()
            for req in conn_spec["reqs"]:
                try:
                    data = encode_one(req, last_uid)
                except Exception:
                    bump("B_requests_not_encodable")
                    classes.append("B:request:not-encodable")
                    continue
                if not frame_ok(data):
                    raise core.HarnessError("request is not self-framed: %r" % (req,))
                blobs.append((req, data))
            if not blobs:
                continue
            del log[:]
            conn = _Conn(b"".join(d for _r, d in blobs), conn_spec.get("chunks"), der, log)
            sess = session_mod.KmipSession(engine, conn, ("127.0.0.1", 5696), name="c02",
                                           enable_tls_client_auth=conn_spec.get("tls", True),
                                           auth_settings=None)
            loop_errors = []
            for _ in range(len(blobs) + 2):
                try:
                    sess._handle_message_loop()
                except kexc.ConnectionClosed:
                    break
                except Exception as e:     # the real run() logs this and carries on
                    loop_errors.append(e)
                    log.append(("sent", None))      # keeps the alignment: no response emitted
                    if conn.pos >= len(conn.data):
                        break
            # split the spy log per message loop
            segments, cur = [], []
            for ev in log:
                if ev[0] == "sent":
                    segments.append((cur, ev[1]))
                    cur = []
                else:
                    cur.append(ev)
            for e in loop_errors:
                buckets.append((core.exc_bucket(PID, "session|no-response", e),
                                "the message loop raised instead of answering: %r" % (e,)))
                bump("B_loops_without_response")
            for k, (req, data) in enumerate(blobs):
                if k >= len(segments):
                    bump("B_requests_unanswered_after_loop_failure")
                    continue
                events, sent_ix = segments[k]
                if sent_ix is None:
                    continue
                resp = conn.sent[sent_ix]
                path, reasons = _classify(events, cert_must_fail(cert, conn_spec.get("tls", True)))
                bk, info = judge_response(resp, data, path, reasons)
                buckets.extend(bk)
                bump("B_responses")
                bump("B_path:" + path)
                classes.append("B:path:" + path)
                classes.append("B:request:" + req.get("kind", "batch"))
                lab = req.get("label")
                if lab and not lab.startswith(("ok/", "fail/")):
                    bump("B_case:%s:%s" % (req.get("kind", "batch"), lab))
                if info["items"] >= 2:
                    bump("B_responses_with_2+_items")
                    classes.append("B:items>=2")
                if info["failed"]:
                    bump("B_responses_with_failed_item")
                if info["items"] >= 2 or info["failed"] or path != "engine-batch":
                    nontrivial = True
                    bump("B_nontrivial_responses")
                for o in info["ops_ok"]:
                    bump("B_success:" + OPERATION.get(o, "op-0x%x" % o))
                for r in info["reasons"]:
                    bump("B_reason:" + L.REASON.get(r, "0x%x" % r))
                if info["version"] is not None:
                    bump("B_response_version:%d.%d" % info["version"])
                u = _last_uid(resp)
                if u is not None:
                    last_uid = u
    finally:
        try:
            del engine.process_request
            del engine.build_error_response
        except AttributeError:
            pass
        server.close()
    seen = {}
    for k, d in buckets:
        seen.setdefault(k, d)
    return list(seen.items()), classes, nontrivial, counters


# ------------------------------------------------------------------------ known C13 triggers
_C13 = {}


def c13_trigger_requests():
    """Batch request specs (harness form) of the stored General-Failure replays."""
    if "reqs" in _C13:
        return _C13["reqs"]
    out = []
    for p in sorted(glob.glob(os.path.join(core.HOME, "known", "C13-*.json"))):
        if "fixed" in os.path.basename(p):
            continue
        try:
            with open(p) as f:
                spec = json.load(f)["spec"]
            reqs = spec["reqs"]
        except Exception:
            continue
        if len(reqs) != 1 or len(reqs[0].get("items", [])) != 1:
            continue
        r = reqs[0]
        if set(r) - {"v", "items", "who"}:
            continue
        out.append({"v": r.get("v", [1, 2]), "item": r["items"][0], "who": r.get("who", "alice")})
    _C13["reqs"] = out
    return out
