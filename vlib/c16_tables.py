"""C16 literal tables, written down from the OASIS KMIP specifications (1.0, 1.1, 1.2, 1.3, 1.4,
2.0) - NOT read from kmip.core.enums / the server's policy table.  Only entries whose version is
certain are listed: a wrong entry would be a false alarm.

Sources (section numbers of the respective specification):
* Operation enumeration 9.1.3.2.26/27 ("Operation") and the client-to-server / server-to-client
  operation chapters 4 and 5 of each version (an operation belongs to the first version whose
  chapter 4/5 defines it).
* Attribute chapter 3 of each version (first version defining the attribute; "deprecated"
  remarks; KMIP 2.0 chapter 4 no longer has Operation Policy Name, Certificate
  Identifier/Subject/Issuer, and custom attributes changed form).
* Tag table 9.1.3.1: every version appended its new tags in one contiguous block, so the first
  and last tag of each block are enough to date any tag.
"""

V10, V11, V12, V13, V14, V20 = (1, 0), (1, 1), (1, 2), (1, 3), (1, 4), (2, 0)
SUPPORTED = [V10, V11, V12, V13, V14, V20]
# versions the server must refuse: an older/odd minor of a known major, minors between and after
# the known ones, an unknown major, the two extremes of the integer pair
UNSUPPORTED = [(0, 9), (1, 5), (1, 9), (2, 1), (3, 0), (0, 0), (255, 255),
               # numerals that read like a supported version as a decimal fraction / a string
               (1, 10), (1, 20), (1, 40), (1, 100), (2, 10), (10, 0), (1, 11)]


def vs(v):
    return "%d.%d" % (v[0], v[1])


def below(v):
    """The supported version just below v (None for 1.0)."""
    i = SUPPORTED.index(tuple(v))
    return SUPPORTED[i - 1] if i > 0 else None


# ------------------------------------------------------------------ operations
# name -> (Operation enumeration value, first KMIP version)
OPERATIONS = {
    # KMIP 1.0 (spec 1.0 chapters 4, 5)
    "Create": (0x01, V10), "CreateKeyPair": (0x02, V10), "Register": (0x03, V10),
    "Rekey": (0x04, V10), "DeriveKey": (0x05, V10), "Certify": (0x06, V10),
    "ReCertify": (0x07, V10), "Locate": (0x08, V10), "Check": (0x09, V10), "Get": (0x0A, V10),
    "GetAttributes": (0x0B, V10), "GetAttributeList": (0x0C, V10), "AddAttribute": (0x0D, V10),
    "ModifyAttribute": (0x0E, V10), "DeleteAttribute": (0x0F, V10), "ObtainLease": (0x10, V10),
    "GetUsageAllocation": (0x11, V10), "Activate": (0x12, V10), "Revoke": (0x13, V10),
    "Destroy": (0x14, V10), "Archive": (0x15, V10), "Recover": (0x16, V10),
    "Validate": (0x17, V10), "Query": (0x18, V10), "Cancel": (0x19, V10), "Poll": (0x1A, V10),
    "Notify": (0x1B, V10), "Put": (0x1C, V10),
    # KMIP 1.1
    "RekeyKeyPair": (0x1D, V11), "DiscoverVersions": (0x1E, V11),
    # KMIP 1.2
    "Encrypt": (0x1F, V12), "Decrypt": (0x20, V12), "Sign": (0x21, V12),
    "SignatureVerify": (0x22, V12), "MAC": (0x23, V12), "MACVerify": (0x24, V12),
    "RNGRetrieve": (0x25, V12), "RNGSeed": (0x26, V12), "Hash": (0x27, V12),
    "CreateSplitKey": (0x28, V12), "JoinSplitKey": (0x29, V12),
    # KMIP 1.4
    "Import": (0x2A, V14), "Export": (0x2B, V14),
    # KMIP 2.0
    "Log": (0x2C, V20), "Login": (0x2D, V20), "Logout": (0x2E, V20),
    "DelegatedLogin": (0x2F, V20), "AdjustAttribute": (0x30, V20), "SetAttribute": (0x31, V20),
    "SetEndpointRole": (0x32, V20), "PKCS11": (0x33, V20), "Interop": (0x34, V20),
    "ReProvision": (0x35, V20),
}
OP_BY_CODE = {code: (name, since) for name, (code, since) in OPERATIONS.items()}

# ------------------------------------------------------------------ attributes
# attribute name -> first KMIP version (attributes of KMIP 1.0 are not listed: nothing to gate)
ATTR_SINCE = {
    # KMIP 1.1 chapter 3
    "Fresh": V11, "Certificate Length": V11, "X.509 Certificate Identifier": V11,
    "X.509 Certificate Subject": V11, "X.509 Certificate Issuer": V11,
    "Digital Signature Algorithm": V11,
    # KMIP 1.2
    "Alternative Name": V12, "Key Value Present": V12, "Key Value Location": V12,
    "Original Creation Date": V12,
    # KMIP 1.3
    "Random Number Generator": V13,
    # KMIP 1.4
    "PKCS#12 Friendly Name": V14, "Description": V14, "Comment": V14, "Sensitive": V14,
    "Always Sensitive": V14, "Extractable": V14, "Never Extractable": V14,
}
# attributes that no longer exist from this version on.  (Operation Policy Name is marked
# deprecated by KMIP 1.3 and the Certificate * trio by KMIP 1.1, yet both remain defined - and
# mandatory for the baseline server profile - until 1.4; the only certain fact is their absence
# from KMIP 2.0, so 1.1-1.4 resp. 1.3-1.4 reports are accepted either way.)
ATTR_GONE = {
    "Operation Policy Name": V20, "Certificate Identifier": V20, "Certificate Subject": V20,
    "Certificate Issuer": V20,
}
# KMIP 1.0 attributes (chapter 3 of KMIP 1.0), for control cells and name checks
ATTR_10 = [
    "Unique Identifier", "Name", "Object Type", "Cryptographic Algorithm", "Cryptographic Length",
    "Cryptographic Parameters", "Cryptographic Domain Parameters", "Certificate Type",
    "Certificate Identifier", "Certificate Subject", "Certificate Issuer", "Digest",
    "Operation Policy Name", "Cryptographic Usage Mask", "Lease Time", "Usage Limits", "State",
    "Initial Date", "Activation Date", "Process Start Date", "Protect Stop Date",
    "Deactivation Date", "Destroy Date", "Compromise Occurrence Date", "Compromise Date",
    "Revocation Reason", "Archive Date", "Object Group", "Link",
    "Application Specific Information", "Contact Information", "Last Change Date",
]


def attr_outside(name, v):
    """Why attribute `name` must not be named under version v (None if it may)."""
    v = tuple(v)
    s = ATTR_SINCE.get(name)
    if s is not None and v < s:
        return "introduced-later"
    g = ATTR_GONE.get(name)
    if g is not None and v >= g:
        return "removed"
    return None


# simple-typed sample values for the later attributes: (ttlv item type, value); structured
# attributes get an empty structure (the request then merely *names* the attribute)
T_STRUCT, T_INT, T_ENUM, T_BOOL, T_TEXT, T_DATE = 1, 2, 5, 6, 7, 9
ATTR_SAMPLE = {
    "Fresh": (T_BOOL, True), "Certificate Length": (T_INT, 100),
    "Digital Signature Algorithm": (T_ENUM, 5),       # SHA-256 with RSA
    "X.509 Certificate Identifier": (T_STRUCT, None), "X.509 Certificate Subject": (T_STRUCT, None),
    "X.509 Certificate Issuer": (T_STRUCT, None), "Alternative Name": (T_STRUCT, None),
    "Key Value Present": (T_BOOL, True), "Key Value Location": (T_STRUCT, None),
    "Original Creation Date": (T_DATE, 1_500_000_000), "Random Number Generator": (T_STRUCT, None),
    "PKCS#12 Friendly Name": (T_TEXT, "friendly"), "Description": (T_TEXT, "described"),
    "Comment": (T_TEXT, "commented"), "Sensitive": (T_BOOL, True), "Always Sensitive": (T_BOOL, True),
    "Extractable": (T_BOOL, True), "Never Extractable": (T_BOOL, True),
}

# ------------------------------------------------------------------ tags (spec 9.1.3.1)
# (first tag, last tag, version) of the block each version appended to the tag table
TAG_BLOCKS = [
    (0x420001, 0x4200A1, V10),     # Activation Date ... Password
    (0x4200A2, 0x4200B7, V11),     # Device Identifier ... X.509 Certificate Subject
    (0x4200B8, 0x4200D3, V12),     # Key Value Location ... Attestation Capable Indicator
    (0x4200D4, 0x4200F7, V13),     # Offset Items ... Capability Information
    (0x4200F8, 0x420124, V14),     # Key Wrap Type ... Replace Existing
    (0x420125, 0x42FFFF, V20),     # Attributes ... (2.0 and whatever later versions appended)
]
# names for bucket keys / reports (same table); tags without a name are shown in hex
TAG_NAMES = {
    0x420008: "Attribute", 0x420009: "AttributeIndex", 0x42000A: "AttributeName",
    0x42000B: "AttributeValue", 0x42000C: "Authentication", 0x42000F: "BatchItem",
    0x42001F: "CommonTemplateAttribute", 0x420023: "Credential", 0x420025: "CredentialValue",
    0x42002B: "CryptographicParameters", 0x420032: "DerivationParameters",
    0x420036: "EncryptionKeyInformation", 0x420040: "KeyBlock", 0x420046: "KeyWrappingData",
    0x420047: "KeyWrappingSpecification", 0x42004E: "MACSignatureKeyInformation",
    0x42005D: "OperationPolicyName", 0x420065: "PrivateKeyTemplateAttribute",
    0x42006E: "PublicKeyTemplateAttribute", 0x420077: "RequestHeader", 0x420078: "RequestMessage",
    0x420079: "RequestPayload", 0x42007A: "ResponseHeader", 0x42007B: "ResponseMessage",
    0x42007C: "ResponsePayload", 0x420090: "Template", 0x420091: "TemplateAttribute",
    # 1.1
    0x4200A2: "DeviceIdentifier", 0x4200A3: "EncodingOption", 0x4200A4: "ExtensionInformation",
    0x4200A5: "ExtensionName", 0x4200A6: "ExtensionTag", 0x4200A7: "ExtensionType",
    0x4200A8: "Fresh", 0x4200A9: "MachineIdentifier", 0x4200AA: "MediaIdentifier",
    0x4200AB: "NetworkIdentifier", 0x4200AC: "ObjectGroupMember", 0x4200AD: "CertificateLength",
    0x4200AE: "DigitalSignatureAlgorithm", 0x4200B0: "DeviceSerialNumber",
    0x4200B5: "X509CertificateIdentifier", 0x4200B6: "X509CertificateIssuer",
    0x4200B7: "X509CertificateSubject",
    # 1.2
    0x4200B8: "KeyValueLocation", 0x4200BB: "KeyValuePresent", 0x4200BC: "OriginalCreationDate",
    0x4200BF: "AlternativeName", 0x4200C2: "Data", 0x4200C3: "SignatureData",
    0x4200C4: "DataLength", 0x4200C5: "RandomIV", 0x4200C6: "MACData",
    0x4200C7: "AttestationType", 0x4200C8: "Nonce", 0x4200C9: "NonceID", 0x4200CA: "NonceValue",
    0x4200CB: "AttestationMeasurement", 0x4200CC: "AttestationAssertion", 0x4200CD: "IVLength",
    0x4200CE: "TagLength", 0x4200CF: "FixedFieldLength", 0x4200D0: "CounterLength",
    0x4200D1: "InitialCounterValue", 0x4200D2: "InvocationFieldLength",
    0x4200D3: "AttestationCapableIndicator",
    # 1.3
    0x4200D4: "OffsetItems", 0x4200D5: "LocatedItems", 0x4200D6: "CorrelationValue",
    0x4200D7: "InitIndicator", 0x4200D8: "FinalIndicator", 0x4200D9: "RNGParameters",
    0x4200DE: "RandomNumberGenerator", 0x4200DF: "ValidationInformation",
    0x4200EB: "ProfileInformation", 0x4200F7: "CapabilityInformation",
    # 1.4
    0x4200F8: "KeyWrapType", 0x4200FB: "PKCS12FriendlyName", 0x4200FC: "Description",
    0x4200FD: "Comment", 0x4200FE: "AuthenticatedEncryptionAdditionalData",
    0x4200FF: "AuthenticatedEncryptionTag", 0x420100: "SaltLength", 0x420101: "MaskGenerator",
    0x420102: "MaskGeneratorHashingAlgorithm", 0x420103: "PSource", 0x420104: "TrailerField",
    0x420105: "ClientCorrelationValue", 0x420106: "ServerCorrelationValue",
    0x420107: "DigestedData", 0x420120: "Sensitive", 0x420121: "AlwaysSensitive",
    0x420122: "Extractable", 0x420123: "NeverExtractable", 0x420124: "ReplaceExisting",
    # 2.0
    0x420125: "Attributes", 0x420126: "CommonAttributes", 0x420127: "PrivateKeyAttributes",
    0x420128: "PublicKeyAttributes", 0x42013B: "AttributeReference", 0x42013C: "CurrentAttribute",
    0x42013D: "NewAttribute", 0x420154: "Ephemeral", 0x420155: "ServerHashedPassword",
    0x42015E: "ProtectionStorageMask", 0x42015F: "ProtectionStorageMasks",
    0x420163: "CommonProtectionStorageMasks", 0x420164: "PrivateProtectionStorageMasks",
    0x420165: "PublicProtectionStorageMasks",
}
# tags that KMIP 2.0 designates "(Reserved)": the Template-Attribute family and Operation Policy
# Name no longer exist in 2.0 messages
TAGS_GONE_20 = {0x420091: "TemplateAttribute", 0x42001F: "CommonTemplateAttribute",
                0x420065: "PrivateKeyTemplateAttribute", 0x42006E: "PublicKeyTemplateAttribute",
                0x42005D: "OperationPolicyName",
                # KMIP 2.0 attributes carry no index (multiple instances are simply repeated)
                0x420009: "AttributeIndex"}

# tag -> attribute name, for reading KMIP 2.0 Attributes structures (attributes travel by tag)
ATTR_TAG_NAME = {
    0x420094: "Unique Identifier", 0x420053: "Name", 0x420057: "Object Type",
    0x420028: "Cryptographic Algorithm", 0x42002A: "Cryptographic Length",
    0x42002B: "Cryptographic Parameters", 0x42001D: "Certificate Type",
    0x42005D: "Operation Policy Name", 0x42002C: "Cryptographic Usage Mask", 0x42008D: "State",
    0x420039: "Initial Date", 0x420056: "Object Group",
    0x420004: "Application Specific Information", 0x420120: "Sensitive",
    0x420121: "Always Sensitive", 0x420122: "Extractable", 0x420123: "Never Extractable",
    0x4200A8: "Fresh", 0x4200AD: "Certificate Length", 0x4200BC: "Original Creation Date",
    0x4200BB: "Key Value Present", 0x4200FD: "Comment", 0x4200FC: "Description",
}


def tag_since(tag):
    for lo, hi, v in TAG_BLOCKS:
        if lo <= tag <= hi:
            return v
    return None        # 0x420000 or outside the standard range (0x54xxxx extensions): not dated


def tag_name(tag):
    return TAG_NAMES.get(tag, "0x%06X" % tag)


def late_tags(tags, v):
    """Tags (ints) that a message under version v must not contain, as {tag: reason}."""
    v = tuple(v)
    out = {}
    for t in tags:
        s = tag_since(t)
        if s is not None and v < s:
            out[t] = "since-" + vs(s)
        elif v >= V20 and t in TAGS_GONE_20:
            out[t] = "gone-in-2.0"
    return out
