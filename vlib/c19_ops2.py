"""C19 operation table, part 2: object creation / registration / retrieval operations."""
from hypothesis import strategies as st

from vlib import ttlvref as T
from vlib import c19_wire as W
from vlib import c19_codec as C
from vlib.c19_ops import (Op, reg, opt, uid_s, text_s, nbytes_s, masks_s, alg_s, cp_s, orbits,
                          plain, _E, lib_cp, lib_cp_dict, lib_masks, lib_template, chk_val,
                          chk_attr, template_of, find_attrs)


# ----------------------------------------------------------------------------- create
@reg
class Create(Op):
    name = "create"

    def args(self, v, api):
        return st.fixed_dictionaries({"alg": alg_s, "len": st.integers(1, 4096), "opn": opt(text_s),
                                      "name": opt(text_s), "masks": opt(masks_s)})

    def call(self, api, c, a, v):
        E = _E()
        if api == "pie":
            return c.create(E.CryptographicAlgorithm(a["alg"]), a["len"],
                            operation_policy_name=a["opn"], name=a["name"],
                            cryptographic_usage_mask=lib_masks(a["masks"]))
        attrs = [("Cryptographic Algorithm", a["alg"]), ("Cryptographic Length", a["len"])]
        if a["masks"]:
            attrs.append(("Cryptographic Usage Mask", a["masks"]))
        if a["opn"]:
            attrs.append(("Operation Policy Name", a["opn"]))
        if a["name"]:
            attrs.append(("Name", a["name"]))
        return c.proxy.create(E.ObjectType.SYMMETRIC_KEY, lib_template(attrs))

    def check(self, a, pl, v, api):
        probs = []
        chk_val(probs, pl, W.OBJECT_TYPE, W.OT_SYMMETRIC_KEY, "object type")
        at = template_of(pl, v)
        chk_attr(probs, at, "Cryptographic Algorithm", a["alg"], "algorithm")
        chk_attr(probs, at, "Cryptographic Length", a["len"], "length")
        if a["masks"]:
            # the pie client documents the list as the masks "passing to the symmetric key";
            # extra bits (its Encrypt|Decrypt default) are tolerated
            chk_attr(probs, at, "Cryptographic Usage Mask", orbits(a["masks"]),
                     "cryptographic_usage_mask", superset=(api == "pie"))
        chk_attr(probs, at, "Operation Policy Name", a["opn"], "operation_policy_name")
        chk_attr(probs, at, "Name", a["name"], "name")
        return probs

    def payload(self, v):
        return st.fixed_dictionaries({"uid": uid_s})

    def enc(self, p, v):
        return [T.encode_enum(W.OBJECT_TYPE, W.OT_SYMMETRIC_KEY),
                T.encode_text(W.UNIQUE_IDENTIFIER, p["uid"])]


@reg
class CreateKeyPair(Op):
    name = "create_key_pair"

    def args(self, v, api):
        return st.fixed_dictionaries({
            "alg": st.sampled_from([4, 5, 6, 0xD, 0xE, 0x1A]), "len": st.integers(1, 8192),
            "opn": opt(text_s), "pub_name": opt(text_s), "pub_masks": opt(masks_s),
            "priv_name": opt(text_s), "priv_masks": opt(masks_s)})

    def call(self, api, c, a, v):
        E = _E()
        if api == "pie":
            return c.create_key_pair(
                E.CryptographicAlgorithm(a["alg"]), a["len"], operation_policy_name=a["opn"],
                public_name=a["pub_name"], public_usage_mask=lib_masks(a["pub_masks"]),
                private_name=a["priv_name"], private_usage_mask=lib_masks(a["priv_masks"]))
        common = [("Cryptographic Algorithm", a["alg"]), ("Cryptographic Length", a["len"])]
        if a["opn"]:
            common.append(("Operation Policy Name", a["opn"]))

        def side(name, masks, tag):
            at = []
            if name:
                at.append(("Name", name))
            if masks:
                at.append(("Cryptographic Usage Mask", masks))
            return lib_template(at, tag) if at else None
        return c.proxy.create_key_pair(
            common_template_attribute=lib_template(common, "common"),
            private_key_template_attribute=side(a["priv_name"], a["priv_masks"], "private"),
            public_key_template_attribute=side(a["pub_name"], a["pub_masks"], "public"))

    def check(self, a, pl, v, api):
        probs = []
        common = template_of(pl, v, "common")
        chk_attr(probs, common, "Cryptographic Algorithm", a["alg"], "algorithm")
        chk_attr(probs, common, "Cryptographic Length", a["len"], "length")
        chk_attr(probs, common, "Operation Policy Name", a["opn"], "operation_policy_name")
        for side, nm, ms in (("public", a["pub_name"], a["pub_masks"]),
                             ("private", a["priv_name"], a["priv_masks"])):
            at = template_of(pl, v, side)
            chk_attr(probs, at, "Name", nm, "%s_name" % side)
            if ms:
                chk_attr(probs, at, "Cryptographic Usage Mask", orbits(ms), "%s_usage_mask" % side)
            if nm is None and find_attrs(at, "Name"):
                probs.append("%s key template carries a Name although %s_name was omitted"
                             % (side, side))
            if not ms and find_attrs(at, "Cryptographic Usage Mask"):
                probs.append("%s key template carries a usage mask although none was given" % side)
        return probs

    def payload(self, v):
        return st.fixed_dictionaries({"priv": uid_s, "pub": uid_s})

    def enc(self, p, v):
        return [T.encode_text(W.PRIVATE_KEY_UNIQUE_IDENTIFIER, p["priv"]),
                T.encode_text(W.PUBLIC_KEY_UNIQUE_IDENTIFIER, p["pub"])]

    def dec(self, node, v):
        return {"priv": W.val(node, W.PRIVATE_KEY_UNIQUE_IDENTIFIER),
                "pub": W.val(node, W.PUBLIC_KEY_UNIQUE_IDENTIFIER)}

    # documented: (uid of the public key, uid of the private key)
    def expect(self, api, p, v):
        return [p["pub"], p["priv"]] if api == "pie" else {"pub": p["pub"], "priv": p["priv"]}

    def observe(self, api, r, v):
        if api == "pie":
            return plain(r)
        return {"pub": plain(self.field(r, "public_key_uuid")),
                "priv": plain(self.field(r, "private_key_uuid"))}


@reg
class RekeyKeyPair(CreateKeyPair):
    name = "rekey_key_pair"
    apis = ("proxy",)

    def args(self, v, api):
        return st.fixed_dictionaries({"uid": opt(uid_s), "offset": opt(st.integers(0, 10 ** 6))})

    def call(self, api, c, a, v):
        from kmip.core import attributes, misc
        uid = None if a["uid"] is None else attributes.PrivateKeyUniqueIdentifier(a["uid"])
        off = None if a["offset"] is None else misc.Offset(a["offset"])
        return c.proxy.rekey_key_pair(private_key_uuid=uid, offset=off)

    def check(self, a, pl, v, api):
        probs = []
        chk_val(probs, pl, W.PRIVATE_KEY_UNIQUE_IDENTIFIER, a["uid"], "private_key_uuid")
        chk_val(probs, pl, W.OFFSET, a["offset"], "offset")
        return probs


# ----------------------------------------------------------------------------- register / get
def _keyval(n_min=1, n_max=40):
    return st.binary(min_size=n_min, max_size=n_max).map(lambda b: b.hex())


def object_s(for_get, v):
    """Managed objects the pie object model documents (kmip.pie.objects)."""
    sym = st.builds(lambda alg, val: {"kind": "SymmetricKey", "alg": alg, "value": val,
                                      "len": 4 * len(val), "fmt": 1},
                    st.sampled_from([1, 2, 3, 0x10, 0x11, 0x19]), _keyval(1, 64))
    pub = st.builds(lambda alg, ln, val, fmt: {"kind": "PublicKey", "alg": alg, "len": ln,
                                               "value": val, "fmt": fmt},
                    st.sampled_from([4, 5, 6, 0x1A]), st.sampled_from([256, 1024, 2048, 4096]),
                    _keyval(), st.sampled_from([1, 3, 5]))
    priv = st.builds(lambda alg, ln, val, fmt: {"kind": "PrivateKey", "alg": alg, "len": ln,
                                                "value": val, "fmt": fmt},
                     st.sampled_from([4, 5, 6, 0x1A]), st.sampled_from([256, 1024, 2048, 4096]),
                     _keyval(), st.sampled_from([1, 3, 4]))
    sec = st.builds(lambda val, dt: {"kind": "SecretData", "value": val, "dtype": dt, "fmt": 2},
                    _keyval(), st.integers(1, 2))
    cert = st.builds(lambda val: {"kind": "Certificate", "ctype": 1, "value": val}, _keyval())
    opq = st.builds(lambda val: {"kind": "OpaqueObject", "otype": 0x80000000, "value": val}, _keyval())
    split = st.builds(
        lambda alg, val, parts, pid, thr, meth, prime: dict(
            {"kind": "SplitKey", "alg": alg, "value": val, "len": 4 * len(val), "fmt": 1,
             "parts": parts, "part_id": pid, "threshold": thr, "method": meth},
            **({"prime": prime} if meth == 3 else {})),
        st.sampled_from([2, 3]), _keyval(1, 32), st.integers(2, 9), st.integers(1, 9),
        st.integers(1, 9), st.integers(1, 4), st.integers(2, 2 ** 62))
    return st.one_of(sym, pub, priv, sec, cert, opq, split)


def wrap_s(with_cp):
    info = st.fixed_dictionaries({"uid": uid_s, "cp": cp_s()} if with_cp else {"uid": uid_s},
                                 optional=None if with_cp else {"cp": cp_s()})
    return st.fixed_dictionaries(
        {"method": st.integers(1, 5)},
        optional={"eki": info, "mski": info, "mac": nbytes_s, "iv": nbytes_s,
                  "enc": st.integers(1, 2)})


def lib_pie_object(o, extra=None):
    """kmip.pie.objects instance for register()."""
    from kmip.pie import objects as pobj
    E = _E()
    extra = extra or {}
    masks = lib_masks(extra.get("masks"))
    name = extra.get("name")
    kw = {} if name is None else {"name": name}
    val = W.unhex(o["value"])
    k = o["kind"]
    if k == "SymmetricKey":
        obj = pobj.SymmetricKey(E.CryptographicAlgorithm(o["alg"]), o["len"], val, masks=masks, **kw)
    elif k == "PublicKey":
        obj = pobj.PublicKey(E.CryptographicAlgorithm(o["alg"]), o["len"], val,
                             E.KeyFormatType(o["fmt"]), masks=masks, **kw)
    elif k == "PrivateKey":
        obj = pobj.PrivateKey(E.CryptographicAlgorithm(o["alg"]), o["len"], val,
                              E.KeyFormatType(o["fmt"]), masks=masks, **kw)
    elif k == "SecretData":
        obj = pobj.SecretData(val, E.SecretDataType(o["dtype"]), masks=masks, **kw)
    elif k == "Certificate":
        obj = pobj.X509Certificate(val, masks=masks, **kw)
    elif k == "OpaqueObject":
        obj = pobj.OpaqueObject(val, E.OpaqueDataType(o["otype"]), **kw)
    elif k == "SplitKey":
        obj = pobj.SplitKey(
            cryptographic_algorithm=E.CryptographicAlgorithm(o["alg"]),
            cryptographic_length=o["len"], key_value=val, cryptographic_usage_masks=masks,
            key_format_type=E.KeyFormatType(o["fmt"]), split_key_parts=o["parts"],
            key_part_identifier=o["part_id"], split_key_threshold=o["threshold"],
            split_key_method=E.SplitKeyMethod(o["method"]), prime_field_size=o.get("prime"), **kw)
    else:
        raise ValueError(k)
    if extra.get("opn") is not None:
        obj.operation_policy_name = extra["opn"]
    return obj


def lib_core_object(o):
    """kmip.core.secrets instance for KMIPProxy.register()."""
    from vlib import harness as H
    E = _E()
    k = o["kind"]
    d = {"value": o["value"]}
    if "alg" in o:
        d["alg"] = E.CryptographicAlgorithm(o["alg"]).name
    if "len" in o:
        d["len"] = o["len"]
    if "fmt" in o:
        d["fmt"] = E.KeyFormatType(o["fmt"]).name
    if k in ("SymmetricKey", "PublicKey", "PrivateKey"):
        d["type"] = k
    elif k == "SplitKey":
        d.update(type="SplitKey", parts=o["parts"], part_id=o["part_id"], threshold=o["threshold"],
                 method=E.SplitKeyMethod(o["method"]).name, prime=o.get("prime"))
    elif k == "SecretData":
        d.update(type="SecretData", dtype=E.SecretDataType(o["dtype"]).name)
    elif k == "Certificate":
        d.update(type="Certificate", ctype="X_509")
    elif k == "OpaqueObject":
        d.update(type="OpaqueData", otype="NONE")
    return H.secret(d)


def pie_object_plain(m):
    """The documented public attributes of a kmip.pie.objects.ManagedObject as JSON-able data, in
    the vocabulary of the object specs."""
    from kmip.pie import objects as pobj
    if isinstance(m, pobj.SplitKey):
        o = {"kind": "SplitKey", "parts": plain(m.split_key_parts),
             "part_id": plain(m.key_part_identifier), "threshold": plain(m.split_key_threshold),
             "method": plain(m.split_key_method)}
        if m.prime_field_size is not None:
            o["prime"] = plain(m.prime_field_size)
    elif isinstance(m, pobj.SymmetricKey):
        o = {"kind": "SymmetricKey"}
    elif isinstance(m, pobj.PublicKey):
        o = {"kind": "PublicKey"}
    elif isinstance(m, pobj.PrivateKey):
        o = {"kind": "PrivateKey"}
    elif isinstance(m, pobj.SecretData):
        return {"kind": "SecretData", "value": plain(m.value), "dtype": plain(m.data_type)}
    elif isinstance(m, pobj.Certificate):
        return {"kind": "Certificate", "ctype": plain(m.certificate_type), "value": plain(m.value)}
    elif isinstance(m, pobj.OpaqueObject):
        return {"kind": "OpaqueObject", "otype": plain(m.opaque_type), "value": plain(m.value)}
    else:
        return {"kind": "?" + type(m).__name__}
    o.update(value=plain(m.value), alg=plain(m.cryptographic_algorithm),
             len=plain(m.cryptographic_length), fmt=plain(m.key_format_type))
    w = _wrap_from_pie(m.key_wrapping_data)
    if w is not None:
        o["wrap"] = w
    return o


def _cp_clean(d):
    # the pie key_wrapping_data getter cannot tell 0 / False from "absent" (it collapses parameter
    # sets whose values are all falsy): such members are not compared
    return {k: plain(x) for k, x in (d or {}).items() if x is not None and plain(x)}


def _wrap_from_pie(d):
    """pie key_wrapping_data dictionary -> wrap spec vocabulary (absent / empty members dropped)."""
    if not d:
        return None
    w = {}
    if d.get("wrapping_method") is not None:
        w["method"] = plain(d["wrapping_method"])
    for key, src in (("eki", "encryption_key_information"), ("mski", "mac_signature_key_information")):
        i = d.get(src)
        if i:
            x = {"uid": plain(i.get("unique_identifier"))}
            cp = _cp_clean(i.get("cryptographic_parameters"))
            if cp:
                x["cp"] = cp
            w[key] = x
    for key, src in (("mac", "mac_signature"), ("iv", "iv_counter_nonce"), ("enc", "encoding_option")):
        if d.get(src) is not None:
            w[key] = plain(d[src])
    return w


def object_expected_pie(o):
    """What the documented pie object must show for a wire object o (only fields the pie object
    model documents; empty cryptographic parameter sets are indistinguishable from absent ones)."""
    o = dict(o)
    if o["kind"] == "SecretData":
        return {"kind": "SecretData", "value": o["value"], "dtype": o["dtype"]}
    w = o.get("wrap")
    if w is not None:
        w = dict(w)
        for k in ("eki", "mski"):
            if k in w:
                w[k] = dict(w[k])
                cp = {f: x for f, x in (w[k].get("cp") or {}).items() if x}
                if cp:
                    w[k]["cp"] = cp
                else:
                    w[k].pop("cp", None)
        o["wrap"] = w
    return o


def core_object_plain(s):
    """A kmip.core.secrets object (KMIPProxy.get result) in the object spec vocabulary."""
    from kmip.core import secrets as csec

    def kb(k, o):
        o["fmt"] = plain(k.key_format_type)
        km = k.key_value.key_material if k.key_value is not None else None
        o["value"] = plain(km)
        if k.cryptographic_algorithm is not None:
            o["alg"] = plain(k.cryptographic_algorithm)
        if k.cryptographic_length is not None:
            o["len"] = plain(k.cryptographic_length)
        w = k.key_wrapping_data
        if w is not None:
            d = {"method": plain(w.wrapping_method)}
            for key, i in (("eki", w.encryption_key_information),
                           ("mski", w.mac_signature_key_information)):
                if i is not None:
                    x = {"uid": plain(i.unique_identifier)}
                    if i.cryptographic_parameters is not None:
                        p = i.cryptographic_parameters
                        x["cp"] = {f: plain(getattr(p, f)) for f, _, _ in C.CP_FIELDS
                                   if getattr(p, f) is not None}
                    d[key] = x
            for key, x in (("mac", w.mac_signature), ("iv", w.iv_counter_nonce),
                           ("enc", w.encoding_option)):
                if x is not None:
                    d[key] = plain(x)
            o["wrap"] = d
        return o
    if isinstance(s, csec.SplitKey):
        o = {"kind": "SplitKey", "parts": s.split_key_parts, "part_id": s.key_part_identifier,
             "threshold": s.split_key_threshold, "method": plain(s.split_key_method)}
        if s.prime_field_size is not None:
            o["prime"] = s.prime_field_size
        return kb(s.key_block, o)
    for cls, kind in ((csec.SymmetricKey, "SymmetricKey"), (csec.PublicKey, "PublicKey"),
                      (csec.PrivateKey, "PrivateKey")):
        if isinstance(s, cls):
            return kb(s.key_block, {"kind": kind})
    if isinstance(s, csec.SecretData):
        return kb(s.key_block, {"kind": "SecretData", "dtype": plain(s.secret_data_type)})
    if isinstance(s, csec.Certificate):
        return {"kind": "Certificate", "ctype": plain(s.certificate_type),
                "value": plain(s.certificate_value)}
    if isinstance(s, csec.OpaqueObject):
        return {"kind": "OpaqueObject", "otype": plain(s.opaque_data_type),
                "value": plain(s.opaque_data_value)}
    return {"kind": "?" + type(s).__name__}


@reg
class Register(Op):
    name = "register"

    def args(self, v, api):
        return st.fixed_dictionaries({"obj": object_s(False, v), "masks": opt(masks_s),
                                      "name": opt(text_s), "opn": opt(text_s)})

    def call(self, api, c, a, v):
        E = _E()
        o = a["obj"]
        if api == "pie":
            return c.register(lib_pie_object(o, a))
        attrs = []
        if a["masks"] and o["kind"] != "OpaqueObject":
            attrs.append(("Cryptographic Usage Mask", a["masks"]))
        if a["opn"]:
            attrs.append(("Operation Policy Name", a["opn"]))
        if a["name"]:
            attrs.append(("Name", a["name"]))
        return c.proxy.register(E.ObjectType(C.KIND_OTYPE[o["kind"]]), lib_template(attrs),
                                lib_core_object(o))

    def check(self, a, pl, v, api):
        probs = []
        o = a["obj"]
        chk_val(probs, pl, W.OBJECT_TYPE, C.KIND_OTYPE[o["kind"]], "object type")
        sent = C.dec_object(pl)
        if sent is None:
            probs.append("no managed object in the Register request")
        else:
            for k, x in o.items():
                if sent.get(k) != x:
                    probs.append("managed object field %s sent as %r, object has %r"
                                 % (k, sent.get(k), x))
        at = template_of(pl, v)
        if a["masks"] and o["kind"] != "OpaqueObject":
            chk_attr(probs, at, "Cryptographic Usage Mask", orbits(a["masks"]), "masks")
        chk_attr(probs, at, "Operation Policy Name", a["opn"], "operation_policy_name")
        chk_attr(probs, at, "Name", a["name"], "name")
        return probs


@reg
class Get(Op):
    name = "get"

    def args(self, v, api):
        info = st.fixed_dictionaries({"uid": uid_s}, optional={"cp": cp_s()})
        kws = st.fixed_dictionaries(
            {"method": st.integers(1, 5)},
            optional={"eki": info, "mski": info,
                      "names": st.lists(st.sampled_from(["Name", "Cryptographic Length", "State"]),
                                        min_size=1, max_size=2, unique=True),
                      "enc": st.integers(1, 2)})
        return st.fixed_dictionaries({"uid": opt(uid_s), "kws": opt(kws)})

    def call(self, api, c, a, v):
        E = _E()
        k = a["kws"]
        if api == "pie":
            spec = None
            if k is not None:
                spec = {"wrapping_method": E.WrappingMethod(k["method"])}
                for key, dst in (("eki", "encryption_key_information"),
                                 ("mski", "mac_signature_key_information")):
                    if key in k:
                        d = {"unique_identifier": k[key]["uid"]}
                        if "cp" in k[key]:
                            d["cryptographic_parameters"] = lib_cp_dict(k[key]["cp"])
                        spec[dst] = d
                if "names" in k:
                    spec["attribute_names"] = list(k["names"])
                if "enc" in k:
                    spec["encoding_option"] = E.EncodingOption(k["enc"])
            return c.get(a["uid"], key_wrapping_specification=spec)
        from kmip.core import objects as cobj
        spec = None
        if k is not None:
            def info(key, cls):
                if key not in k:
                    return None
                return cls(unique_identifier=k[key]["uid"],
                           cryptographic_parameters=lib_cp(k[key].get("cp")))
            spec = cobj.KeyWrappingSpecification(
                wrapping_method=E.WrappingMethod(k["method"]),
                encryption_key_information=info("eki", cobj.EncryptionKeyInformation),
                mac_signature_key_information=info("mski", cobj.MACSignatureKeyInformation),
                attribute_names=k.get("names"),
                encoding_option=None if "enc" not in k else E.EncodingOption(k["enc"]))
        return c.proxy.get(a["uid"], key_wrapping_specification=spec)

    def check(self, a, pl, v, api):
        probs = []
        chk_val(probs, pl, W.UNIQUE_IDENTIFIER, a["uid"], "uid")
        k = a["kws"]
        node = W.kid(pl, W.KEY_WRAPPING_SPECIFICATION)
        if k is None:
            if node is not None:
                probs.append("key wrapping specification sent although omitted")
            return probs
        if node is None:
            return probs + ["key wrapping specification missing from the request"]
        chk_val(probs, node, W.WRAPPING_METHOD, k["method"], "wrapping_method")
        for key, tag in (("eki", W.ENCRYPTION_KEY_INFORMATION), ("mski", W.MAC_SIGNATURE_KEY_INFORMATION)):
            sub = W.kid(node, tag)
            if key in k:
                chk_val(probs, sub, W.UNIQUE_IDENTIFIER, k[key]["uid"], key + ".unique_identifier")
                C.check_cp(probs, W.kid(sub, W.CRYPTOGRAPHIC_PARAMETERS), k[key].get("cp"), key)
            elif sub is not None:
                probs.append("%s sent although omitted" % key)
        if "names" in k:
            got = [c["value"] for c in W.kids(node, W.ATTRIBUTE_NAME)]
            if got != list(k["names"]):
                probs.append("attribute_names sent as %r, given %r" % (got, k["names"]))
        if tuple(v) >= (1, 1):
            chk_val(probs, node, W.ENCODING_OPTION, k.get("enc"), "encoding_option")
        return probs

    def payload(self, v, wrap_cp=True):
        def attach(o, w):
            if w is not None and o["kind"] in ("SymmetricKey", "PublicKey", "PrivateKey", "SplitKey"):
                o = dict(o)
                o["wrap"] = w
            return o
        obj = st.builds(attach, object_s(True, v), opt(wrap_s(wrap_cp)))
        return st.fixed_dictionaries({"uid": uid_s, "obj": obj})

    def enc(self, p, v):
        return [T.encode_enum(W.OBJECT_TYPE, C.KIND_OTYPE[p["obj"]["kind"]]),
                T.encode_text(W.UNIQUE_IDENTIFIER, p["uid"]), C.enc_object(p["obj"])]

    def dec(self, node, v):
        return {"uid": W.val(node, W.UNIQUE_IDENTIFIER), "obj": C.dec_object(node)}

    def expect(self, api, p, v):
        if api == "pie":
            return object_expected_pie(p["obj"])
        return {"uid": p["uid"], "otype": C.KIND_OTYPE.get(p["obj"]["kind"]), "obj": p["obj"]}

    def observe(self, api, r, v):
        if api == "pie":
            return pie_object_plain(r)
        s = self.field(r, "secret")
        return {"uid": plain(self.field(r, "uuid")), "otype": plain(self.field(r, "object_type")),
                "obj": None if s is None else core_object_plain(s)}
