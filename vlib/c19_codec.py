"""C19: ttlvref codecs (independent of kmip) for the structures that appear in scripted responses
and in requests: cryptographic parameters, key wrapping data, managed objects, attributes.
All specs are JSON-able; enumerations are numbers, byte strings are hex."""
from vlib import ttlvref as T
from vlib import c19_wire as W

# ----------------------------------------------------------------------------- crypto parameters
# (spec key, tag, kind) in the order of the KMIP specification (2.1.7.? Cryptographic Parameters)
CP_FIELDS = [
    ("block_cipher_mode", W.BLOCK_CIPHER_MODE, "enum"),
    ("padding_method", W.PADDING_METHOD, "enum"),
    ("hashing_algorithm", W.HASHING_ALGORITHM, "enum"),
    ("key_role_type", W.KEY_ROLE_TYPE, "enum"),
    ("digital_signature_algorithm", W.DIGITAL_SIGNATURE_ALGORITHM, "enum"),
    ("cryptographic_algorithm", W.CRYPTOGRAPHIC_ALGORITHM, "enum"),
    ("random_iv", W.RANDOM_IV, "bool"),
    ("iv_length", W.IV_LENGTH, "int"),
    ("tag_length", W.TAG_LENGTH, "int"),
    ("fixed_field_length", W.FIXED_FIELD_LENGTH, "int"),
    ("invocation_field_length", W.INVOCATION_FIELD_LENGTH, "int"),
    ("counter_length", W.COUNTER_LENGTH, "int"),
    ("initial_counter_value", W.INITIAL_COUNTER_VALUE, "int"),
]
_ENC = {"enum": T.encode_enum, "int": T.encode_integer, "bool": T.encode_bool,
        "text": T.encode_text, "date": T.encode_datetime}


def enc_cp(cp, tag=W.CRYPTOGRAPHIC_PARAMETERS):
    out = []
    for key, t, kind in CP_FIELDS:
        if cp.get(key) is not None:
            out.append(_ENC[kind](t, cp[key]))
    return T.encode_struct(tag, out)


def dec_cp(node):
    if node is None:
        return None
    out = {}
    for key, t, kind in CP_FIELDS:
        x = W.val(node, t)
        if x is not None:
            out[key] = x
    return out


def check_cp(probs, node, cp, where):
    """Request check: every given cryptographic parameter sits under its own tag."""
    if cp is None:
        return
    given = {k: x for k, x in cp.items() if x is not None}
    if node is None:
        if given:
            probs.append("%s: cryptographic parameters missing from the request" % where)
        return
    got = dec_cp(node)
    for k, x in given.items():
        if got.get(k) != x:
            probs.append("%s: cryptographic parameter %s sent as %r, given %r"
                         % (where, k, got.get(k), x))
    for k in got:
        if k not in given:
            probs.append("%s: cryptographic parameter %s sent but not given" % (where, k))


# ----------------------------------------------------------------------------- key wrapping data
def enc_keyinfo(tag, info):
    out = [T.encode_text(W.UNIQUE_IDENTIFIER, info["uid"])]
    if info.get("cp") is not None:
        out.append(enc_cp(info["cp"]))
    return T.encode_struct(tag, out)


def dec_keyinfo(node):
    if node is None:
        return None
    out = {"uid": W.val(node, W.UNIQUE_IDENTIFIER)}
    cp = dec_cp(W.kid(node, W.CRYPTOGRAPHIC_PARAMETERS))
    if cp is not None:
        out["cp"] = cp
    return out


def enc_wrap(w):
    out = [T.encode_enum(W.WRAPPING_METHOD, w["method"])]
    if w.get("eki") is not None:
        out.append(enc_keyinfo(W.ENCRYPTION_KEY_INFORMATION, w["eki"]))
    if w.get("mski") is not None:
        out.append(enc_keyinfo(W.MAC_SIGNATURE_KEY_INFORMATION, w["mski"]))
    if w.get("mac") is not None:
        out.append(T.encode_bytes(W.MAC_SIGNATURE, W.unhex(w["mac"])))
    if w.get("iv") is not None:
        out.append(T.encode_bytes(W.IV_COUNTER_NONCE, W.unhex(w["iv"])))
    if w.get("enc") is not None:
        out.append(T.encode_enum(W.ENCODING_OPTION, w["enc"]))
    return T.encode_struct(W.KEY_WRAPPING_DATA, out)


def dec_wrap(node):
    if node is None:
        return None
    out = {"method": W.val(node, W.WRAPPING_METHOD)}
    for key, tag in (("eki", W.ENCRYPTION_KEY_INFORMATION), ("mski", W.MAC_SIGNATURE_KEY_INFORMATION)):
        x = dec_keyinfo(W.kid(node, tag))
        if x is not None:
            out[key] = x
    for key, tag in (("mac", W.MAC_SIGNATURE), ("iv", W.IV_COUNTER_NONCE)):
        x = W.val(node, tag)
        if x is not None:
            out[key] = W.hexs(x)
    x = W.val(node, W.ENCODING_OPTION)
    if x is not None:
        out["enc"] = x
    return out


# ----------------------------------------------------------------------------- managed objects
KEY_TAGS = {"SymmetricKey": W.SYMMETRIC_KEY, "PublicKey": W.PUBLIC_KEY, "PrivateKey": W.PRIVATE_KEY}
KIND_OTYPE = {"Certificate": 1, "SymmetricKey": 2, "PublicKey": 3, "PrivateKey": 4, "SplitKey": 5,
              "SecretData": 7, "OpaqueObject": 8}
OTYPE_KIND = {v: k for k, v in KIND_OTYPE.items()}


def enc_keyblock(o):
    out = [T.encode_enum(W.KEY_FORMAT_TYPE, o["fmt"]),
           T.encode_struct(W.KEY_VALUE, [T.encode_bytes(W.KEY_MATERIAL, W.unhex(o["value"]))])]
    if o.get("alg") is not None:
        out.append(T.encode_enum(W.CRYPTOGRAPHIC_ALGORITHM, o["alg"]))
    if o.get("len") is not None:
        out.append(T.encode_integer(W.CRYPTOGRAPHIC_LENGTH, o["len"]))
    if o.get("wrap") is not None:
        out.append(enc_wrap(o["wrap"]))
    return T.encode_struct(W.KEY_BLOCK, out)


def dec_keyblock(node, o):
    kb = W.kid(node, W.KEY_BLOCK)
    o["fmt"] = W.val(kb, W.KEY_FORMAT_TYPE)
    kv = W.kid(kb, W.KEY_VALUE)
    km = W.kid(kv, W.KEY_MATERIAL)
    if km is not None and "value" in km:
        o["value"] = W.hexs(km["value"])
    else:
        o["value"] = None       # transparent key structures etc.: not modelled
    for key, tag in (("alg", W.CRYPTOGRAPHIC_ALGORITHM), ("len", W.CRYPTOGRAPHIC_LENGTH)):
        x = W.val(kb, tag)
        if x is not None:
            o[key] = x
    w = dec_wrap(W.kid(kb, W.KEY_WRAPPING_DATA))
    if w is not None:
        o["wrap"] = w
    return o


def enc_object(o):
    k = o["kind"]
    if k in KEY_TAGS:
        return T.encode_struct(KEY_TAGS[k], [enc_keyblock(o)])
    if k == "SplitKey":
        out = [T.encode_integer(W.SPLIT_KEY_PARTS, o["parts"]),
               T.encode_integer(W.KEY_PART_IDENTIFIER, o["part_id"]),
               T.encode_integer(W.SPLIT_KEY_THRESHOLD, o["threshold"]),
               T.encode_enum(W.SPLIT_KEY_METHOD, o["method"])]
        if o.get("prime") is not None:
            out.append(T.encode_big(W.PRIME_FIELD_SIZE, o["prime"]))
        out.append(enc_keyblock(o))
        return T.encode_struct(W.SPLIT_KEY, out)
    if k == "SecretData":
        return T.encode_struct(W.SECRET_DATA, [T.encode_enum(W.SECRET_DATA_TYPE, o["dtype"]),
                                               enc_keyblock(o)])
    if k == "Certificate":
        return T.encode_struct(W.CERTIFICATE, [T.encode_enum(W.CERTIFICATE_TYPE, o["ctype"]),
                                               T.encode_bytes(W.CERTIFICATE_VALUE, W.unhex(o["value"]))])
    if k == "OpaqueObject":
        return T.encode_struct(W.OPAQUE_OBJECT, [T.encode_enum(W.OPAQUE_DATA_TYPE, o["otype"]),
                                                 T.encode_bytes(W.OPAQUE_DATA_VALUE, W.unhex(o["value"]))])
    raise ValueError("enc_object: kind %r" % k)


def dec_object(parent):
    """Find the managed object among the children of `parent` and decode it (None if absent)."""
    for k, tag in KEY_TAGS.items():
        n = W.kid(parent, tag)
        if n is not None:
            return dec_keyblock(n, {"kind": k})
    n = W.kid(parent, W.SPLIT_KEY)
    if n is not None:
        o = {"kind": "SplitKey", "parts": W.val(n, W.SPLIT_KEY_PARTS),
             "part_id": W.val(n, W.KEY_PART_IDENTIFIER), "threshold": W.val(n, W.SPLIT_KEY_THRESHOLD),
             "method": W.val(n, W.SPLIT_KEY_METHOD)}
        p = W.val(n, W.PRIME_FIELD_SIZE)
        if p is not None:
            o["prime"] = p
        return dec_keyblock(n, o)
    n = W.kid(parent, W.SECRET_DATA)
    if n is not None:
        return dec_keyblock(n, {"kind": "SecretData", "dtype": W.val(n, W.SECRET_DATA_TYPE)})
    n = W.kid(parent, W.CERTIFICATE)
    if n is not None:
        return {"kind": "Certificate", "ctype": W.val(n, W.CERTIFICATE_TYPE),
                "value": W.hexs(W.val(n, W.CERTIFICATE_VALUE))}
    n = W.kid(parent, W.OPAQUE_OBJECT)
    if n is not None:
        return {"kind": "OpaqueObject", "otype": W.val(n, W.OPAQUE_DATA_TYPE),
                "value": W.hexs(W.val(n, W.OPAQUE_DATA_VALUE))}
    return None


# ----------------------------------------------------------------------------- attributes
def enc_attr_value(name, value, tag):
    kind = W.ATTR_KIND[name]
    if kind == "name":
        return T.encode_struct(tag, [T.encode_text(W.NAME_VALUE, value["v"]),
                                     T.encode_enum(W.NAME_TYPE, value["t"])])
    if kind == "asi":
        return T.encode_struct(tag, [T.encode_text(W.APPLICATION_NAMESPACE, value["ns"]),
                                     T.encode_text(W.APPLICATION_DATA, value["data"])])
    return _ENC[kind](tag, value)


def dec_attr_value(node):
    """JSON-able rendering of an attribute value node (tag independent)."""
    if node is None:
        return None
    if "children" in node:
        if W.kid(node, W.NAME_VALUE) is not None:
            return {"v": W.val(node, W.NAME_VALUE), "t": W.val(node, W.NAME_TYPE)}
        if W.kid(node, W.APPLICATION_NAMESPACE) is not None:
            return {"ns": W.val(node, W.APPLICATION_NAMESPACE), "data": W.val(node, W.APPLICATION_DATA)}
        return {"struct": [T.to_plain(c) for c in node["children"]]}
    x = node["value"]
    return W.hexs(x) if isinstance(x, (bytes, bytearray)) else x


def enc_attribute(a, v):
    """a = [name, index|None, value]; 1.x Attribute structure or 2.0 bare attribute."""
    name, idx, value = a
    if tuple(v) >= (2, 0):
        return enc_attr_value(name, value, W.ATTR_TAG[name])
    out = [T.encode_text(W.ATTRIBUTE_NAME, name)]
    if idx is not None:
        out.append(T.encode_integer(W.ATTRIBUTE_INDEX, idx))
    out.append(enc_attr_value(name, value, W.ATTRIBUTE_VALUE))
    return T.encode_struct(W.ATTRIBUTE, out)


def dec_attribute(node, v):
    """-> [name, index|None, value] from a 1.x Attribute structure or a 2.0 bare attribute."""
    if node["tag"] == W.ATTRIBUTE:
        return [W.val(node, W.ATTRIBUTE_NAME), W.val(node, W.ATTRIBUTE_INDEX),
                dec_attr_value(W.kid(node, W.ATTRIBUTE_VALUE))]
    return [W.ATTR_NAME.get(node["tag"], "tag:%06x" % node["tag"]), None, dec_attr_value(node)]
