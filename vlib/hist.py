"""Helpers for history-based checks: snapshots, diffs, request pools."""
import copy

from hypothesis import strategies as st

from vlib import fixtures as F
from vlib import harness as H
from vlib import menus as M

VALUE_COLS = {"managed_objects": ["value"]}


def snapshot(server, mask_value_uids=()):
    """Raw-table snapshot (stdlib sqlite3).  Key material of the listed uids is masked (for
    objects whose value is random by design: Create / CreateKeyPair)."""
    return snapshot_masked(server.raw_dump(), mask_value_uids)


def snapshot_masked(d, mask_value_uids=()):
    d = copy.deepcopy(d)
    mask = set(str(u) for u in mask_value_uids)
    if mask and "managed_objects" in d:
        t = d["managed_objects"]
        ui = t["cols"].index("uid")
        vi = t["cols"].index("value")
        for r in t["rows"]:
            if str(r[ui]) in mask and r[vi] is not None:
                r[vi] = "<masked>"
        t["rows"].sort(key=lambda r: repr(r))
    return d


def diff(a, b, limit=6):
    """Human-readable differences between two snapshots."""
    out = []
    for t in sorted(set(a) | set(b)):
        ra = {repr(r) for r in a.get(t, {}).get("rows", [])}
        rb = {repr(r) for r in b.get(t, {}).get("rows", [])}
        for r in sorted(ra - rb)[:limit]:
            out.append("-%s %s" % (t, r[:300]))
        for r in sorted(rb - ra)[:limit]:
            out.append("+%s %s" % (t, r[:300]))
    return out


def created_uids(items):
    """uids of objects created by successful items of a plain response."""
    out = []
    for it in items or []:
        if it["status"] != "SUCCESS" or not it["payload"]:
            continue
        p = it["payload"]
        if it["op"] in ("Create", "Register", "DeriveKey") and p.get("uid"):
            out.append(p["uid"])
        if it["op"] == "CreateKeyPair":
            out.extend([p.get("pub"), p.get("priv")])
    return [u for u in out if u]


RANDOM_VALUE_OPS = ("Create", "CreateKeyPair")


def random_value_uids(items):
    out = []
    for it in items or []:
        if it["status"] == "SUCCESS" and it["payload"] and it["op"] in RANDOM_VALUE_OPS:
            p = it["payload"]
            out.extend([p.get("uid"), p.get("pub"), p.get("priv")])
    return [u for u in out if u]


# ---------------------------------------------------------------- item pools over the std store
_pool_cache = {}


def pool_items(idx, v, who="alice"):
    """(label, item) list of deterministic-response items over the standard template store:
    succeeding and failing operations of every kind.  Items the library cannot encode under
    version v (e.g. a custom attribute under KMIP 2.0) are left out."""
    key = (tuple(v), who, tuple(sorted((str(k), str(u)) for k, u in idx.items())))
    if key not in _pool_cache:
        out = []
        for label, item in _pool_items(idx, v, who):
            try:
                H.encode_request({"v": list(v), "items": [item]})
            except Exception:
                continue
            out.append((label, item))
        _pool_cache[key] = out
    return [(l, copy.deepcopy(i)) for l, i in _pool_cache[key]]


def _pool_items(idx, v, who="alice"):
    sk_act = idx["SymmetricKey/ACTIVE"]
    sk_pre = idx["SymmetricKey/PRE_ACTIVE"]
    priv = idx["PrivateKey/ACTIVE"]
    pub = idx["PublicKey/ACTIVE"]
    blk = "00112233445566778899aabbccddeeff"
    pr = {"alg": "AES", "mode": "CBC", "pad": "PKCS5"}
    sp = {"alg": "RSA", "hash": "SHA_256", "pad": "PKCS1v15"}
    la = [["Cryptographic Length", 128], ["Cryptographic Algorithm", "AES"]]
    p = []
    add = lambda l, i: p.append((l, i))
    add("ok/Create", F.create_item())
    add("ok/Create-named", F.create_item(extra_attrs=[["Name", "made-in-batch"]]))
    add("ok/Register-sym", F.register_item("SymmetricKey", label="b1", extra_attrs=[["Name", "reg-in-batch"]]))
    add("ok/Register-secret", F.register_item("SecretData", label="b2"))
    add("ok/Register-opaque", F.register_item("OpaqueData", label="b3"))
    add("ok/Register-cert", F.register_item("Certificate"))
    add("ok/CreateKeyPair", F.keypair_item())
    add("ok/DeriveKey", {"op": "DeriveKey", "uids": [sk_act], "method": "PBKDF2", "attrs": la, "dp": {"params": {"hash": "SHA_256"}, "salt": "0102", "iter": 2}})
    add("ok/Get", {"op": "Get", "uid": sk_act})
    nkw = {"eki": {"uid": sk_act, "params": {"mode": "NIST_KEY_WRAP"}}, "enc": "NO_ENCODING"}
    add("ok/Get-wrapped", {"op": "Get", "uid": sk_pre, "wrap": nkw})
    add("ok/Get-wrapped-secret", {"op": "Get", "uid": idx["SecretData/ACTIVE"], "wrap": nkw})
    add("ok/GetAttributes", {"op": "GetAttributes", "uid": sk_pre})
    add("ok/GetAttributeList", {"op": "GetAttributeList", "uid": sk_pre})
    add("ok/Locate", {"op": "Locate", "attrs": [["Object Type", "SymmetricKey"]]})
    add("ok/Locate-one-old", {"op": "Locate", "attrs": [["Name", "n-SymmetricKey-ACTIVE"]]})
    add("ok/Locate-old-secrets", {"op": "Locate", "attrs": [["Object Type", "SecretData"]]})
    add("ok/Locate-nothing", {"op": "Locate", "attrs": [["Name", "no-such-name"]]})
    add("ok/Activate", {"op": "Activate", "uid": sk_pre})
    add("ok/Revoke", {"op": "Revoke", "uid": idx["SecretData/ACTIVE"], "code": "CESSATION_OF_OPERATION"})
    add("ok/Revoke-compromise", {"op": "Revoke", "uid": idx["SplitKey/PRE_ACTIVE"], "code": "KEY_COMPROMISE"})
    add("ok/Destroy", {"op": "Destroy", "uid": idx["SecretData/PRE_ACTIVE"]})
    add("ok/Query", {"op": "Query"})
    if tuple(v) >= (1, 1):
        add("ok/DiscoverVersions", {"op": "DiscoverVersions"})
    if tuple(v) >= (1, 2):
        add("ok/Encrypt", {"op": "Encrypt", "uid": sk_act, "params": pr, "data": blk, "iv": blk})
        add("ok/Decrypt", {"op": "Decrypt", "uid": sk_act, "params": {"alg": "AES", "mode": "CTR"}, "data": blk, "iv": blk})
        add("ok/Sign", {"op": "Sign", "uid": priv, "params": sp, "data": blk})
        add("ok/SignatureVerify", {"op": "SignatureVerify", "uid": pub, "params": sp, "data": blk, "sig": "ab" * 128})
        add("ok/MAC", {"op": "MAC", "uid": sk_act, "params": {"alg": "HMAC_SHA256"}, "data": blk})
    if tuple(v) >= (2, 0):
        add("ok/SetAttribute", {"op": "SetAttribute", "uid": sk_pre, "new": ["Sensitive", True]})
        add("ok/ModifyAttribute", {"op": "ModifyAttribute", "uid": sk_pre, "cur": ["Name", "n-SymmetricKey-PRE_ACTIVE"], "new": ["Name", "renamed"]})
        add("ok/DeleteAttribute", {"op": "DeleteAttribute", "uid": sk_pre, "ref": {"name": "Object Group"}})
        add("fail/ModifyAttribute-readonly", {"op": "ModifyAttribute", "uid": sk_pre, "new": ["State", "ACTIVE"]})
        add("fail/SetAttribute-multivalued", {"op": "SetAttribute", "uid": sk_pre, "new": ["Name", "zz"]})
        add("fail/DeleteAttribute-missing", {"op": "DeleteAttribute", "uid": sk_pre, "cur": ["Object Group", "nope"]})
        add("fail/ModifyAttribute-cur-missing", {"op": "ModifyAttribute", "uid": sk_pre, "cur": ["Name", "nope"], "new": ["Name", "renamed2"]})
    else:
        add("ok/ModifyAttribute", {"op": "ModifyAttribute", "uid": sk_pre, "attr": ["Name", "renamed", 0]})
        add("ok/ModifyAttribute-group", {"op": "ModifyAttribute", "uid": sk_pre, "attr": ["Object Group", "g7", 0]})
        add("ok/DeleteAttribute", {"op": "DeleteAttribute", "uid": sk_pre, "name": "Object Group", "index": 0})
        add("ok/DeleteAttribute-name", {"op": "DeleteAttribute", "uid": sk_pre, "name": "Name", "index": 0})
        add("fail/ModifyAttribute-readonly", {"op": "ModifyAttribute", "uid": sk_pre, "attr": ["State", "ACTIVE"]})
        add("fail/ModifyAttribute-index", {"op": "ModifyAttribute", "uid": sk_pre, "attr": ["Name", "zz", 5]})
        add("fail/ModifyAttribute-dupname", {"op": "ModifyAttribute", "uid": sk_pre, "attr": ["Name", "n-SymmetricKey-PRE_ACTIVE", 0]})
        add("fail/DeleteAttribute-index", {"op": "DeleteAttribute", "uid": sk_pre, "name": "Name", "index": 4})
        add("fail/DeleteAttribute-required", {"op": "DeleteAttribute", "uid": sk_pre, "name": "State"})
        add("fail/ModifyAttribute-overwrite-mask", {"op": "ModifyAttribute", "uid": sk_pre, "attr": ["Cryptographic Usage Mask", 3]})
        add("fail/ModifyAttribute-sensitive", {"op": "ModifyAttribute", "uid": sk_pre, "attr": ["Sensitive", True]})
    # failing items of every kind
    add("fail/Get-unknown", {"op": "Get", "uid": "9999"})
    add("fail/Get-destroyed", {"op": "Get", "uid": idx["destroyed"]})
    add("fail/Get-denied", {"op": "Get", "uid": idx["bob"]})
    add("fail/Get-format", {"op": "Get", "uid": sk_act, "fmt": "PKCS_1"})
    add("fail/Destroy-active", {"op": "Destroy", "uid": sk_act})
    add("fail/Destroy-denied", {"op": "Destroy", "uid": idx["bob"]})
    add("fail/Activate-active", {"op": "Activate", "uid": sk_act})
    add("fail/Activate-deactivated", {"op": "Activate", "uid": idx["SymmetricKey/DEACTIVATED"]})
    add("fail/Activate-compromised", {"op": "Activate", "uid": idx["PrivateKey/COMPROMISED"]})
    add("fail/Revoke-deactivated", {"op": "Revoke", "uid": idx["PublicKey/DEACTIVATED"], "code": "SUPERSEDED"})
    add("fail/Activate-opaque", {"op": "Activate", "uid": idx["OpaqueData/NONE"]})
    add("fail/Revoke-preactive", {"op": "Revoke", "uid": idx["PublicKey/PRE_ACTIVE"], "code": "SUPERSEDED"})
    add("fail/Create-no-length", {"op": "Create", "attrs": [["Cryptographic Algorithm", "AES"], ["Cryptographic Usage Mask", 12]]})
    add("fail/Create-bad-type", dict(F.create_item(), otype="PublicKey"))
    add("fail/Create-dup-names", F.create_item(extra_attrs=[["Name", "d", 0], ["Name", "d", 1]]))
    add("fail/Create-unsupported-attr", F.create_item(extra_attrs=[["Contact Information", "me"]]))
    add("fail/Create-two-names-noindex", F.create_item(extra_attrs=[["Name", "d1"], ["Name", "d2"]]))
    add("fail/Register-app-info-on-mismatch", dict(F.register_item("SymmetricKey", label="b9"), otype="Certificate"))
    add("fail/CreateKeyPair-mismatch", {"op": "CreateKeyPair",
                                         "public": [["Cryptographic Algorithm", "RSA"], ["Cryptographic Length", 1024], ["Cryptographic Usage Mask", 2]],
                                         "private": [["Cryptographic Algorithm", "RSA"], ["Cryptographic Length", 2048], ["Cryptographic Usage Mask", 1]]})
    add("fail/DeriveKey-nomask", {"op": "DeriveKey", "uids": [idx["bob"]], "method": "HASH", "attrs": la, "dp": {"params": {"hash": "SHA_256"}, "data": "01"}})
    add("fail/DeriveKey-length", {"op": "DeriveKey", "uids": [sk_act], "method": "HASH", "attrs": [["Cryptographic Length", 12], ["Cryptographic Algorithm", "AES"]], "dp": {"params": {"hash": "SHA_256"}, "data": "01"}})
    add("fail/DeriveKey-dup-name", {"op": "DeriveKey", "uids": [sk_act], "method": "HASH", "attrs": la + [["Name", "x", 0], ["Name", "x", 1]], "dp": {"params": {"hash": "SHA_256"}, "data": "01"}})
    # every creating operation x every attribute list position x attributes that are refused at
    # different points (while the template is read, when the value is set on the object, ...)
    poisons = [("dupnames", [["Name", "pz", 0], ["Name", "pz", 1]]),
               ("names-noindex", [["Name", "pz1"], ["Name", "pz2"]]),
               ("contact", [["Contact Information", "me"]]),
               ("activation-date", [["Activation Date", 1_600_000_000]]),
               ("state", [["State", "ACTIVE"]]),
               ("uid", [["Unique Identifier", "77"]]),
               ("custom", [["x-poison", "v"]]),
               ("lease", [["Lease Time", 60]])]
    for pl, pa in poisons:
        add("fail/Create-poison-" + pl, F.create_item(extra_attrs=pa))
        add("fail/Register-poison-" + pl, F.register_item("SymmetricKey", label="pz", extra_attrs=pa))
        add("fail/DeriveKey-poison-" + pl, {"op": "DeriveKey", "uids": [sk_act], "method": "HASH", "attrs": la + pa,
                                            "dp": {"params": {"hash": "SHA_256"}, "data": "01"}})
        for pos in ("common", "public", "private"):
            it = F.keypair_item()
            it[pos] = it[pos] + pa
            add("fail/CreateKeyPair-poison-%s-%s" % (pos, pl), it)
    add("fail/Locate-three-dates", {"op": "Locate", "attrs": [["Initial Date", 1], ["Initial Date", 2], ["Initial Date", 3]]})
    add("fail/Unsupported-Rekey", {"op": "Rekey", "uid": sk_act})
    if tuple(v) >= (1, 2):
        add("fail/Encrypt-preactive", {"op": "Encrypt", "uid": sk_pre, "params": pr, "data": blk, "iv": blk})
        add("fail/Encrypt-noparams", {"op": "Encrypt", "uid": sk_act, "data": blk})
        add("fail/Sign-wrong-kind", {"op": "Sign", "uid": sk_act, "params": sp, "data": blk})
        add("fail/MAC-unknown", {"op": "MAC", "uid": "9999", "params": {"alg": "HMAC_SHA256"}, "data": blk})
    return p


PLACEHOLDER_OPS = ["Get", "GetAttributes", "GetAttributeList", "Destroy", "Encrypt", "MAC", "Sign",
                   "DeleteAttribute", "ModifyAttribute", "Activate", "Revoke"]


def placeholder_item(op, v):
    """An identifier-less item (addresses the ID placeholder)."""
    blk = "00112233445566778899aabbccddeeff"
    if op == "Encrypt":
        return {"op": op, "params": {"alg": "AES", "mode": "CBC", "pad": "PKCS5"}, "data": blk, "iv": blk}
    if op == "MAC":
        return {"op": op, "params": {"alg": "HMAC_SHA256"}, "data": blk}
    if op == "Sign":
        return {"op": op, "params": {"alg": "RSA", "hash": "SHA_256", "pad": "PKCS1v15"}, "data": blk}
    if op == "Revoke":
        return {"op": op, "code": "KEY_COMPROMISE"}
    if op == "DeleteAttribute":
        if tuple(v) >= (2, 0):
            return {"op": op, "ref": {"name": "Name"}}
        return {"op": op, "name": "Name", "index": 0}
    if op == "ModifyAttribute":
        if tuple(v) >= (2, 0):
            return {"op": op, "new": ["Sensitive", True]}
        return {"op": op, "attr": ["Name", "via-placeholder", 0]}
    return {"op": op}
