"""C17 - No request is evaluated before the client's identity is established.

A real KmipSession (kmip/services/server/session.py) runs one message loop over a scripted
connection in front of a real KmipEngine on a real SQLite file.  What varies per case:

  cert      absent | real DER certificate with 0/1/2(/3) common names and an extended key usage
            extension that is absent / serverAuth only / clientAuth / both
  tls       enable_tls_client_auth on/off (the EKU check)
  plugins   the list of (section name, {string settings}) tuples the server config hands to the
            session: disabled SLUGS blocks, unsupported plugin names, enabled SLUGS blocks.
            Every SLUGS block has its own base URL; `requests` inside auth/slugs.py is replaced by
            a scripted SLUGS service keyed by URL (knows the certificate's users under
            <base>users/<cn> and <base>users/<cn>/groups, 404 for every other path, raises for
            unreachable endpoints; 'users_down' is a transient failure: the validation query
            cannot connect while the groups query would be answered).
  request   Query | Create | Get of an existing object | undecodable bytes (framed correctly)

Observers: a spy around engine.process_request (calls + identity argument), the bytes the session
sent (parsed with vlib.ttlvref), the SQLite file read through stdlib sqlite3 before/after.

Oracle (model(), written from the property statement and docs/source/server.rst "Authentication",
never from the session code): the set of acceptable outcomes of a case.
"""
import itertools
import logging
import struct
from urllib.parse import unquote

from vlib import core, harness, ttlvref

PID = "C17"
LEVEL = "exploration"
RULE = ("Part A: the full itertools.product of certificate shape (absent; 0/1/2 CNs x EKU "
        "absent/serverAuth/clientAuth/both) x enable_tls_client_auth x plugin configuration "
        "(none; disabled; unsupported; one SLUGS; two SLUGS; disabled+SLUGS; unsupported+SLUGS; "
        "SLUGS+disabled, each enabled SLUGS block over 9 scripted behaviours) x request "
        "(Query/Create/Get/undecodable), every cell executed once (exhaustive).  Part B: "
        "Hypothesis draws of longer plugin lists (<=4 blocks), unicode CNs and group names, 0-3 "
        "CNs, URL spellings, request versions/credentials, several undecodable shapes; common "
        "names in one multi-valued RDN / next to an OU / before the organisation, issuer with a "
        "common name of its own.  Part C: several requests on ONE session while the scripted "
        "SLUGS services change their answers between requests (every sequence of 2 and 3 "
        "behaviours of one block exhaustively, then Hypothesis sessions of 2-6 requests over 1-3 "
        "blocks); every request is judged on its own.  A case is "
        "non-trivial unless it is 'certificate that passes every check, no plugin block at all'; "
        "distinct = distinct spec.")
ASSUMPTIONS = [
    "the session is driven through KmipSession._handle_message_loop exactly as run() does, over a "
    "fake connection object (no real TLS handshake; getpeercert returns the DER bytes)",
    "a SLUGS service is modelled at the HTTP level only: 200/404 answers or a raised "
    "requests.ConnectionError; other statuses are outside the property's menu and not generated",
    "a 200 groups answer without a 'groups' key, an unsupported plugin block marked enabled and "
    "'enabled' spelled other than True/False are left open by the statement: both readings are "
    "accepted",
    "docs/source/server.rst: plugins are tried in configuration order, the first validation "
    "success ends the search, validation needs to succeed for only one enabled plugin",
]

# KMIP spec, Result Status / Result Reason enumerations
STATUS_OPERATION_FAILED = 1
REASON_AUTHENTICATION_NOT_SUCCESSFUL = 0x03
REASON_INVALID_MESSAGE = 0x04

FAIL = "FAIL"
# extended key usage sets (harness.make_cert) that carry the client-authentication usage; 'any'
# (anyExtendedKeyUsage), 'server+any' and 'other' do not carry it
HAS_CLIENT_AUTH = ("client", "both", "client+any")

logging.getLogger("kmip.server.session").addHandler(logging.NullHandler())

CREATE_ITEM = {"op": "Create", "otype": "SymmetricKey",
               "attrs": [["Cryptographic Algorithm", "AES"], ["Cryptographic Length", 128],
                         ["Cryptographic Usage Mask", 12]]}


# ------------------------------------------------------------------------------ the oracle
def _block_readings(b):
    """How may the statement read this config block?  'off' (takes no part), 'slugs' (an enabled
    SLUGS plugin), 'deaf' (an enabled plugin that can never vouch)."""
    name = b["name"]
    en = b.get("enabled")
    if name.startswith("auth:slugs"):
        if en == "True":
            return ["slugs"]
        if en is None or en == "False":
            return ["off"]
        return ["off", "slugs"]          # 'true', 'yes', '1' ...: spelling left open
    # a plugin the server does not support cannot vouch for anybody
    if en is None or en == "False":
        return ["off"]
    return ["off", "deaf"]               # unsupported but marked enabled: left open


def _slugs_verdicts(b, cn):
    """Acceptable verdicts of one enabled SLUGS block about user cn: list of
    ('vouch', groups) / ('refuse',)."""
    if b.get("url") is None:
        return [("refuse",)]
    beh = b["beh"]
    if beh == "ok":
        return [("vouch", list(b["groups"]))]
    if beh == "nogroups":
        # the service knows the user but sends no group list: no groups (None or []), or
        # not a usable answer - the statement does not say
        return [("vouch", None), ("vouch", []), ("refuse",)]
    if beh in ("users404", "groups404", "users_down", "groups_down"):
        return [("refuse",)]
    raise core.HarnessError("unknown SLUGS behaviour %r" % (beh,))


def model(spec):
    """Set of acceptable outcomes: FAIL or ('OK', cn, groups-tuple-or-None)."""
    cert = spec["cert"]
    if cert is None:
        return {FAIL}
    if spec["tls"] and cert["eku"] not in HAS_CLIENT_AUTH:
        return {FAIL}
    if len(cert["cns"]) != 1:
        return {FAIL}
    cn = cert["cns"][0]
    out = set()
    blocks = spec["plugins"]
    for reading in itertools.product(*[_block_readings(b) for b in blocks]):
        enabled = [(b, r) for b, r in zip(blocks, reading) if r != "off"]
        if not enabled:
            out.add(("OK", cn, None))
            continue
        # walk the enabled plugins in order; every open verdict forks
        frontier = [0]
        seen = set()
        while frontier:
            i = frontier.pop()
            if i in seen:
                continue
            seen.add(i)
            if i >= len(enabled):
                out.add(FAIL)
                continue
            b, r = enabled[i]
            verdicts = [("refuse",)] if r == "deaf" else _slugs_verdicts(b, cn)
            for v in verdicts:
                if v[0] == "vouch":
                    out.add(("OK", cn, None if v[1] is None else tuple(v[1])))
                else:
                    frontier.append(i + 1)
    return out


# ------------------------------------------------------------------------------ scripted SLUGS
class _Resp(object):
    def __init__(self, status, body=None):
        self.status_code = status
        self._body = body
        self.ok = status < 400
        self.text = "" if body is None else repr(body)

    def json(self):
        if self._body is None:
            raise ValueError("no JSON body")
        return self._body


class FakeRequests(object):
    """Stands in for the `requests` module inside kmip.services.server.auth.slugs."""

    def __init__(self):
        import requests as real
        self._real = real
        self.table = {}
        self.roots = []
        self.log = []

    def script_steps(self, specs, step_fn):
        """One table per request of a session; step_fn() tells which request is being served."""
        self.tables = []
        for s in specs:
            self.script(s)
            self.tables.append((self.table, self.roots))
        self.log = []
        self.step_fn = step_fn

    def _current(self):
        if getattr(self, "step_fn", None) is not None:
            i = min(self.step_fn(), len(self.tables) - 1)
            self.table, self.roots = self.tables[i]

    def script(self, spec):
        self.step_fn = None
        self.table = {}
        self.roots = []
        self.log = []
        users = list(spec["cert"]["cns"]) if spec["cert"] else []
        for b in spec["plugins"]:
            if not b["name"].startswith("auth:slugs") or b.get("url") is None:
                continue
            root = b["url"].rstrip("/") + "/"
            self.roots.append(root)
            beh = b.get("beh", "users404")
            for u in users:
                uu = root + "users/" + u
                ug = uu + "/groups"
                if beh == "users404":
                    continue
                if beh == "users_down":
                    # a transient failure: the validation query cannot connect, the group
                    # query would have been answered
                    self.table[uu] = "down"
                    self.table[ug] = (200, {"groups": list(b["groups"])})
                    continue
                self.table[uu] = (200, {"name": u})
                if beh == "ok":
                    self.table[ug] = (200, {"groups": list(b["groups"])})
                elif beh == "nogroups":
                    self.table[ug] = (200, {})
                elif beh == "groups_down":
                    self.table[ug] = "down"
                elif beh == "groups404":
                    pass
                else:
                    raise core.HarnessError("unknown SLUGS behaviour %r" % (beh,))

    def get(self, url, **kw):
        self._current()
        self.log.append(url)
        ent = self.table.get(url)
        if ent is None:
            ent = self.table.get(unquote(url))
        if ent is None:
            if any(url.startswith(r) for r in self.roots):
                return _Resp(404)
            raise self._real.exceptions.ConnectionError("no such host: %s" % url)
        if ent == "down":
            raise self._real.exceptions.ConnectionError("scripted: unreachable")
        return _Resp(ent[0], ent[1])

    def __getattr__(self, name):
        return getattr(self._real, name)


# ------------------------------------------------------------------------------ one case
def frame(body_hex):
    body = bytes.fromhex(body_hex)
    return struct.pack("!I", 0x42007801) + struct.pack("!I", len(body)) + body


def not_a_request(body_hex):
    """Judged by the reference parser, not by the library: the framed bytes are not well-formed
    TTLV, or the Request Message structure does not start with a Request Header structure
    (KMIP spec: a request message consists of a header and batch items)."""
    try:
        top = ttlvref.parse(frame(body_hex))
    except ttlvref.TTLVError:
        return True
    if len(top) != 1 or top[0]["tag"] != ttlvref.T_REQUEST_MESSAGE:
        return True
    kids = top[0].get("children") or []
    return not kids or kids[0]["tag"] != ttlvref.T_REQUEST_HEADER or "children" not in kids[0] \
        or not kids[0]["children"]


_conf = {}


def settings_via_config(blocks, optcase):
    """The plug-in settings as the server gets them: written to a configuration file (option names
    spelled lower / Title / UPPER case - option names of an INI file are case-insensitive) and read
    back with KmipServerConfig.load_settings()."""
    import os
    import tempfile
    from kmip.services.server import config as kconfig
    if "dir" not in _conf:
        _conf["dir"] = tempfile.mkdtemp(prefix="c17-conf-")
        for n in ("cert.pem", "key.pem", "ca.pem"):
            open(os.path.join(_conf["dir"], n), "w").close()
    d = _conf["dir"]
    sp = {"lower": str.lower, "title": str.title, "upper": str.upper}[optcase]
    lines = ["[server]", "hostname=127.0.0.1", "port=5696", "certificate_path=%s/cert.pem" % d,
             "key_path=%s/key.pem" % d, "ca_path=%s/ca.pem" % d, "auth_suite=TLS1.2",
             "enable_tls_client_auth=True", "logging_level=INFO", ""]
    for b in blocks:
        lines.append("[%s]" % b["name"])
        if b.get("enabled") is not None:
            lines.append("%s=%s" % (sp("enabled"), b["enabled"]))
        if b.get("url") is not None:
            lines.append("%s=%s" % (sp("url"), b["url"]))
        lines.append("")
    path = os.path.join(d, "server-%d.conf" % os.getpid())
    with open(path, "w") as f:
        f.write("\n".join(lines))
    c = kconfig.KmipServerConfig()
    lg = logging.getLogger("kmip.server.config")
    lg.addHandler(logging.NullHandler())
    c.load_settings(path)
    return list(c.settings["auth_plugins"])


def _der(cert):
    return harness.make_cert(tuple(cert["cns"]), cert["eku"], cert.get("layout", "separate"),
                             cert.get("issuer_cn"))


class Rig(object):
    """One server + one pre-existing object, reused for all cases of a shard."""

    def __init__(self):
        from kmip.services.server.auth import slugs as slugs_mod
        self.slugs_mod = slugs_mod
        self.server = harness.Server()
        r = harness.Client(self.server, "alice").one(CREATE_ITEM)
        if r["status"] != "SUCCESS":
            raise core.HarnessError("could not create the pre-existing object: %r" % (r,))
        self.uid = r["payload"]["uid"]
        self.fake = FakeRequests()
        self._saved = slugs_mod.requests
        slugs_mod.requests = self.fake
        self._dump = None

    def close(self):
        self.slugs_mod.requests = self._saved
        self.server.close()

    def observe(self):
        return (self.server.raw_dump(), self.server.sqlite_sequence())

    def request_bytes(self, req):
        kind = req["kind"]
        if kind == "undecodable":
            if not not_a_request(req["body"]):
                raise core.HarnessError("'undecodable' body may be a request: %s" % req["body"])
            return frame(req["body"])
        item = {"query": {"op": "Query"}, "create": CREATE_ITEM,
                "get": {"op": "Get", "uid": self.uid}}[kind]
        rs = {"v": req.get("v", [1, 2]), "items": [item]}
        if req.get("cred"):
            rs["cred"] = [{"kind": "user", "user": req["cred"][0], "password": req["cred"][1]}]
        return harness.encode_request(rs)

    def run(self, spec):
        """Execute one case; returns (buckets, classes, nontrivial)."""
        buckets = []
        try:
            cert = spec["cert"]
            der = None if cert is None else _der(cert)
            data = self.request_bytes(spec["req"])
            settings = []
            for b in spec["plugins"]:
                cfg = {}
                if b.get("enabled") is not None:
                    cfg["enabled"] = b["enabled"]
                if b.get("url") is not None:
                    cfg["url"] = b["url"]
                settings.append((b["name"], cfg))
            if spec.get("via_config"):
                # section names must be unique in a file; values must survive the INI round trip
                names = [b["name"] for b in spec["plugins"]]
                if len(set(names)) == len(names) and all(
                        "%" not in (b.get("url") or "") and (b.get("enabled") or "x").strip() ==
                        (b.get("enabled") or "x") and (b.get("enabled") != "") for b in spec["plugins"]):
                    settings = settings_via_config(spec["plugins"], spec["via_config"])
            self.fake.script(spec)
            accept = model(spec)
        except core.HarnessError:
            raise
        except Exception as e:
            raise core.HarnessError("cannot build case %s: %r" % (core.canon(spec), e))

        engine = self.server.engine
        calls = []
        real = engine.process_request

        def spy(request, credential=None, *a, **kw):
            calls.append(credential)
            return real(request, credential, *a, **kw)

        before = self._dump if self._dump is not None else self.observe()
        engine.process_request = spy
        try:
            conn, errors = self.server.session(data, cert=der, tls_client_auth=spec["tls"],
                                               auth_settings=settings, max_loops=3)
        finally:
            try:
                del engine.process_request
            except AttributeError:
                engine.process_request = real
        after = self.observe()
        self._dump = after

        undecodable = spec["req"]["kind"] == "undecodable"
        must_fail = accept == {FAIL}
        may_fail = FAIL in accept

        # ---- what happened
        items = None
        if len(conn.sent) == 1:
            try:
                items = ttlvref.response_items(conn.sent[0])
            except Exception as e:
                buckets.append(("C17|response|not-parseable",
                                "%s: %s" % (type(e).__name__, e)))
        for e in errors:
            buckets.append((core.exc_bucket(PID, "loop-exception", e),
                            "exception left the message loop; identity calls=%r" % (calls,)))
        if len(conn.sent) != 1:
            buckets.append(("C17|response|count-not-one",
                            "%d responses for one request; expected outcomes %s"
                            % (len(conn.sent), _show(accept))))

        def refused(reasons):
            return (items is not None and len(items) == 1
                    and items[0]["status"] == STATUS_OPERATION_FAILED
                    and items[0]["reason"] in reasons)

        auth_refused = refused((REASON_AUTHENTICATION_NOT_SUCCESSFUL,))
        changed = before != after

        if undecodable:
            outcome = "undecodable-refused"
            if calls:
                outcome = "engine-called"
                buckets.append(("C17|undecodable|engine-called",
                                "process_request called %d time(s) for bytes that are not a "
                                "request; identity %r" % (len(calls), calls[0])))
            if changed:
                buckets.append(("C17|undecodable|store-changed", _diff(before, after)))
            if items is not None and not refused((REASON_AUTHENTICATION_NOT_SUCCESSFUL,
                                                  REASON_INVALID_MESSAGE)):
                buckets.append(("C17|undecodable|answer-not-a-refusal", "items: %r" % (items,)))
        elif not calls:
            outcome = "refused"
            if not may_fail:
                buckets.append(("C17|established-identity-refused",
                                "model: identity established %s, engine never called; answer %r; "
                                "SLUGS queries %r" % (_show(accept), _brief(items),
                                                      self.fake.log)))
            else:
                if items is not None and not auth_refused:
                    buckets.append(("C17|failure|answer-not-authentication-not-successful",
                                    "items: %r" % (_brief(items),)))
                if changed:
                    buckets.append(("C17|failure|store-changed", _diff(before, after)))
        else:
            outcome = "evaluated"
            got = _norm_identity(calls[0])
            if must_fail:
                buckets.append(("C17|evaluated-without-identity|" + _why_fail(spec),
                                "process_request called with %r; no identity can be established "
                                "for this case; SLUGS queries %r" % (calls[0], self.fake.log)))
            elif got not in accept:
                buckets.append(("C17|identity-differs|" + _how_differs(got, accept),
                                "process_request called with %r; acceptable %s; SLUGS queries %r"
                                % (calls[0], _show(accept), self.fake.log)))
            if len(calls) != 1:
                buckets.append(("C17|engine-called-more-than-once",
                                "%d calls: %r" % (len(calls), calls)))

        exp = "fail" if must_fail else ("either" if may_fail else "ok")
        classes = ["expect:" + exp, "outcome:" + outcome, "req:" + spec["req"]["kind"],
                   "tls:" + ("on" if spec["tls"] else "off")] + plugin_class(spec["plugins"])
        if spec["cert"] is None:
            classes.append("cert:absent")
        else:
            classes.append("cert:cn%d" % len(spec["cert"]["cns"]))
            classes.append("eku:%s" % spec["cert"]["eku"])
        for b in spec["plugins"]:
            if b["name"].startswith("auth:slugs") and b.get("enabled") == "True":
                classes.append("slugs:" + ("nourl" if b.get("url") is None else
                                           b["beh"] + (str(len(b["groups"]))
                                                       if b["beh"] == "ok" else "")))
        return buckets, classes, not is_trivial(spec)


def step_specs(spec):
    """The single-request reading of every request of a multi-request session spec."""
    out = []
    for st in spec["steps"]:
        blocks = []
        for b, bb in zip(spec["plugins"], st["beh"]):
            b = dict(b)
            if bb is not None and "url" in b:
                b["beh"] = bb[0]
                b.pop("groups", None)
                if bb[0] in ("ok", "users_down"):
                    b["groups"] = list(bb[1])
            blocks.append(b)
        out.append({"cert": spec["cert"], "tls": spec["tls"], "plugins": blocks,
                    "req": st["req"]})
    return out


def run_session(rig, spec):
    """Several requests on ONE session; the SLUGS services may answer differently for each.
    Every request is judged on its own by model(): the identity must be established for THAT
    request from what the plugins say at THAT time."""
    buckets = []
    singles = step_specs(spec)
    try:
        der = None if spec["cert"] is None else _der(spec["cert"])
        data = b"".join(rig.request_bytes(s["req"]) for s in singles)
        settings = []
        for b in spec["plugins"]:
            cfg = {}
            if b.get("enabled") is not None:
                cfg["enabled"] = b["enabled"]
            if b.get("url") is not None:
                cfg["url"] = b["url"]
            settings.append((b["name"], cfg))
        accepts = [model(s) for s in singles]
    except core.HarnessError:
        raise
    except Exception as e:
        raise core.HarnessError("cannot build case %s: %r" % (core.canon(spec), e))
    engine = rig.server.engine
    box = {}
    calls = []
    dumps = []
    real = engine.process_request

    def spy(request, credential=None, *a, **kw):
        calls.append((len(box["conn"].sent), credential))
        return real(request, credential, *a, **kw)

    def hook(conn):
        box["conn"] = conn
        plain = conn.sendall

        def sendall(b):
            plain(b)
            dumps.append(rig.observe())
        conn.sendall = sendall

    rig.fake.script_steps(singles, lambda: len(box["conn"].sent))
    before = rig._dump if rig._dump is not None else rig.observe()
    engine.process_request = spy
    try:
        conn, errors = rig.server.session(data, cert=der, tls_client_auth=spec["tls"],
                                          auth_settings=settings, max_loops=len(singles) + 3,
                                          conn_hook=hook)
    finally:
        try:
            del engine.process_request
        except AttributeError:
            engine.process_request = real
        rig.fake.step_fn = None
    rig._dump = rig.observe()
    for e in errors:
        buckets.append((core.exc_bucket(PID, "loop-exception", e),
                        "exception left the message loop; identity calls=%r" % (calls,)))
    if len(conn.sent) != len(singles):
        buckets.append(("C17|response|count-not-one",
                        "%d responses for %d requests on one session"
                        % (len(conn.sent), len(singles))))
        return buckets, ["session:steps=%d" % len(singles)], True
    outcomes = []
    prev = before
    for i, (single, accept) in enumerate(zip(singles, accepts)):
        mine = [c for (k, c) in calls if k == i]
        try:
            items = ttlvref.response_items(conn.sent[i])
        except Exception as e:
            buckets.append(("C17|response|not-parseable", "%s: %s" % (type(e).__name__, e)))
            items = None
        after = dumps[i]
        changed = prev != after
        must_fail = accept == {FAIL}
        where = "request %d of %d on one session" % (i + 1, len(singles))
        auth_refused = (items is not None and len(items) == 1
                        and items[0]["status"] == STATUS_OPERATION_FAILED
                        and items[0]["reason"] == REASON_AUTHENTICATION_NOT_SUCCESSFUL)
        if single["req"]["kind"] == "undecodable":
            outcomes.append("undecodable")
            if mine:
                buckets.append(("C17|undecodable|engine-called",
                                "%s: process_request called for bytes that are not a request; "
                                "identity %r" % (where, mine[0])))
            if changed:
                buckets.append(("C17|undecodable|store-changed",
                                where + ": " + _diff(prev, after)))
            if items is not None and not (
                    len(items) == 1 and items[0]["status"] == STATUS_OPERATION_FAILED
                    and items[0]["reason"] in (REASON_AUTHENTICATION_NOT_SUCCESSFUL,
                                               REASON_INVALID_MESSAGE)):
                buckets.append(("C17|undecodable|answer-not-a-refusal",
                                "%s: items %r" % (where, items)))
        elif not mine:
            outcomes.append("refused")
            if FAIL not in accept:
                buckets.append(("C17|established-identity-refused",
                                "%s: model %s, engine never called; answer %r"
                                % (where, _show(accept), _brief(items))))
            else:
                if items is not None and not auth_refused:
                    buckets.append(("C17|failure|answer-not-authentication-not-successful",
                                    "%s: items %r" % (where, _brief(items))))
                if changed:
                    buckets.append(("C17|failure|store-changed",
                                    where + ": " + _diff(prev, after)))
        else:
            outcomes.append("evaluated")
            got = _norm_identity(mine[0])
            if must_fail:
                buckets.append(("C17|evaluated-without-identity|" + _why_fail(single),
                                "%s: process_request called with %r although no plugin vouches "
                                "for the user now; earlier requests: %r"
                                % (where, mine[0], outcomes[:-1])))
            elif got not in accept:
                buckets.append(("C17|identity-differs|" + _how_differs(got, accept),
                                "%s: process_request called with %r; acceptable now %s"
                                % (where, mine[0], _show(accept))))
            if len(mine) != 1:
                buckets.append(("C17|engine-called-more-than-once", "%s: %r" % (where, mine)))
        prev = after
    exp = ["fail" if a == {FAIL} else ("either" if FAIL in a else "ok") for a in accepts]
    classes = ["session:steps=%d" % len(singles),
               "session:expect=" + ">".join(exp),
               "session:outcome=" + ">".join(outcomes)]
    return buckets, classes, True


def _norm_identity(ident):
    try:
        if len(ident) != 2:
            return ("BAD", repr(ident))
        user, groups = ident
        if groups is not None:
            groups = tuple(groups)
        return ("OK", user, groups)
    except Exception:
        return ("BAD", repr(ident))


def _why_fail(spec):
    cert = spec["cert"]
    if cert is None:
        return "no-certificate"
    if spec["tls"] and cert["eku"] not in HAS_CLIENT_AUTH:
        return "eku-" + ("absent" if cert["eku"] is None else "without-clientauth")
    if len(cert["cns"]) != 1:
        return "cn-count-%s" % ("0" if not cert["cns"] else "many")
    return "no-plugin-vouches"


def _how_differs(got, accept):
    if got[0] != "OK":
        return "shape"
    users = set(a[1] for a in accept if a != FAIL)
    if got[1] not in users:
        return "user"
    return "groups"


def _show(accept):
    return "{" + ", ".join(sorted(repr(a) for a in accept)) + "}"


def _brief(items):
    if items is None:
        return None
    return [(i["status"], i["reason"], i["message"]) for i in items]


def _diff(before, after):
    out = []
    for t in sorted(set(before[0]) | set(after[0])):
        b = before[0].get(t, {}).get("rows", [])
        a = after[0].get(t, {}).get("rows", [])
        if a != b:
            out.append("%s: %d -> %d rows" % (t, len(b), len(a)))
    if before[1] != after[1]:
        out.append("sqlite_sequence %r -> %r" % (before[1], after[1]))
    return "; ".join(out)


def plugin_class(blocks):
    """Coarse label: number of blocks and which kinds occur (S enabled SLUGS, d disabled SLUGS,
    u unsupported name, s? SLUGS with 'enabled' spelled other than True/False)."""
    if not blocks:
        return ["plugins:none"]
    ks = set()
    ns = 0
    for b in blocks:
        if b["name"].startswith("auth:slugs"):
            en = b.get("enabled")
            ks.add("S" if en == "True" else "d" if en in (None, "False") else "s?")
            ns += en == "True"
        else:
            ks.add("u")
    return ["plugins:blocks=%d" % len(blocks), "plugins:enabled-slugs=%d" % ns,
            "plugins:kinds=" + "+".join(sorted(ks))]


def is_trivial(spec):
    cert = spec["cert"]
    return (cert is not None and len(cert["cns"]) == 1 and not spec["plugins"]
            and (not spec["tls"] or cert["eku"] in HAS_CLIENT_AUTH))


# ------------------------------------------------------------------------------ part A: product
BEHAVIOURS = [("ok", 0), ("ok", 1), ("ok", 2), ("users404", 0), ("groups404", 0),
              ("users_down", 0), ("groups_down", 0), ("nourl", 0), ("nogroups", 0)]
SUFFIX = ["primary", "secondary", "third", "fourth"]


def slugs_block(i, beh, ngroups=0, enabled="True", url_style=0):
    """Block number i (its own host), scripted behaviour; group names carry the block number so
    that groups of one plugin cannot pass for another's."""
    b = {"name": "auth:slugs" if i == 0 else "auth:slugs:" + SUFFIX[i % 4], "enabled": enabled}
    if beh != "nourl":
        b["url"] = "http://slugs%d.test:8080/slugs" % i + ("/" if url_style == 0 else "")
        b["beh"] = beh
        if beh == "ok":
            b["groups"] = ["p%d-g%d" % (i, k + 1) for k in range(ngroups)]
        elif beh == "users_down":
            b["groups"] = ["p%d-unvalidated" % i]
    return b


def disabled_block(i):
    return {"name": "auth:slugs:off%d" % i, "enabled": "False",
            "url": "http://slugs%d.test:8080/slugs/" % i, "beh": "ok", "groups": ["p%d-off" % i]}


def unsupported_block(i, enabled="True"):
    b = {"name": "auth:ldap%d" % i, "url": "http://slugs%d.test:8080/slugs/" % i,
         "beh": "ok", "groups": ["p%d-ldap" % i]}
    if enabled is not None:
        b["enabled"] = enabled
    return b


def plugin_configs():
    out = [[], [disabled_block(0)], [unsupported_block(0)]]
    for beh, n in BEHAVIOURS:
        out.append([slugs_block(0, beh, n)])
    for (b0, n0), (b1, n1) in itertools.product(BEHAVIOURS, BEHAVIOURS):
        out.append([slugs_block(0, b0, n0), slugs_block(1, b1, n1)])
    for beh, n in BEHAVIOURS:
        out.append([disabled_block(0), slugs_block(1, beh, n)])
    for beh, n in BEHAVIOURS:
        out.append([unsupported_block(0), slugs_block(1, beh, n)])
    for beh, n in BEHAVIOURS:
        out.append([slugs_block(0, beh, n), disabled_block(1)])
    return out


def cert_shapes():
    out = [None]
    for cns, eku in itertools.product([[], ["alice"], ["alice", "bob"]],
                                      [None, "server", "client", "both"]):
        out.append({"cns": cns, "eku": eku})
    for eku in ("any", "server+any", "other", "client+any"):
        out.append({"cns": ["alice"], "eku": eku})
    # where the common names sit in the subject: several in ONE multi-valued RDN (CN=a+CN=b),
    # next to another attribute type in one RDN, before the organisation, and an issuer with a
    # common name of its own (must not be taken for the client's)
    for eku in ("client", None):
        out.append({"cns": ["alice", "bob"], "eku": eku, "layout": "multi"})
        out.append({"cns": ["bob", "alice"], "eku": eku, "layout": "multi"})
        out.append({"cns": ["alice", "bob"], "eku": eku, "layout": "cn-first"})
        out.append({"cns": ["alice"], "eku": eku, "layout": "multi-ou"})
        out.append({"cns": ["alice", "bob"], "eku": eku, "layout": "multi-ou"})
        out.append({"cns": ["alice"], "eku": eku, "issuer_cn": "bob"})
        out.append({"cns": [], "eku": eku, "issuer_cn": "alice"})
        out.append({"cns": [], "eku": eku, "layout": "multi-ou", "issuer_cn": "alice"})
        # the same common name more than once is still more than one common name
        out.append({"cns": ["alice", "alice"], "eku": eku})
        out.append({"cns": ["alice", "alice"], "eku": eku, "layout": "cn-first"})
        out.append({"cns": ["bob", "bob", "bob"], "eku": eku})
    return out


REQUESTS = [{"kind": "query"}, {"kind": "create"}, {"kind": "get"},
            {"kind": "undecodable", "body": "ff" * 16}]


def product_cells():
    for cert, tls, plugins, req in itertools.product(cert_shapes(), [True, False],
                                                     plugin_configs(), REQUESTS):
        yield {"cert": cert, "tls": tls, "plugins": plugins, "req": req}
    # the same plug-in configurations as the server reads them from its configuration file, with
    # the option names in each spelling; a certificate that passes, one request kind
    cert = {"cns": ["alice"], "eku": "client"}
    for plugins in plugin_configs():
        if not plugins:
            continue
        for optcase in ("lower", "title", "upper"):
            yield {"cert": cert, "tls": True, "plugins": plugins, "req": REQUESTS[1],
                   "via_config": optcase}


def worker_product(shard, nshards):
    col = core.Collector(PID)
    rig = Rig()
    try:
        for i, spec in enumerate(product_cells()):
            if i % nshards != shard:
                continue
            buckets, classes, nt = rig.run(spec)
            col.record(spec, nontrivial=nt, classes=classes, buckets=buckets)
            col.bump("product_cells")
    finally:
        rig.close()
    return col


# ------------------------------------------------------------------------------ part C: sessions
SBEH = [("ok", ["s-g1"]), ("ok", ["s-g2"]), ("ok", []), ("users404", []), ("groups404", []),
        ("users_down", ["s-unvalidated"]), ("groups_down", [])]
SREQ = [{"kind": "query"}, {"kind": "create"}, {"kind": "get"}]


def session_cells():
    """One enabled SLUGS block; every sequence of 2 and of 3 scripted behaviours (a user gains,
    loses or changes group membership, the service goes away and comes back) while the session
    stays open; requests rotate through Query / Create / Get."""
    cert = {"cns": ["alice"], "eku": "client"}
    for n in (2, 3):
        for k, behs in enumerate(itertools.product(SBEH, repeat=n)):
            steps = [{"req": SREQ[(k + i) % 3], "beh": [list(b)]} for i, b in enumerate(behs)]
            yield {"cert": cert, "tls": True, "plugins": [slugs_block(0, "ok", 0)],
                   "steps": steps}
    # two blocks: the second vouches throughout, the first changes its mind
    for behs in itertools.product(SBEH, repeat=2):
        steps = [{"req": SREQ[i % 3], "beh": [list(b), ["ok", ["t-g"]]]}
                 for i, b in enumerate(behs)]
        yield {"cert": cert, "tls": True,
               "plugins": [slugs_block(0, "ok", 0), slugs_block(1, "ok", 0)], "steps": steps}
    # no plugin at all / a certificate that is refused: every request alike
    yield {"cert": cert, "tls": True, "plugins": [],
           "steps": [{"req": r, "beh": []} for r in SREQ]}
    yield {"cert": {"cns": ["alice"], "eku": "server"}, "tls": True, "plugins": [],
           "steps": [{"req": r, "beh": []} for r in SREQ]}


def worker_sessions(shard, nshards):
    col = core.Collector(PID)
    rig = Rig()
    try:
        for i, spec in enumerate(session_cells()):
            if i % nshards != shard:
                continue
            buckets, classes, nt = run_session(rig, spec)
            col.record(spec, nontrivial=nt, classes=classes, buckets=buckets)
            col.bump("session_cells")
    finally:
        rig.close()
    return col


def session_strategy():
    from hypothesis import strategies as st
    group = st.sampled_from(["g1", "g2", "admin", ""])
    beh = st.one_of(
        st.tuples(st.just("ok"), st.lists(group, max_size=3)),
        st.tuples(st.sampled_from(["users404", "groups404", "groups_down", "nogroups"]),
                  st.just([])),
        st.tuples(st.just("users_down"), st.just(["unvalidated"]))).map(list)
    req = st.one_of(
        st.fixed_dictionaries({"kind": st.sampled_from(["query", "create", "get"]),
                               "v": st.sampled_from([list(v) for v in harness.VERSIONS])}),
        st.fixed_dictionaries({"kind": st.just("undecodable"),
                               "body": st.integers(0, 200).map(_truncated_query)}))

    @st.composite
    def case(draw):
        nb = draw(st.integers(1, 3))
        blocks = []
        for i in range(nb):
            kind = draw(st.sampled_from(["S", "S", "S", "d", "u"]))
            if kind == "S":
                blocks.append(slugs_block(i, "ok", 0, url_style=draw(st.integers(0, 1))))
            elif kind == "d":
                blocks.append(disabled_block(i))
            else:
                blocks.append(unsupported_block(i, draw(st.sampled_from(["True", "False"]))))
        n = draw(st.integers(2, 6))
        steps = []
        for _ in range(n):
            steps.append({"req": draw(req),
                          "beh": [draw(beh) if b["name"].startswith("auth:slugs") else None
                                  for b in blocks]})
        names = draw(st.sampled_from([["alice"], ["alice"], ["alice"], ["bob"],
                                      ["alice", "bob"], [], ["alice", "alice"]]))
        cert = {"cns": names, "eku": draw(st.sampled_from(["client", "client", "both", None])),
                "layout": draw(st.sampled_from(["separate", "separate", "multi", "multi-ou",
                                                "cn-first"]))}
        if len(set(names)) != len(names) and cert["layout"] in ("multi", "multi-ou"):
            cert["layout"] = "separate"     # one RDN cannot hold two equal attributes
        return {"cert": cert, "tls": draw(st.booleans()), "plugins": blocks, "steps": steps}

    return case()


def worker_random_sessions(seed, n):
    col = core.Collector(PID)
    state = {"rig": Rig(), "used": 0}

    def one(spec):
        if state["used"] >= RECYCLE:
            state["rig"].close()
            state["rig"] = Rig()
            state["used"] = 0
        state["used"] += len(spec["steps"])
        buckets, classes, nt = run_session(state["rig"], spec)
        col.record(spec, nontrivial=nt, classes=classes, buckets=buckets)
        col.bump("random_sessions")

    try:
        core.draw_examples(session_strategy(), n, seed, one)
    finally:
        state["rig"].close()
    return col


# ------------------------------------------------------------------------------ part B: random
def case_strategy():
    from hypothesis import strategies as st
    # X.509 common names: 1..64 units (cryptography counts UTF-8 bytes for some versions)
    text = st.text(st.characters(blacklist_categories=("Cs",)), min_size=1, max_size=64).filter(
        lambda s: len(s.encode("utf-8")) <= 64)
    cn = st.one_of(st.sampled_from(["alice", "bob", "a/groups", "x/../alice", "{}", "%41lice"]),
                   st.text(st.characters(blacklist_categories=("Cs",), max_codepoint=0x2fff),
                           min_size=1, max_size=12),
                   text)
    # the product is dominated by refusals; here most certificates pass so that the plugin
    # chain decides (weights through an integer draw: one_of merges repeated branches)
    @st.composite
    def certs(draw):
        if draw(st.integers(0, 11)) == 0:
            return None
        if draw(st.integers(0, 3)) > 0:
            names = [draw(cn)]
        else:
            names = draw(st.lists(cn, min_size=0, max_size=3))
        eku = draw(st.sampled_from([None, "server", "client", "client", "both", "both", "client+any",
                                    "any", "server+any", "other"]))
        c = {"cns": names, "eku": eku}
        lay = draw(st.sampled_from(["separate"] * 4 + ["multi", "multi", "multi-ou", "cn-first"]))
        if len(set(names)) != len(names) and lay in ("multi", "multi-ou"):
            lay = "separate"                # one RDN cannot hold two equal attributes
        if lay != "separate":
            c["layout"] = lay
        if draw(st.integers(0, 5)) == 0:
            c["issuer_cn"] = draw(st.sampled_from(["alice", "bob", "Verif CA"]))
        return c

    cert = certs()
    group = st.one_of(st.sampled_from(["g1", "g2", "admin", ""]),
                      st.text(st.characters(blacklist_categories=("Cs",)), max_size=10))
    groups = st.lists(group, max_size=4)
    beh = st.sampled_from(["ok", "ok", "ok", "users404", "groups404", "users_down",
                           "groups_down", "nourl", "nogroups"])

    @st.composite
    def block(draw, i):
        kind = draw(st.sampled_from(["S", "S", "S", "d", "u", "s?"]))
        if kind == "u":
            b = unsupported_block(i, draw(st.sampled_from(["True", "False", None])))
            return b
        b = slugs_block(i, draw(beh), 0, url_style=draw(st.integers(0, 1)))
        if b.get("beh") == "ok":
            b["groups"] = ["p%d:%s" % (i, g) for g in draw(groups)]
        if kind == "d":
            en = draw(st.sampled_from(["False", None]))
            if en is None:
                del b["enabled"]
            else:
                b["enabled"] = en
        elif kind == "s?":
            b["enabled"] = draw(st.sampled_from(["true", "yes", "1", "on", "TRUE", ""]))
        return b

    @st.composite
    def plugins(draw):
        n = draw(st.integers(0, 4))
        return [draw(block(i)) for i in range(n)]

    undec = st.one_of(
        st.binary(min_size=0, max_size=48).map(lambda b: b.hex()),
        st.integers(0, 200).map(lambda k: _truncated_query(k)))
    req = st.one_of(
        st.fixed_dictionaries(
            {"kind": st.sampled_from(["query", "create", "get"]),
             "v": st.sampled_from([list(v) for v in harness.VERSIONS])},
            optional={"cred": st.tuples(st.sampled_from(["alice", "mallory"]),
                                        st.sampled_from(["pw", ""])).map(list)}),
        st.fixed_dictionaries({"kind": st.just("undecodable"), "body": undec}))
    return st.fixed_dictionaries({"cert": cert, "tls": st.booleans(), "plugins": plugins(),
                                  "req": req},
                                 optional={"via_config": st.sampled_from(["lower", "title", "upper"])})


_QUERY = []


def _truncated_query(k):
    """Body of a valid Query request cut short at one of the offsets where the rest is no longer
    a request by not_a_request()."""
    if not _QUERY:
        body = harness.encode_request({"items": [{"op": "Query"}]})[8:]
        _QUERY.append([body[:i].hex() for i in range(len(body))
                       if not_a_request(body[:i].hex())])
    cuts = _QUERY[0]
    return cuts[k % len(cuts)]


def _undecodable_ok(req):
    return req["kind"] != "undecodable" or not_a_request(req["body"])


RECYCLE = 300     # cases per server: successful Creates grow the store and every case dumps it


def worker_random(seed, n):
    col = core.Collector(PID)
    state = {"rig": Rig(), "used": 0}

    def one(spec):
        if not _undecodable_ok(spec["req"]):
            col.exclude("random body that could be a request (reference parser)")
            return
        if state["used"] >= RECYCLE:
            state["rig"].close()
            state["rig"] = Rig()
            state["used"] = 0
        state["used"] += 1
        buckets, classes, nt = state["rig"].run(spec)
        col.record(spec, nontrivial=nt, classes=classes, buckets=buckets)
        col.bump("random_cases")

    try:
        core.draw_examples(case_strategy(), n, seed, one)
    finally:
        state["rig"].close()
    return col


# ------------------------------------------------------------------------------ entry points
def run(ctx):
    nshards = 16
    per = ctx.n(500, 10000)
    dicts = core.run_sharded("vlib.props.c17", "worker_product",
                             [(s, nshards) for s in range(nshards)])
    dicts += core.run_sharded("vlib.props.c17", "worker_random",
                              [(core.derive_seed(ctx.seed, "rnd", s), per)
                               for s in range(nshards)])
    dicts += core.run_sharded("vlib.props.c17", "worker_sessions",
                              [(s, nshards) for s in range(nshards)])
    dicts += core.run_sharded("vlib.props.c17", "worker_random_sessions",
                              [(core.derive_seed(ctx.seed, "ses", s), ctx.n(60, 1500))
                               for s in range(nshards)])
    col = core.merged(PID, dicts)
    nses = sum(1 for _ in session_cells())
    if col.extra.get("session_cells") != nses:
        raise core.HarnessError("session product not fully enumerated: %r of %d"
                                % (col.extra.get("session_cells"), nses))
    col.extra["session_product_size"] = nses
    total = sum(1 for _ in product_cells())
    if col.extra.get("product_cells") != total:
        raise core.HarnessError("product not fully enumerated: %r of %d"
                                % (col.extra.get("product_cells"), total))
    col.extra["exhaustive"] = True
    col.extra["product_size"] = total
    col.extra["plugin_configurations"] = len(plugin_configs())
    return col


def replay(spec):
    rig = Rig()
    try:
        if "steps" in spec:
            buckets, _, _ = run_session(rig, spec)
        else:
            buckets, _, _ = rig.run(spec)
    finally:
        rig.close()
    return buckets
