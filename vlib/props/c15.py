"""C15 - attribute operations change only what they may, exactly as asked.

Hypothesis-generated histories over a small store (2-4 objects of every stored type with 0-3
names / object groups / application specific information entries, masks, sensitive flag):
SetAttribute (KMIP 2.0), ModifyAttribute and DeleteAttribute in the KMIP 1.x (name + index) and
2.0 (current / new attribute, attribute reference) forms over every attribute name, interleaved
with Activate / Revoke / Get / GetAttributes and engine restarts.

The oracle never predicts whether a call succeeds.  It observes the whole store before and after
every request (GetAttributes(all) + Get of every object as its owner, and the raw SQLite tables)
and judges:
 (a) the read-only set never differs across an attribute operation (API and raw columns);
 (b) success => the target equals `before` with exactly the requested change applied to exactly
     the addressed instance (computed here from the request, not by the server), every other
     object is identical (API + raw rows);
 (c) failure => API dump and raw dump identical.
"""
import copy
import json

from hypothesis import strategies as st

from vlib import core, harness as H, menus as M
from vlib import fixtures as F

PID = "C15"
LEVEL = "exploration"
RULE = ("Hypothesis histories (JSON specs): 2-4 registered objects (7 stored types, 0-3 names / "
        "groups / app-specific-info, mask in {absent,0,12,all}, sensitive in {absent,F,T}, owner "
        "alice|bob) then 3-25 (thorough 3-40) steps: attribute requests of 1-3 items "
        "(SetAttribute 2.0; Modify/Delete 1.x with index class absent|0|in-range|==len|>len|"
        "negative; Modify 2.0 with/without current attribute; Delete 2.0 by current attribute, by "
        "reference, neither) over Name / Object Group / Application Specific Information / "
        "Sensitive with values equal to or different from current instances, over the read-only set "
        "with sample values, and over every other attribute name of the KMIP table plus a custom "
        "and an unknown name; as owner or (10%) as a stranger; Activate, "
        "Revoke, Get, GetAttributes, engine restart.  Symbolic indices/values are resolved against "
        "the observed state so every index class is really reached.  non-trivial history = has a "
        "step that SUCCEEDED on a multivalued attribute holding >=2 instances, or after an earlier "
        "successful deletion on the same attribute of the same object, or on a falsy current "
        "value (Sensitive False, empty list), or after a failed attribute request on the same "
        "engine; step counts per class are in the evidence (nt_steps:*)")
ASSUMPTIONS = [
    "Name Type is known to be dropped by the store (a defect judged by C05): names are compared "
    "by Name Value only",
    "the server reports defaults (Cryptographic Usage Mask 0, Sensitive False) for attributes "
    "never set; the oracle only compares observations before/after, so defaults cancel out",
    "whether a legal-looking call succeeds or fails is not judged (General Failure is C13's); "
    "a failed item, a request the server could not decode or answer, all count as unsuccessful",
    "KMIP 1.x: absent Attribute Index means index 0; negative indices address no instance. "
    "KMIP 2.0 (spec 6.1.13/6.1.30/6.1.52): Delete by Attribute Reference without Current "
    "Attribute removes all instances; Modify without Current Attribute addresses the single "
    "existing instance; SetAttribute creates or replaces the single instance",
    "with duplicate instance values the addressed instance of a by-value request is ambiguous: "
    "any one equal instance is accepted",
    "observations are made as the object's owner under KMIP 1.4 (Sensitive and Operation Policy "
    "Name both visible) with the deterministic harness clock",
]
SHRINK_BUDGET = 90
NSHARDS = 16
OBS_V = (1, 4)

LISTS = {"Name": "names", "Object Group": "groups", "Application Specific Information": "asi"}
RO_API = ["Unique Identifier", "Object Type", "State", "Operation Policy Name",
          "Cryptographic Usage Mask", "Cryptographic Algorithm", "Cryptographic Length",
          "Initial Date"]
RO_RAW = [("managed_objects", "uid", "Unique Identifier"),
          ("managed_objects", "object_type", "Object Type"),
          ("managed_objects", "owner", "owner"),
          ("managed_objects", "operation_policy_name", "Operation Policy Name"),
          ("managed_objects", "initial_date", "Initial Date"),
          ("crypto_objects", "state", "State"),
          ("crypto_objects", "cryptographic_usage_mask", "Cryptographic Usage Mask"),
          ("keys", "cryptographic_algorithm", "Cryptographic Algorithm"),
          ("keys", "cryptographic_length", "Cryptographic Length")]

# the last two entries of each pool are canonically equivalent Unicode spellings of one visible
# text (decomposed / composed): attribute values are code point sequences, and a stored value
# reads back as it was written
NAME_POOL = ["n0", "n1", "n2", "n3", "n4", "n5", {"v": "u6", "t": "URI"}, "ne\u0301", "n\u00e9"]
GROUP_POOL = ["g0", "g1", "g2", "g3", "g\u212b", "g\u00c5"]
ASI_POOL = [{"ns": "a", "data": "d0"}, {"ns": "a", "data": "d1"}, {"ns": "b", "data": "d0"},
            {"ns": "b", "data": "d2"}, {"ns": "a", "data": ""}, {"ns": "", "data": "d0"},
            {"ns": "a", "data": "do\u0308"}, {"ns": "a", "data": "d\u00f6"}]
POOLS = {"Name": NAME_POOL, "Object Group": GROUP_POOL, "Application Specific Information": ASI_POOL}
MASKS = [None, 0, 0, 12, F.ALL_MASK]
# attribute samples a KMIP 2.0 request can carry (the library cannot encode the others by tag)
NOT_20 = ("Digest", "Certificate Length", "Cryptographic Parameters")
TABLE_1X = [a for a in M.ATTR_SAMPLES if a[0] not in LISTS and a[0] != "Sensitive"]
TABLE_20 = [a for a in TABLE_1X if not a[0].startswith("x-") and a[0] not in NOT_20
            and a[0] != "Operation Policy Name"]     # deprecated in 2.0: the library refuses to encode it
RO_1X = [a for a in TABLE_1X if a[0] in RO_API]        # the read-only set, with sample values
RO_20 = [a for a in TABLE_20 if a[0] in RO_API]
ALL_NAMES = list(M.ATTR_NAMES)
OTHER_KIND_CUR = [["Object Group", "g0"], ["Name", "n0"], ["Sensitive", False],
                  ["Application Specific Information", {"ns": "a", "data": "d0"}]]


# ------------------------------------------------------------------ normalisation
def norm(name, v):
    """Model value of a JSON attribute value (what is compared)."""
    if name == "Name":
        return v["v"] if isinstance(v, dict) else v
    if name == "Application Specific Information":
        return [v["ns"], v["data"]]
    return v


def denorm(name, v):
    if name == "Application Specific Information":
        return {"ns": v[0], "data": v[1]}
    return v


def plain_of(name, val):
    """How the harness renders the value object built for (name, val) - the same rendering
    function that is applied to what GetAttributes returns."""
    try:
        return norm(name, H.value_plain(H.attr_value(name, val)))
    except Exception:
        return val


def attrs_dict(attr_list):
    """[[name, idx, value], ...] -> {name: [[idx, value], ...]} with names reduced to values."""
    out = {}
    for n, i, v in attr_list:
        out.setdefault(n, []).append([i, norm(n, v)])
    return out


def state_of(ad):
    """Modelled part of an attribute dict."""
    sens = ad.get("Sensitive")
    return {"names": [x[1] for x in ad.get("Name", [])],
            "groups": [x[1] for x in ad.get("Object Group", [])],
            "asi": [x[1] for x in ad.get("Application Specific Information", [])],
            "sensitive": bool(sens[0][1]) if sens else False,
            "extra": {}}


# ------------------------------------------------------------------ observation
def raw_obj(dump, uid):
    u = int(uid)
    rows = {}
    for t, tab in dump.items():
        cols = tab["cols"]
        if "uid" in cols:
            k = cols.index("uid")
            mine = [dict(zip(cols, r)) for r in tab["rows"] if r[k] == u]
            if mine:
                rows[t] = mine

    def linked(map_t, map_col, tab_t):
        mp = dump.get(map_t, {"cols": [], "rows": []})
        if not mp["rows"]:
            return []
        a, b = mp["cols"].index("managed_object_id"), mp["cols"].index(map_col)
        ids = [r[b] for r in mp["rows"] if r[a] == u]
        tab = dump[tab_t]
        k = tab["cols"].index("id")
        by_id = {r[k]: r for r in tab["rows"]}
        return [list(by_id[i]) if i in by_id else [i, "<dangling>"] for i in sorted(ids)]

    nt = dump.get("managed_object_names", {"cols": [], "rows": []})
    names = []
    if nt["rows"]:
        c = nt["cols"]
        names = sorted([list(r) for r in nt["rows"] if r[c.index("mo_uid")] == u],
                       key=lambda r: r[c.index("id")])
        ni = c.index("name")
    return {"rows": rows, "name_rows": names,
            "names": [r[ni] for r in names] if names else [],
            "group_rows": linked("object_group_map", "object_group_id", "object_groups"),
            "asi_rows": linked("app_specific_info_map", "app_specific_info_id", "app_specific_info")}


def raw_model(ro):
    mo = ro["rows"].get("managed_objects", [{}])[0]
    return {"names": ro["names"], "groups": [r[1] for r in ro["group_rows"]],
            "asi": [[r[1], r[2]] for r in ro["asi_rows"]],
            "sensitive": bool(mo.get("sensitive"))}


def raw_rest(ro):
    """Everything of the raw per-object view that no attribute operation may touch."""
    rows = copy.deepcopy(ro["rows"])
    for r in rows.get("managed_objects", []):
        r.pop("sensitive", None)
        r.pop("name_index", None)
    return rows


def observe(srv, objs):
    api = []
    for o in objs:
        c = H.Client(srv, o["owner"], None, OBS_V)
        ga = c.one({"op": "GetAttributes", "uid": o["uid"]}, tick=False)
        ge = c.one({"op": "Get", "uid": o["uid"]}, tick=False)
        attrs = None
        if ga["status"] == "SUCCESS" and ga["payload"] is not None:
            attrs = attrs_dict(ga["payload"]["attrs"])
        api.append({"ga": [ga["status"], ga["reason"]], "attrs": attrs,
                    "get": [ge["status"], ge["reason"], ge["payload"]]})
    dump = srv.raw_dump()
    return {"api": api, "raw": dump, "robj": [raw_obj(dump, o["uid"]) for o in objs]}


def _short(x, n=700):
    s = json.dumps(x, sort_keys=True, default=str)
    return s if len(s) <= n else s[:n] + "..."


def api_diff(b, a):
    out = []
    for i, (x, y) in enumerate(zip(b["api"], a["api"])):
        if x == y:
            continue
        if x["attrs"] is None or y["attrs"] is None or x["ga"] != y["ga"]:
            out.append("obj%d GetAttributes %s -> %s" % (i, x["ga"], y["ga"]))
        else:
            for n in sorted(set(x["attrs"]) | set(y["attrs"])):
                if x["attrs"].get(n) != y["attrs"].get(n):
                    out.append("obj%d %s: %s -> %s" % (i, n, _short(x["attrs"].get(n), 200),
                                                      _short(y["attrs"].get(n), 200)))
        if x["get"] != y["get"]:
            out.append("obj%d Get: %s -> %s" % (i, _short(x["get"], 200), _short(y["get"], 200)))
    return out


def raw_diff(b, a):
    out = []
    for t in sorted(set(b["raw"]) | set(a["raw"])):
        x = b["raw"].get(t, {}).get("rows")
        y = a["raw"].get(t, {}).get("rows")
        if x != y:
            gone = [r for r in (x or []) if r not in (y or [])]
            new = [r for r in (y or []) if r not in (x or [])]
            out.append("table %s: -%s +%s" % (t, _short(gone, 300), _short(new, 300)))
    return out


# ------------------------------------------------------------------ symbolic -> concrete items
IX_CLASSES = ["absent", "zero", "in", "len", "gt", "neg"]


def _resolve_ix(ix, n):
    k = ix[0]
    r = ix[1] if len(ix) > 1 else 1
    if k == "absent":
        return None
    if k == "zero":
        return 0
    if k == "in":
        return (r % n) if n else 0
    if k == "len":
        return n
    if k == "gt":
        return n + 1 + (r % 3)
    return -1 - (r % 3)


def _resolve_val(name, sym, state):
    """JSON value for harness.attr_value."""
    kind = LISTS.get(name)
    k = sym[0]
    if k == "lit":
        return sym[1]
    if kind:
        lst = state[kind]
        pool = POOLS[name]
        if k == "cur" and lst:
            return denorm(name, lst[sym[1] % len(lst)])
        return pool[sym[1] % len(pool)]
    if name == "Sensitive":
        cur = bool(state["sensitive"])
        return cur if k in ("same", "cur") else (not cur)
    return sym[1] if len(sym) > 1 else None


def resolve(item, objs, states):
    """Returns (harness item spec, meta).  meta carries the normalised request."""
    t = item["t"] % len(objs)
    uid = objs[t]["uid"]
    stt = states[t]
    f = item["f"]
    name = item.get("name")
    kind = LISTS.get(name)
    meta = {"form": f, "t": t, "name": name, "ix": None, "val": None, "cur": None, "addr": "none"}
    if f == "mod1":
        val = _resolve_val(name, item["val"], stt)
        ix = _resolve_ix(item["ix"], len(stt[kind]) if kind else 1)
        meta.update(ix=ix, val=plain_of(name, val), addr="idx-" + item["ix"][0], req_val=val)
        return {"op": "ModifyAttribute", "uid": uid,
                "attr": [name, val] + ([ix] if ix is not None else [])}, meta
    if f == "del1":
        ix = _resolve_ix(item["ix"], len(stt[kind]) if kind else 1)
        meta.update(ix=ix, addr="idx-" + item["ix"][0])
        return {"op": "DeleteAttribute", "uid": uid, "name": name, "index": ix}, meta
    if f == "set2":
        val = _resolve_val(name, item["val"], stt)
        meta.update(val=plain_of(name, val), addr="single", req_val=val)
        return {"op": "SetAttribute", "uid": uid, "new": [name, val]}, meta
    if f == "mod2":
        val = _resolve_val(name, item["val"], stt)
        meta.update(val=plain_of(name, val), req_val=val)
        out = {"op": "ModifyAttribute", "uid": uid, "new": [name, val]}
        cur = item.get("cur")
        if cur is None:
            meta["addr"] = "cur-absent"
        elif cur[0] == "other":
            out["cur"] = [cur[1], cur[2]]
            meta.update(cur=[cur[1], plain_of(cur[1], cur[2])], addr="cur-other-kind")
        else:
            cv = _resolve_val(name, cur, stt)
            out["cur"] = [name, cv]
            meta["cur"] = [name, plain_of(name, cv)]
            meta["addr"] = "cur-match" if _matches(stt, name, meta["cur"][1]) else "cur-nomatch"
        return out, meta
    if f == "del2cur":
        cv = _resolve_val(name, item["cur"], stt)
        meta["cur"] = [name, plain_of(name, cv)]
        meta["addr"] = "cur-match" if _matches(stt, name, meta["cur"][1]) else "cur-nomatch"
        return {"op": "DeleteAttribute", "uid": uid, "cur": [name, cv]}, meta
    if f == "del2ref":
        meta["addr"] = "ref"
        return {"op": "DeleteAttribute", "uid": uid, "ref": {"name": name}}, meta
    if f == "del2none":
        return {"op": "DeleteAttribute", "uid": uid}, meta
    raise core.HarnessError("unknown item form %r" % (f,))


def _matches(stt, name, v):
    kind = LISTS.get(name)
    if kind:
        return v in stt[kind]
    if name == "Sensitive":
        return bool(stt["sensitive"]) == v
    return False


# ------------------------------------------------------------------ the model of "exactly as asked"
def apply_item(stt, m):
    """Candidate states after applying exactly the requested change to exactly the addressed
    instance; None when the request addresses no existing instance (a success is then wrong).
    For attributes outside the modelled four: state with extra[name] = value / '<absent>'."""
    name, form = m["name"], m["form"]
    kind = LISTS.get(name)

    def put(k, v):
        s = copy.deepcopy(stt)
        s[k] = v
        return s

    def uniq(cands):
        out = []
        for c in cands:
            if c not in out:
                out.append(c)
        return out or None

    if form == "del2none" or name is None:
        return None
    if kind:
        lst = stt[kind]
        val = m["val"]
        if form == "set2":
            return [put(kind, [val])] if len(lst) <= 1 else None
        if form in ("mod1", "del1"):
            i = 0 if m["ix"] is None else m["ix"]
            if not (0 <= i < len(lst)):
                return None
            if form == "mod1":
                return [put(kind, lst[:i] + [val] + lst[i + 1:])]
            return [put(kind, lst[:i] + lst[i + 1:])]
        if form == "mod2":
            if m["cur"] is None:
                return [put(kind, [val])] if len(lst) == 1 else None
            if m["cur"][0] != name:
                return None
            return uniq([put(kind, lst[:i] + [val] + lst[i + 1:])
                         for i, x in enumerate(lst) if x == m["cur"][1]])
        if form == "del2cur":
            return uniq([put(kind, lst[:i] + lst[i + 1:])
                         for i, x in enumerate(lst) if x == m["cur"][1]])
        if form == "del2ref":
            return [put(kind, [])]
        return None
    if name == "Sensitive":
        cur = bool(stt["sensitive"])
        if form == "set2":
            return [put("sensitive", bool(m["val"]))]
        if form == "mod1":
            return [put("sensitive", bool(m["val"]))] if m["ix"] in (None, 0) else None
        if form == "mod2":
            if m["cur"] is not None and (m["cur"][0] != name or m["cur"][1] != cur):
                return None
            return [put("sensitive", bool(m["val"]))]
        if form == "del1":
            return [put("sensitive", False)] if m["ix"] in (None, 0) else None
        if form == "del2cur":
            return [put("sensitive", False)] if m["cur"][1] == cur else None
        return [put("sensitive", False)]
    s = copy.deepcopy(stt)
    if form in ("set2", "mod1", "mod2"):
        if form == "mod2" and m["cur"] is not None and m["cur"][0] != name:
            return None
        s["extra"][name] = ["=", m["val"]]
    else:
        s["extra"][name] = ["absent"]
    return [s]


def expected_attrs(before_attrs, stt):
    """Attribute dict the target must show: `before` with the modelled part replaced."""
    exp = {k: v for k, v in before_attrs.items() if k not in LISTS and k != "Sensitive"}
    for n, kind in LISTS.items():
        if stt[kind]:
            exp[n] = [[i, v] for i, v in enumerate(stt[kind])]
    sens = before_attrs.get("Sensitive")
    if sens is not None:
        exp["Sensitive"] = [[sens[0][0], stt["sensitive"]]]
    elif stt["sensitive"]:
        exp["Sensitive"] = [[None, True]]
    return exp


def target_ok(before_attrs, after_attrs, stt):
    """after == expected, with the unmodelled 'extra' expectations checked by value only."""
    exp = expected_attrs(before_attrs, stt)
    aft = dict(after_attrs)
    for n, e in stt["extra"].items():
        if n in RO_API:
            continue                   # judged by (a) and by 'read-only-attribute-accepted'
        got = aft.pop(n, None)
        exp.pop(n, None)
        if e[0] == "absent":
            if got is not None:
                return False
        elif got is None or [g[1] for g in got] != [e[1]]:
            return False
    return exp == aft


# ------------------------------------------------------------------ one history
def _kindlabel(name):
    if name in LISTS:
        return "multivalued"          # Name / Object Group / Application Specific Information
    if name == "Sensitive":
        return name
    if name in RO_API:
        return "read-only:" + name
    return "other"


def _clslabel(name):
    return name if name in LISTS else _kindlabel(name)


def _key(sym, m):
    """Bucket key from the symptom and the request shape.  m is one item's meta or a list of
    metas (a batch): several different shapes in one request are not attributed to one of them."""
    if isinstance(m, list):
        shapes = sorted(set((x["form"], _kindlabel(x["name"]), x["addr"]) for x in m))
        if len(shapes) != 1:
            return "C15|%s|batch-of-different-forms" % sym
        return "C15|%s|%s|%s|%s" % ((sym,) + shapes[0])
    return "C15|%s|%s|%s|%s" % (sym, m["form"], _kindlabel(m["name"]), m["addr"])


class SetupRefused(Exception):
    """The server refused to register a generated object (not this property's business)."""


def open_policies():
    """Built-in policies plus 'open': every operation on every object type is allowed to everybody
    (so that a request by somebody who is not the owner can succeed - and must then still change
    nothing but the addressed attribute instance; the owner stays the owner)."""
    from kmip.core import enums
    p = H.builtin_policies()
    p["open"] = {"preset": {H.OT[t]: {o: enums.Policy.ALLOW_ALL for o in enums.Operation}
                            for t in H.OBJECT_TYPES}}
    return p


def register_objects(srv, spec_objs):
    objs = []
    for i, o in enumerate(spec_objs):
        extra = []
        for k, j in enumerate(o.get("names", [])):
            extra.append(["Name", NAME_POOL[j % len(NAME_POOL)], k])
        for k, j in enumerate(o.get("groups", [])):
            extra.append(["Object Group", GROUP_POOL[j % len(GROUP_POOL)], k])
        for k, j in enumerate(o.get("asi", [])):
            extra.append(["Application Specific Information", ASI_POOL[j % len(ASI_POOL)], k])
        if o.get("sensitive") is not None:
            extra.append(["Sensitive", bool(o["sensitive"])])
        if o.get("pol"):
            extra.append(["Operation Policy Name", o["pol"]])
        otype = o.get("otype", "SymmetricKey")
        owner = o.get("owner", "alice")
        c = H.Client(srv, owner, None, OBS_V)
        r = c.one(F.register_item(otype, mask=o.get("mask"), label="c15-%d" % i, extra_attrs=extra))
        if r["status"] != "SUCCESS":
            raise SetupRefused("registration refused: %r for %r" % (r, o))
        objs.append({"uid": r["payload"]["uid"], "owner": owner, "otype": otype})
    return objs


def run_history(spec):
    """Returns (buckets, nontrivial, classes, counters)."""
    H.CLOCK.now = 1_650_000_000
    srv = H.Server(policies=open_policies())
    buckets = []
    classes = set()
    counters = {}

    def bump(k, n=1):
        counters[k] = counters.get(k, 0) + n

    def bucket(key, detail):
        buckets.append((key, detail))

    try:
        if not spec.get("objects"):
            return [], False, ["empty"], {}
        try:
            objs = register_objects(srv, spec["objects"])
        except SetupRefused:
            return [], False, ["setup:registration-refused"], {"histories:setup-refused": 1}
        snap = observe(srv, objs)
        for i, a in enumerate(snap["api"]):
            if a["attrs"] is None:
                raise core.HarnessError("C15: owner cannot read fresh object %d: %r" % (i, a))
        deleted = set()          # (object index, attribute name) with an earlier successful deletion
        failed_before = False    # a failed attribute request on the current engine
        for si, step in enumerate(spec.get("steps", [])):
            k = step.get("k")
            if k == "restart":
                srv.restart()
                failed_before = False
                after = observe(srv, objs)
                if after["api"] != snap["api"] or after["raw"] != snap["raw"]:
                    bucket("C15|restart|fresh-engine-reports-different-store",
                           "step %d: %s %s" % (si, api_diff(snap, after), raw_diff(snap, after)))
                classes.add("step:restart")
                snap = after
                continue
            if k in ("activate", "revoke", "get", "getattrs"):
                t = step.get("t", 0) % len(objs)
                o = objs[t]
                who = o["owner"] if step.get("who", "owner") == "owner" else "mallory"
                v = tuple(step.get("v", (1, 2)))
                item = {"activate": {"op": "Activate", "uid": o["uid"]},
                        "revoke": {"op": "Revoke", "uid": o["uid"],
                                   "code": step.get("code", "CESSATION_OF_OPERATION")},
                        "get": {"op": "Get", "uid": o["uid"]},
                        "getattrs": {"op": "GetAttributes", "uid": o["uid"],
                                     "names": step.get("names")}}[k]
                try:
                    H.Client(srv, who, None, v).one(item)
                except Exception as e:          # encoding trouble is not this property's
                    classes.add("unencodable")
                    continue
                after = observe(srv, objs)
                classes.add("step:" + k)
                # no attribute operation in this request: the client-modifiable attributes (and,
                # for read operations, everything) must be what the last attribute request left
                for i in range(len(objs)):
                    b, a = snap["api"][i]["attrs"], after["api"][i]["attrs"]
                    if a is None or state_of(b) != state_of(a) or \
                            raw_model(snap["robj"][i]) != raw_model(after["robj"][i]):
                        bucket("C15|later-request-changed-client-attributes|" + item["op"],
                               "step %d %r: %s %s" % (si, step, api_diff(snap, after),
                                                      raw_diff(snap, after)))
                        break
                else:
                    if k in ("get", "getattrs") and (after["api"] != snap["api"]
                                                     or after["raw"] != snap["raw"]):
                        bucket("C15|read-operation-changed-store|" + item["op"],
                               "step %d %r: %s %s" % (si, step, api_diff(snap, after),
                                                      raw_diff(snap, after)))
                snap = after
                continue
            if k != "attr":
                continue

            # ---------------------------------------------------------- attribute request
            v = tuple(step.get("v", (1, 2)))
            states = [state_of(a["attrs"]) for a in snap["api"]]
            conc, metas = [], []
            for it in step.get("items", []):
                if (tuple(v) >= (2, 0)) != (it["f"] in ("set2", "mod2", "del2cur", "del2ref", "del2none")):
                    continue                      # form does not exist under this version
                try:
                    c, m = resolve(it, objs, states)
                except core.HarnessError:
                    raise
                except Exception:
                    continue
                conc.append(c)
                metas.append(m)
            if not conc:
                classes.add("empty-request")
                continue
            whos = step.get("who", "owner")
            who = objs[metas[0]["t"]]["owner"] if whos == "owner" else whos
            cli = H.Client(srv, who, None, v)
            hdr = {}
            if step.get("cont") is not None:
                hdr["cont"] = step["cont"]
            try:
                r = cli.request(conc, **hdr)
            except Exception:
                classes.add("unencodable")
                continue
            after = observe(srv, objs)
            res = r["items"]
            statuses = []
            for j in range(len(conc)):
                if res is None:
                    statuses.append("REQUEST_ERROR:" + r["stage"])
                elif j < len(res):
                    statuses.append(res[j]["status"] if res[j]["status"] == "SUCCESS"
                                    else "FAILED:%s" % res[j]["reason"])
                else:
                    statuses.append("SKIPPED")
            ctxd = "step %d v=%s who=%s request=%s results=%s" % (
                si, list(v), who, _short(conc, 600), statuses)
            for m in metas:
                classes.add("form:" + m["form"])
                classes.add("attr:" + _clslabel(m["name"]))
                classes.add("addr:%s:%s" % (m["form"], m["addr"]))
            if len(conc) > 1:
                classes.add("batch")
            any_ok = any(s == "SUCCESS" for s in statuses)
            forms = sorted(set(m["form"] for m in metas))
            rform = forms[0] if len(forms) == 1 else "batch-of-different-forms"

            # (a) read-only set, every object, successful or not
            for i in range(len(objs)):
                b, a = snap["api"][i]["attrs"], after["api"][i]["attrs"]
                if a is None:
                    bucket(_key("object-unreadable-after-attribute-operation", metas),
                           "%s: obj%d GetAttributes -> %s" % (ctxd, i, after["api"][i]["ga"]))
                    continue
                for n in RO_API:
                    if b.get(n) != a.get(n):
                        bucket("C15|read-only-changed|%s|%s" % (n, rform),
                               "%s: obj%d %s %s -> %s" % (ctxd, i, n, b.get(n), a.get(n)))
                rb, ra = snap["robj"][i]["rows"], after["robj"][i]["rows"]
                for tab, col, label in RO_RAW:
                    x = [row.get(col) for row in rb.get(tab, [])]
                    y = [row.get(col) for row in ra.get(tab, [])]
                    if x != y:
                        bucket("C15|read-only-changed|%s|%s" % (label, rform),
                               "%s: obj%d raw %s.%s %s -> %s" % (ctxd, i, tab, col, x, y))

            if not any_ok:
                # (c) unsuccessful: nothing changed anywhere
                bump("steps:failed")
                for s_ in statuses:
                    classes.add("result:" + s_.split(":", 1)[-1] if s_ != "SKIPPED" else "result:SKIPPED")
                if after["api"] != snap["api"] or after["raw"] != snap["raw"]:
                    bucket(_key("failed-call-changed-store", metas),
                           "%s: %s %s" % (ctxd, api_diff(snap, after), raw_diff(snap, after)))
                failed_before = True
                snap = after
                continue

            # (b) successful items: sequential model over candidate states
            bump("steps:succeeded")
            cands = {i: [states[i]] for i in range(len(objs))}
            lenient = {i: [states[i]] for i in range(len(objs))}   # as if failed items applied too
            touched = set()
            unknown = set()
            saw_failed_item = False
            nt_here = set()
            for j, m in enumerate(metas):
                s_ = statuses[j]
                t = m["t"]
                if s_ != "SUCCESS":
                    if s_ != "SKIPPED":
                        saw_failed_item = True
                        classes.add("result:" + s_.split(":", 1)[-1])
                        nxt = []
                        for c in lenient[t]:
                            nxt.extend(apply_item(c, m) or [c])
                        lenient[t] = nxt
                    continue
                classes.add("result:SUCCESS")
                classes.add("ok:%s:%s" % (m["form"], _clslabel(m["name"])))
                touched.add(t)
                kind = LISTS.get(m["name"])
                cur_len = len(cands[t][0][kind]) if kind else None
                # read-only attribute accepted with a different value
                if m["name"] in RO_API and m["form"] in ("set2", "mod1", "mod2"):
                    curv = (snap["api"][t]["attrs"].get(m["name"]) or [[None, None]])[0][1]
                    if curv != m["val"]:
                        bucket("C15|read-only-attribute-accepted|%s|%s" % (m["name"], m["form"]),
                               "%s: current %r requested %r" % (ctxd, curv, m["val"]))
                if m["name"] in RO_API and m["form"] in ("del1", "del2cur", "del2ref"):
                    bucket("C15|read-only-attribute-accepted|%s|%s" % (m["name"], m["form"]), ctxd)
                nxt, nxl = [], []
                for c in cands[t]:
                    nxt.extend(apply_item(c, m) or [])
                for c in lenient[t]:
                    nxl.extend(apply_item(c, m) or [c])
                lenient[t] = nxl
                if not nxt:
                    bucket(_key("success-without-addressed-instance", m),
                           "%s: item %d addresses no instance of %s in %s" % (
                               ctxd, j, m["name"], _short(cands[t][0], 300)))
                    unknown.add(t)
                    continue
                # response echo (1.x forms return the attribute)
                pay = res[j]["payload"] or {}
                if pay.get("uid") != objs[t]["uid"]:
                    bucket(_key("response-names-another-object", m), "%s: %r" % (ctxd, pay))
                if m["form"] in ("mod1", "del1") and len(cands[t]) == 1 and (kind or m["name"] == "Sensitive"):
                    echo = pay.get("attr")
                    if m["form"] == "mod1":
                        want_v = m["val"]
                    elif kind:
                        want_v = cands[t][0][kind][0 if m["ix"] is None else m["ix"]]
                    else:
                        want_v = cands[t][0]["sensitive"]
                    okidx = (m["ix"],) if m["ix"] is not None else (None, 0)
                    if echo is None or echo[0] != m["name"] or norm(m["name"], echo[2]) != want_v \
                            or echo[1] not in okidx + ((None,) if not kind else ()):
                        bucket(_key("response-echoes-different-instance", m),
                               "%s: item %d echoed %r, addressed value %r index %r" % (
                                   ctxd, j, echo, want_v, m["ix"]))
                cands[t] = nxt
                # non-triviality classes of this successful item
                if kind and cur_len >= 2:
                    nt_here.add("multi>=2")
                if (t, m["name"]) in deleted:
                    nt_here.add("after-deletion")
                if (kind and cur_len == 0) or (m["name"] == "Sensitive" and not states[t]["sensitive"]
                                               and m["form"] in ("set2", "mod1", "mod2")):
                    nt_here.add("falsy-current")
                if failed_before or saw_failed_item:
                    nt_here.add("after-failed")
                if m["form"] in ("del1", "del2cur", "del2ref") and kind and cur_len:
                    deleted.add((t, m["name"]))
            for c in nt_here:
                classes.add("nt:" + c)
                bump("nt_steps:" + c)
            if saw_failed_item:
                classes.add("batch-failed-and-succeeded")
                failed_before = True

            for i in range(len(objs)):
                a_attrs = after["api"][i]["attrs"]
                if a_attrs is None:
                    continue
                if i not in touched:
                    # frame condition: identical API view and raw rows
                    if after["api"][i] != snap["api"][i] or after["robj"][i] != snap["robj"][i]:
                        sub_b = {"api": [snap["api"][i]], "raw": {}}
                        sub_a = {"api": [after["api"][i]], "raw": {}}
                        half = saw_failed_item and any(
                            target_ok(snap["api"][i]["attrs"], a_attrs, c) for c in lenient[i])
                        sym = ("failed-item-change-persisted-by-later-commit" if half
                               else "other-object-changed")
                        bucket(_key(sym, [mm for j, mm in enumerate(metas)
                                          if statuses[j] != "SKIPPED"]),
                               "%s: obj%d (not addressed by a successful item) %s raw %s -> %s" % (
                                   ctxd, i, api_diff(sub_b, sub_a),
                                   _short(snap["robj"][i], 300), _short(after["robj"][i], 300)))
                    continue
                if i in unknown:
                    continue
                m = [mm for j, mm in enumerate(metas) if mm["t"] == i and statuses[j] == "SUCCESS"]
                ok = [c for c in cands[i] if target_ok(snap["api"][i]["attrs"], a_attrs, c)]
                if not ok:
                    half = saw_failed_item and any(
                        target_ok(snap["api"][i]["attrs"], a_attrs, c) for c in lenient[i])
                    sym = ("failed-item-change-persisted-by-later-commit" if half
                           else "target-not-as-requested")
                    exp = expected_attrs(snap["api"][i]["attrs"], cands[i][0])
                    diffs = ["%s: expected %s got %s" % (n, _short(exp.get(n), 200),
                                                         _short(a_attrs.get(n), 200))
                             for n in sorted(set(exp) | set(a_attrs)) if exp.get(n) != a_attrs.get(n)]
                    bucket(_key(sym, m), "%s: obj%d %s" % (ctxd, i, diffs))
                    continue
                if after["api"][i]["get"] != snap["api"][i]["get"]:
                    bucket(_key("target-get-changed", m),
                           "%s: obj%d Get %s -> %s" % (ctxd, i, _short(snap["api"][i]["get"], 300),
                                                       _short(after["api"][i]["get"], 300)))
                # raw view: modelled part agrees with an accepted candidate, the rest untouched
                rm = raw_model(after["robj"][i])
                if not any(all(rm[kk] == c[kk] for kk in ("names", "groups", "asi", "sensitive"))
                           for c in ok):
                    bucket(_key("raw-rows-differ-from-requested", m),
                           "%s: obj%d raw %s expected one of %s" % (ctxd, i, _short(rm, 300),
                                                                    _short(ok, 400)))
                if raw_rest(after["robj"][i]) != raw_rest(snap["robj"][i]):
                    bucket(_key("target-other-columns-changed", m),
                           "%s: obj%d %s -> %s" % (ctxd, i, _short(raw_rest(snap["robj"][i]), 400),
                                                   _short(raw_rest(after["robj"][i]), 400)))
            snap = after
        # a fresh engine reports the same store
        srv.restart()
        after = observe(srv, objs)
        if after["api"] != snap["api"] or after["raw"] != snap["raw"]:
            bucket("C15|restart|fresh-engine-reports-different-store",
                   "final restart: %s %s" % (api_diff(snap, after), raw_diff(snap, after)))
    finally:
        srv.close()
    seen = {}
    for kk, d in buckets:
        seen.setdefault(kk, d)
    nontrivial = any(c.startswith("nt:") for c in classes)
    return list(seen.items()), nontrivial, sorted(classes), counters


def replay(spec):
    return run_history(spec)[0]


# ------------------------------------------------------------------ generator
_VERSIONS = [(1, 0), (1, 2), (1, 2), (1, 4), (1, 4), (2, 0), (2, 0), (2, 0), (2, 0)]
_STEP_KINDS = (["attr"] * 14 + ["restart"] * 2 + ["activate", "revoke", "get", "getattrs"])
_ATTR_CLASSES = (["Name"] * 5 + ["Object Group"] * 4 + ["Application Specific Information"] * 4
                 + ["Sensitive"] * 3 + ["table"] * 4 + ["ro"] * 3)


def _ix(draw):
    return [draw(st.sampled_from(["absent", "zero", "in", "in", "len", "gt", "neg"])),
            draw(st.integers(0, 5))]


def _val(draw, name):
    if name == "Sensitive":
        return draw(st.sampled_from([["same"], ["flip"], ["lit", True], ["lit", False]]))
    return [draw(st.sampled_from(["cur", "pool", "pool"])), draw(st.integers(0, 8))]


def _item(draw, nobj, v):
    t = draw(st.integers(0, nobj - 1))
    cls = draw(st.sampled_from(_ATTR_CLASSES))
    if tuple(v) < (2, 0):
        f = draw(st.sampled_from(["mod1", "del1"]))
        if cls in ("table", "ro"):
            if f == "mod1":
                a = draw(st.sampled_from(TABLE_1X if cls == "table" else RO_1X))
                return {"f": f, "t": t, "name": a[0], "val": ["lit", a[1]], "ix": _ix(draw)}
            n = draw(st.sampled_from(ALL_NAMES + [None] if cls == "table" else RO_API))
            return {"f": f, "t": t, "name": n, "ix": _ix(draw)}
        ix = _ix(draw)
        if cls == "Sensitive" and draw(st.booleans()):
            ix = ["absent"]            # single-valued: the server only takes the index-free form
        if f == "mod1":
            return {"f": f, "t": t, "name": cls, "val": _val(draw, cls), "ix": ix}
        return {"f": f, "t": t, "name": cls, "ix": ix}
    # (a 2.0 DeleteAttribute with neither current attribute nor reference cannot be encoded by
    # the library; replay() still understands {"f": "del2none"})
    f = draw(st.sampled_from(["set2"] * 5 + ["mod2"] * 7 + ["del2cur"] * 4 + ["del2ref"] * 4))
    if cls in ("table", "ro"):
        if f == "del2ref":
            return {"f": f, "t": t, "name": draw(st.sampled_from(ALL_NAMES if cls == "table" else RO_API))}
        a = draw(st.sampled_from(TABLE_20 if cls == "table" else RO_20))
        if f == "set2":
            return {"f": f, "t": t, "name": a[0], "val": ["lit", a[1]]}
        if f == "del2cur":
            return {"f": f, "t": t, "name": a[0], "cur": ["lit", a[1]]}
        cur = draw(st.sampled_from([None, ["lit", a[1]]]))
        return {"f": f, "t": t, "name": a[0], "val": ["lit", a[1]], "cur": cur}
    if f == "set2":
        return {"f": f, "t": t, "name": cls, "val": _val(draw, cls)}
    if f == "del2ref":
        return {"f": f, "t": t, "name": cls}
    if cls == "Sensitive":
        curs = [["same"], ["same"], ["flip"]]
    else:
        curs = [["cur", draw(st.integers(0, 5))]] * 3 + [["pool", draw(st.integers(0, 8))]]
    if f == "del2cur":
        return {"f": f, "t": t, "name": cls, "cur": draw(st.sampled_from(curs))}
    cur = draw(st.sampled_from(curs * 2 + [None, None]
                               + [["other"] + draw(st.sampled_from(OTHER_KIND_CUR))]))
    return {"f": f, "t": t, "name": cls, "val": _val(draw, cls), "cur": cur}


@st.composite
def gen_history(draw, max_steps=25):
    nobj = draw(st.integers(2, 4))
    objs = []
    sizes = st.sampled_from([0, 0, 1, 2, 2, 3])   # no operation ever adds an instance: start fuller
    for _ in range(nobj):
        objs.append({
            "otype": draw(st.sampled_from(H.OBJECT_TYPES)),
            "names": draw(st.lists(st.integers(0, 8), min_size=draw(sizes), max_size=3, unique=True)),
            "groups": draw(st.lists(st.integers(0, 5), min_size=draw(sizes), max_size=3)),
            "asi": draw(st.lists(st.integers(0, 7), min_size=draw(sizes), max_size=3, unique=True)),
            "mask": draw(st.sampled_from(MASKS)),
            "sensitive": draw(st.sampled_from([None, False, False, True])),
            "owner": draw(st.sampled_from(["alice", "alice", "alice", "bob"])),
            "pol": draw(st.sampled_from([None, None, "open"]))})
    steps = []
    for _ in range(draw(st.integers(3, max_steps))):
        k = draw(st.sampled_from(_STEP_KINDS))
        if k == "restart":
            steps.append({"k": k})
        elif k in ("activate", "get"):
            steps.append({"k": k, "t": draw(st.integers(0, nobj - 1)),
                          "who": draw(st.sampled_from(["owner", "owner", "other"])),
                          "v": list(draw(st.sampled_from(_VERSIONS)))})
        elif k == "revoke":
            steps.append({"k": k, "t": draw(st.integers(0, nobj - 1)),
                          "code": draw(st.sampled_from(["CESSATION_OF_OPERATION", "KEY_COMPROMISE"]))})
        elif k == "getattrs":
            steps.append({"k": k, "t": draw(st.integers(0, nobj - 1)),
                          "v": list(draw(st.sampled_from(_VERSIONS))),
                          "names": draw(st.sampled_from([None, ["Name"], ["Object Group", "Sensitive"]]))})
        else:
            v = draw(st.sampled_from(_VERSIONS))
            n = draw(st.sampled_from([1] * 8 + [2, 3]))
            step = {"k": "attr", "v": list(v),
                    "who": draw(st.sampled_from(["owner"] * 7 + ["mallory"] * 3)),
                    "items": [_item(draw, nobj, v) for _ in range(n)]}
            if n > 1:
                step["cont"] = draw(st.sampled_from(["CONTINUE", "CONTINUE", "STOP", None]))
            steps.append(step)
    return {"objects": objs, "steps": steps}


def worker(n, seed, max_steps):
    col = core.Collector(PID)

    def one(spec):
        b, nt, cl, cnt = run_history(spec)
        col.record(spec, nontrivial=nt, classes=cl, buckets=b)
        for k, v in cnt.items():
            col.bump(k, v)
        col.bump("steps:total", len(spec["steps"]))

    core.draw_examples(gen_history(max_steps), n, seed, one)
    return col


def run(ctx):
    nh = ctx.n(400, 6400)
    max_steps = ctx.n(25, 40)
    F.rsa_pair()                    # key material generated once in the parent, inherited by the forks
    F.obj_spec("Certificate")
    jobs = [(nh // NSHARDS, core.derive_seed(ctx.seed, "c15", i), max_steps) for i in range(NSHARDS)]
    dicts = core.run_sharded("vlib.props.c15", "worker", jobs)
    col = core.merged(PID, dicts)
    col.extra["exhaustive"] = False
    return col
