"""C05 - Stored objects come back exactly as stored (client, wire, engine, SQLite).

One case = one managed object stored through one of three paths (raw payloads read back with the
independent TTLV reference / ProxyKmipClient / KMIPProxy) under one KMIP version, followed by
operations on OTHER objects and engine restarts on the same database file, and three read-backs
(Get, GetAttributes, GetAttributeList).  The oracle is the case spec itself."""
import warnings

from vlib import core
from vlib import c05_gen as G
from vlib import c05_exec as X

PID = "C05"
LEVEL = "exploration"
RULE = ("one case = JSON spec {path raw|pie|proxy, KMIP version, how register|create|keypair|derive, "
        "object spec (7 stored types; value bytes empty / 1 byte / <=64 / >1 KiB; every algorithm, "
        "accepted key format, secret data / opaque / split-key-method member; lengths; key wrapping data "
        "with each sub-field optional incl. falsy values; split-key integers), supplied attributes "
        "(0-3 names, 0-3 object groups, 0-3 application specific informations, usage mask 0..all bits, "
        "sensitive, operation policy name, intrinsic algorithm/length), objects created before, "
        "interleaved operations on other objects (create/register sharing the same names and groups, "
        "destroy, activate, revoke, modify/delete/set attribute, locate, clock ticks), 0-2 engine "
        "restarts, three read-backs}.  Non-trivial: the store request was accepted and judged AND the "
        "case has >=1 multivalued attribute instance, or key wrapping data, or >=1 restart, or a KMIP "
        "version other than 1.2.  Distinct by spec hash.  Histogram: cell:<type or how>/<path> = cases "
        "generated, judged:<..>/<..> = cases whose object was stored and compared, status:*, "
        "refused:<reason>, gf:<exception site> (General Failure answers are C13's: counted, not judged).")
ASSUMPTIONS = [
    "harness.Server.process stands for a session between receive and send; restart() = a new KmipEngine "
    "on the same SQLite file",
    "raw path: requests are encoded by the library from the spec (harness.encode_request), answers are "
    "read with vlib.ttlvref and the specification's tag numbers (vlib/c05_wire.py)",
    "a request refused with a specific error (Invalid Field, attribute unsupported under that version, "
    "attribute index missing, ...) is not judged; General Failure answers are not judged (C13)",
    "pie path: only what ProxyKmipClient documents / is built to transmit is demanded (names, usage "
    "masks, operation policy name, application specific information of key objects); create() adding "
    "Encrypt|Decrypt to the mask is accepted",
    "server-reported Cryptographic Usage Mask 0 / Sensitive False for objects that supplied neither, and "
    "intrinsic Cryptographic Algorithm / Length / Certificate Type equal to the object's own fields, "
    "are accepted; attribute index numbers are not compared, only values and their order",
    "RSA key pair consistency is decided with the `cryptography` package",
]
SHRINK_BUDGET = 80
MIN_ACCEPTED = 0.6


# ----------------------------------------------------------------------------- confirmed defects
def _infos(spec):
    w = (spec.get("obj") or {}).get("wrap") or {}
    return [w[k] for k in ("eki", "mski") if w.get(k) is not None]


def excluded(spec):
    """Features of confirmed defects (each reached by one case of known_paths())."""
    o = spec.get("obj") or {}
    attrs = spec.get("attrs", []) + spec.get("pub", []) + spec.get("priv", [])
    path = spec["path"]
    for name, val in attrs:
        if name == "Name" and isinstance(val, dict) and val.get("t") != X.UTS:
            return "name of type URI (Name Type is not stored)"
        if name == "Cryptographic Usage Mask" and val & ~G.KNOWN_MASK:
            return "usage mask with bits outside the enumeration (silently dropped)"
    for i in _infos(spec):
        if i.get("params") is not None and not any(i["params"].values()):
            return "key wrapping data: cryptographic parameters with only falsy values (dropped)"
    if o.get("prime") is not None and o["prime"] >= 2 ** 63:
        return "split key prime field size >= 2**63 (not storable: General Failure at commit)"
    if o.get("type") == "SecretData" and (o.get("fmt", "OPAQUE") != "OPAQUE" or "alg" in o or "len" in o):
        return "secret data key block with format / algorithm / length (discarded)"
    if path == "pie":
        g = X.group_by_name(spec.get("attrs", []))
        if spec["how"] == "register" and len(g.get("Name", [])) > 1:
            return "pie client: object with several names (sent without attribute index)"
        if g.get("Sensitive") and g["Sensitive"][0]:
            return "pie client: sensitive object (flag never transmitted)"
    return None


_K16 = "000102030405060708090a0b0c0d0e0f"


def _reg(path, v, obj, attrs, **kw):
    d = {"path": path, "v": list(v), "how": "register", "obj": obj, "attrs": attrs, "pre": 0,
         "inter": [], "again": []}
    d.update(kw)
    return d


def known_paths():
    """One deterministic minimal case per confirmed defect (same specs as known/C05-*.json)."""
    sym = {"type": "SymmetricKey", "value": _K16, "alg": "AES", "len": 128, "fmt": "RAW"}
    split = {"type": "SplitKey", "value": _K16, "alg": "AES", "len": 128, "fmt": "RAW", "parts": 3,
             "part_id": 1, "threshold": 2, "method": "POLYNOMIAL_SHARING_PRIME_FIELD", "prime": 2 ** 63}
    cert = {"type": "Certificate", "value": "3000", "ctype": "X_509"}
    P = {}
    P["name-type"] = _reg("raw", (1, 2), sym, [["Name", {"v": "https://example.org/key", "t": "URI"}]])
    P["mask-unknown-bits"] = _reg("raw", (1, 2), sym, [["Cryptographic Usage Mask", 0x4 | (1 << 30)]])
    P["wrap-params-falsy"] = _reg("raw", (1, 4), dict(sym, value=_K16 + "aabbccddeeff0011", wrap={
        "method": "ENCRYPT", "eki": {"uid": "7", "params": {"random_iv": False, "iv_length": 0}}}), [])
    # once General Failure answers, now fixed in the repository (regression cases, no C05 bucket either way)
    P["wrap-no-params"] = _reg("raw", (1, 2), dict(sym, value=_K16 + "aabbccddeeff0011", wrap={
        "method": "ENCRYPT", "eki": {"uid": "7", "params": None}}), [])
    P["prime-2-63"] = _reg("raw", (1, 2), split, [])
    P["secret-data-format"] = _reg("raw", (1, 2), {"type": "SecretData", "value": "70617373", "dtype": "PASSWORD",
                                                   "fmt": "RAW"}, [])
    P["secret-data-alg-len"] = _reg("raw", (1, 2), {"type": "SecretData", "value": "70617373", "dtype": "SEED",
                                                    "alg": "AES", "len": 32}, [])
    P["cert-length-attribute"] = _reg("raw", (1, 2), cert, [["Cryptographic Length", 2048]])
    # fixed in the repository (regression cases): certificate attributes read by the clients under 2.0
    P["cert-2.0-proxy"] = _reg("proxy", (2, 0), cert, [["Name", {"v": "c", "t": X.UTS}]])
    P["cert-2.0-pie"] = _reg("pie", (2, 0), cert, [])
    P["pie-two-names"] = _reg("pie", (1, 2), sym, [["Name", {"v": "a", "t": X.UTS}], ["Name", {"v": "b", "t": X.UTS}]])
    P["pie-sensitive"] = _reg("pie", (1, 4), sym, [["Sensitive", True]])
    return P


# ----------------------------------------------------------------------------- running
def execute(spec):
    return X.run_case(spec)


def replay(spec):
    warnings.filterwarnings("ignore")
    if "path" not in spec:      # the acceptance summary is not a single case
        return []
    return execute(spec)["buckets"]


def _record(col, spec, res, extra_classes=()):
    col.record(spec, nontrivial=res["nontrivial"] and res["status"] == "accepted",
               classes=list(res["classes"]) + list(extra_classes), buckets=res["buckets"])
    col.bump("cases_" + res["status"])
    for k, n in res["bumps"].items():
        col.bump(k, n)


def targets():
    return [(p, k) for k in G.KINDS for p in G.PATHS]


def units(n_per_target):
    """Work units (path, kind, round, examples): independent Hypothesis runs of at most 150 examples
    (one long run clusters); the seed of a unit does not depend on the number of shards."""
    out = []
    for path, kind in targets():
        n = n_per_target if kind != "keypair" else max(4, n_per_target // 3)
        rounds = (n + 149) // 150
        for rnd in range(rounds):
            out.append((path, kind, rnd, n // rounds + (1 if rnd < n % rounds else 0)))
    return out


def worker(seed, shard, nshards, n_per_target):
    warnings.filterwarnings("ignore")
    col = core.Collector(PID)

    def fn(spec):
        why = excluded(spec)
        if why:
            col.exclude(why)
            return
        res = execute(spec)
        _record(col, spec, res)
        col.bump("bulk_" + ("accepted" if res["status"] == "accepted" else "not_accepted"))

    for i, (path, kind, rnd, k) in enumerate(units(n_per_target)):
        if i % nshards != shard:
            continue
        core.draw_examples(G.case_s(path, kind), k, core.derive_seed(seed, "c05", path, kind, rnd), fn)
    if shard == 0:
        for label, spec in sorted(known_paths().items()):
            _record(col, spec, execute(spec), ["known-path:" + label])
    return col


def run(ctx):
    nshards = max(core.NCPU, 1)
    n = ctx.n(24, 700)
    args = [(ctx.seed, i, nshards, n) for i in range(nshards)]
    col = core.merged(PID, core.run_sharded("vlib.props.c05", "worker", args))
    acc, rej = col.extra.get("bulk_accepted", 0), col.extra.get("bulk_not_accepted", 0)
    col.extra["bulk_accepted_fraction"] = round(acc / float(max(1, acc + rej)), 3)
    if acc + rej and acc < MIN_ACCEPTED * (acc + rej):
        col.add_bucket("C05|acceptance|most-legal-objects-not-stored", {"accepted": acc, "not_accepted": rej},
                       "only %d of %d generated legal store requests were carried out; see the status:/refused:/gf: "
                       "classes in the evidence" % (acc, acc + rej))
    per = {}
    for c, k in col.classes.items():
        if c.startswith("judged:"):
            per[c[7:]] = k
    col.extra["judged_per_type_and_path"] = dict(sorted(per.items()))
    return col
