"""C20 - Secrets stay out of logs and error messages at the default log level.

One case = one history (JSON spec) run against a byte copy of the standard store:

  mode "server"  steps = request specs (vlib.harness.build_request) encoded by the library, optionally
                 mutated at the byte level, and fed to a real KmipSession (Server.session) with a
                 chosen client certificate / authentication plug-in configuration / chunk schedule;
  mode "client"  calls of ProxyKmipClient (api "pie") or KMIPProxy (api "proxy") methods whose
                 KMIPProtocol talks over a fake socket to the same real KmipSession; the response
                 may be truncated / corrupted before the client reads it.

Every secret-bearing field is a placeholder resolved at run time from (case seed, counter):
  "$c:<kind>:<idx>:<n>"  n fresh bytes (hex)       "$t:<kind>:<idx>:<n>"  password-like text
  "$u:<k>"  identifier of the k-th object the history created     "$d:<k>"  k-th Encrypt output
  "$rsa:priv" / "$rsa:priv8" / "$rsa:pub"  a fixed RSA test key (its private numbers are the secret).
Besides these, every value the server stores (read through stdlib sqlite3: fixtures of the
standard store, keys made by Create / CreateKeyPair / DeriveKey) and every Encrypt output is a
secret of the case.

Oracle (vlib/c20_scan.py): a handler on the root logger and on the loggers cut off from it keeps
message + formatted exception of every record with levelno >= INFO of every logger; exceptions
that escape the session's message loop are added as KmipSession.run() would log them.  No secret
may occur in any of these texts nor in any Result Message (read with vlib.ttlvref), in raw,
escaped, hex (any separator style), base64, number-list or integer form, whole or as any 8-byte
window (16 for RSA private numbers); and no record may contain >= 32 consecutive bytes of a
request or response frame."""
import copy
import json
import os
import re

from hypothesis import strategies as st

from vlib import core, store
from vlib import harness as H
from vlib import menus as M
from vlib import fixtures as F
from vlib import c20_run as R
from vlib import c20_scan as S

PID = "C20"
LEVEL = "exploration"
RULE = ("histories over a copy of the standard store. Deterministic part: the C13 operation menus "
        "(vlib.menus object/attribute/store/header menus) aimed at ten objects registered with canary "
        "values (symmetric keys active/pre-active, secret data, opaque, split key, RSA private/public "
        "key, HMAC key, another owner's key, wrapping key), every secret request field replaced by a "
        "canary; byte mutations of the TTLV header in front of each canary (type, length, tag, cuts) "
        "for every secret-bearing request shape; bad client certificates and authentication plug-in "
        "failures; small Maximum Response Size; failing batches; the stored General-Failure triggers "
        "of C13 (known/C13-*.json); client call sequences (ProxyKmipClient and KMIPProxy) with every "
        "response fault. Random part: Hypothesis histories mixing perturbed menu items, mutations, "
        "certificates, plug-ins, credentials, versions, chunk schedules, and client call sequences "
        "with faults. non-trivial = at least one failure (failed batch item, request-level error, "
        "exception escaping the message loop, client-side failure) happened in an exchange whose "
        "bytes on the wire (request as sent, response as read by the client) contained at least one "
        "8-byte window of a secret of the case, or - when the request got as far as an operation - "
        "that addressed an object storing one; histogram: nt-fail:<class> counts such exchanges per "
        "failure class, canary-in-flight-at-failure:<kind> histories per secret kind, item:<reason> "
        "every batch item; three histories run with DEBUG switched on as a control that records "
        "below INFO (which do contain every frame in hex) are seen and left out of the verdict")
ASSUMPTIONS = [
    "'default level': the 'kmip' logger hierarchy is at INFO (KmipServer sets 'kmip.server' to its "
    "default logging_level INFO; the same level is taken for the client loggers); the root logger "
    "keeps its WARNING default, so third-party loggers (sqlalchemy) behave as under KmipServer; "
    "KMIPProtocol's own level handling is untouched; records below INFO are counted, never judged",
    "the session is driven through KmipSession._handle_message_loop over a scripted connection; an "
    "exception escaping it is recorded with the text run() would log (logger.exception(e))",
    "secrets: key material of symmetric/private/split keys, secret data, opaque values, passwords of "
    "username/device credentials, Encrypt plaintext and output, Decrypt input, Sign/MAC data, "
    "derivation data and salts, wrapped key bytes; identifiers, names, IVs, public keys, "
    "certificates, signatures and MACs are not secrets",
    "a leak of fewer than 8 consecutive secret bytes (16 for RSA private numbers) is not detected",
    "Result Messages are read with vlib.ttlvref from the bytes the session sent",
    "the scanner is self-checked at the start of every run (each encoding form of a planted secret "
    "must be found, clean text and a short frame excerpt must not be flagged)",
    "the C13 General-Failure triggers are read from known/C13-*.json when the cases are generated "
    "(open and fixed ones alike); the replay specs embed the resulting requests",
]
SHRINK_BUDGET = 40

SECRET_TYPES = {"SymmetricKey": "key-symmetric", "SplitKey": "key-split", "SecretData": "secret-data",
                "OpaqueData": "opaque"}
DATA_KIND = {"Encrypt": "plaintext", "Decrypt": "ciphertext", "Sign": "sign-data",
             "SignatureVerify": "sign-data", "MAC": "mac-data"}


# ----------------------------------------------------------------------------- canary placement
class Ctr(object):
    def __init__(self, prefix=""):
        self.n = 0
        self.prefix = prefix

    def next(self):
        self.n += 1
        return "%s%d" % (self.prefix, self.n)


def _is_hex(s):
    return isinstance(s, str) and len(s) % 2 == 0 and all(c in "0123456789abcdefABCDEF" for c in s)


def _canary(kind, ctr, n):
    return "$c:%s:%s:%d" % (kind, ctr.next(), n)


def _swap(value, kind, ctr, upgrade):
    """Replace a hex value by a canary of the same length (>= 8 bytes); shorter values only when
    the length is free (upgrade)."""
    if not _is_hex(value):
        return value
    n = len(value) // 2
    if n >= 8:
        return _canary(kind, ctr, n)
    if upgrade and n > 0:
        return _canary(kind, ctr, 16)
    return value


def canarize_item(item, ctr, upgrade=True):
    it = copy.deepcopy(item)
    op = it.get("op")
    if op == "Register" and isinstance(it.get("obj"), dict):
        o = it["obj"]
        t = o.get("type")
        if t in SECRET_TYPES:
            kind = "wrapped-key" if o.get("wrap") else SECRET_TYPES[t]
            o["value"] = _swap(o.get("value"), kind, ctr, False)
        elif t == "PrivateKey" and o.get("value") == F.rsa_pair()[0]:
            o["value"] = "$rsa:priv"
        elif t == "PublicKey" and o.get("value") == F.rsa_pair()[1]:
            o["value"] = "$rsa:pub"
    elif op in DATA_KIND and "data" in it:
        it["data"] = _swap(it["data"], DATA_KIND[op], ctr, False)
    elif op == "DeriveKey" and isinstance(it.get("dp"), dict):
        dp = it["dp"]
        if dp.get("data") is not None:
            dp["data"] = _swap(dp["data"], "derivation-data", ctr, upgrade)
        if dp.get("salt") is not None:
            dp["salt"] = _swap(dp["salt"], "salt", ctr, upgrade)
    return it


def canarize_req(req, ctr, upgrade=True):
    req = copy.deepcopy(req)
    req["items"] = [canarize_item(i, ctr, upgrade) if isinstance(i, dict) else i
                    for i in req.get("items", [])]
    if isinstance(req.get("cred"), list):
        for c in req["cred"]:
            if isinstance(c, dict) and c.get("password") is not None:
                kind = "password-user" if c.get("kind", "user") == "user" else "password-device"
                c["password"] = "$t:%s:%s:18" % (kind, ctr.next())
    return req


# ----------------------------------------------------------------------------- set-up of a history
N_SETUP = 10     # $u:0 .. $u:9
TARGETS = {0: "sym-active", 1: "sym-preactive", 2: "secret-data", 3: "opaque", 4: "split-key",
           5: "private-key", 6: "public-key", 7: "hmac-key", 8: "other-owner", 9: "wrapping-key"}


def setup_steps(v=(1, 2)):
    """Three exchanges: alice registers nine canary objects in one batch, bob one, alice activates."""
    mask = F.ALL_MASK
    reg = lambda obj, name: {"op": "Register", "obj": obj,
                             "attrs": ([["Cryptographic Usage Mask", mask]] if obj["type"] != "OpaqueData" else [])
                             + [["Name", name]]}
    sym = lambda idx, n, alg="AES": {"type": "SymmetricKey", "value": "$c:key-symmetric:s%d:%d" % (idx, n),
                                     "alg": alg, "len": n * 8, "fmt": "RAW"}
    a = [
        reg(sym(0, 16), "c20-sym-active"),
        reg(sym(1, 32), "c20-sym-preactive"),
        reg({"type": "SecretData", "value": "$c:secret-data:s2:24", "dtype": "PASSWORD"}, "c20-secret"),
        reg({"type": "OpaqueData", "value": "$c:opaque:s3:16", "otype": "NONE"}, "c20-opaque"),
        reg({"type": "SplitKey", "value": "$c:key-split:s4:16", "alg": "AES", "len": 128, "fmt": "RAW",
             "parts": 3, "part_id": 1, "threshold": 2, "method": "XOR"}, "c20-split"),
        reg({"type": "PrivateKey", "value": "$rsa:priv", "alg": "RSA", "len": 1024, "fmt": "PKCS_1"}, "c20-priv"),
        reg({"type": "PublicKey", "value": "$rsa:pub", "alg": "RSA", "len": 1024, "fmt": "PKCS_1"}, "c20-pub"),
        reg({"type": "SymmetricKey", "value": "$c:key-hmac:s7:20", "alg": "HMAC_SHA256", "len": 160,
             "fmt": "RAW"}, "c20-hmac"),
    ]
    b = [reg(sym(8, 16), "c20-bob")]
    w = [reg({"type": "SymmetricKey", "value": "$c:key-wrapping:s9:16", "alg": "AES", "len": 128,
              "fmt": "RAW"}, "c20-wrap")]
    act = [{"op": "Activate", "uid": "$u:%d" % k} for k in (0, 5, 6, 7, 9)]
    return [
        {"label": "setup/register", "req": {"v": list(v), "items": a}},
        {"label": "setup/register-bob", "who": "bob", "req": {"v": list(v), "items": b}},
        {"label": "setup/register-wrap", "req": {"v": list(v), "items": w}},
        {"label": "setup/activate", "req": {"v": list(v), "items": act}},
    ]


_idx_cache = {}


def menu_idx():
    """The standard-store index with the helper objects of the menus replaced by canary objects."""
    if "i" not in _idx_cache:
        _, idx = store.standard_template()
        i2 = dict(idx)
        i2["SymmetricKey/ACTIVE"] = "$u:9"      # wrapping key of Get/wrap-*
        i2["secret2"] = "$u:2"
        i2["bob"] = "$u:8"
        _idx_cache["i"] = (idx, i2)
    return _idx_cache["i"]


_LIFECYCLE = ("Activate", "Revoke", "Destroy")
_menu_cache = {}


def object_probes(k):
    """The object menu aimed at $u:k, life-cycle changing operations last."""
    if k not in _menu_cache:
        idx, i2 = menu_idx()
        m = M.object_menu("$u:%d" % k, i2)
        _menu_cache[k] = ([x for x in m if x[1]["op"] not in _LIFECYCLE]
                          + [x for x in m if x[1]["op"] in _LIFECYCLE])
    return _menu_cache[k]


_ACTIVE_K = (0, 5, 6, 7, 9)
_PREACTIVE_K = (1, 2, 4)


def intent_of(k, item):
    """'state' when the set-up guarantees the addressed object is in the wrong life-cycle state
    for the operation (used to label permission/illegal-operation refusals as illegal-state)."""
    op = item.get("op")
    if k in _PREACTIVE_K and op in ("Encrypt", "Decrypt", "Sign", "MAC", "SignatureVerify", "DeriveKey"):
        return "state"
    if k in _ACTIVE_K and op in ("Activate", "Destroy"):
        return "state"
    if k in _PREACTIVE_K and op == "Revoke" and item.get("code") not in ("KEY_COMPROMISE", "CA_COMPROMISE"):
        return "state"
    return None


def _target_k(item):
    u = item.get("uid") if isinstance(item.get("uid"), str) else (item.get("uids") or [None])[0]
    if isinstance(u, str) and u.startswith("$u:"):
        return int(u[3:])
    return None


def probe_step(label, item, v, ctr, who="alice", **kw):
    req = canarize_req({"v": list(v), "items": [item]}, ctr)
    s = {"label": label, "req": req}
    if who != "alice":
        s["who"] = who
    it = intent_of(_target_k(item), item) if who == "alice" else None
    if it:
        s["intent"] = it
    s.update(kw)
    return s


def history(name, steps, v=(1, 2), setup=True):
    return {"mode": "server", "seed": name, "label": name,
            "steps": (setup_steps(v) if setup else []) + steps}


def chunked(name, probes, v, size, who="alice"):
    out = []
    for i in range(0, len(probes), size):
        ctr = Ctr("p")
        steps = [probe_step(l, it, v, ctr, who) for l, it in probes[i:i + size]]
        out.append(history("%s#%d" % (name, i // size), steps, v))
    return out


# ----------------------------------------------------------------------------- secret-bearing shapes
BLK = "00112233445566778899aabbccddeeff"
AES_CBC = {"alg": "AES", "mode": "CBC", "pad": "PKCS5"}
RSA_SIG = {"alg": "RSA", "hash": "SHA_256", "pad": "PKCS1v15"}


def secret_shapes():
    """(label, request spec with placeholders): one per secret-bearing request field."""
    mask = [["Cryptographic Usage Mask", F.ALL_MASK]]
    S = []
    add = lambda l, items, **kw: S.append((l, dict({"items": items}, **kw)))
    add("Register-SymmetricKey", [{"op": "Register", "attrs": mask, "obj": {
        "type": "SymmetricKey", "value": "$c:key-symmetric:x1:32", "alg": "AES", "len": 256, "fmt": "RAW"}}])
    add("Register-SecretData", [{"op": "Register", "attrs": mask, "obj": {
        "type": "SecretData", "value": "$c:secret-data:x2:20", "dtype": "PASSWORD"}}])
    add("Register-OpaqueData", [{"op": "Register", "attrs": [], "obj": {
        "type": "OpaqueData", "value": "$c:opaque:x3:24", "otype": "NONE"}}])
    add("Register-SplitKey", [{"op": "Register", "attrs": mask, "obj": {
        "type": "SplitKey", "value": "$c:key-split:x4:16", "alg": "AES", "len": 128, "fmt": "RAW",
        "parts": 3, "part_id": 1, "threshold": 2, "method": "XOR"}}])
    add("Register-PrivateKey", [{"op": "Register", "attrs": mask, "obj": {
        "type": "PrivateKey", "value": "$rsa:priv", "alg": "RSA", "len": 1024, "fmt": "PKCS_1"}}])
    add("Register-PrivateKey-PKCS8", [{"op": "Register", "attrs": mask, "obj": {
        "type": "PrivateKey", "value": "$rsa:priv8", "alg": "RSA", "len": 1024, "fmt": "PKCS_8"}}])
    add("Register-wrapped-key", [{"op": "Register", "attrs": mask, "obj": {
        "type": "SymmetricKey", "value": "$c:wrapped-key:x5:24", "alg": "AES", "len": 128, "fmt": "RAW",
        "wrap": {"method": "ENCRYPT", "eki": {"uid": "$u:9", "params": {"mode": "NIST_KEY_WRAP"}},
                 "enc": "NO_ENCODING"}}}])
    add("Encrypt", [{"op": "Encrypt", "uid": "$u:0", "params": AES_CBC, "data": "$c:plaintext:x6:32", "iv": BLK}])
    add("Decrypt", [{"op": "Decrypt", "uid": "$u:0", "params": AES_CBC, "data": "$c:ciphertext:x7:32", "iv": BLK}])
    add("Sign", [{"op": "Sign", "uid": "$u:5", "params": RSA_SIG, "data": "$c:sign-data:x8:24"}])
    add("SignatureVerify", [{"op": "SignatureVerify", "uid": "$u:6", "params": RSA_SIG,
                             "data": "$c:sign-data:x9:24", "sig": "ab" * 128}])
    add("MAC", [{"op": "MAC", "uid": "$u:7", "params": {"alg": "HMAC_SHA256"}, "data": "$c:mac-data:x10:16"}])
    add("DeriveKey", [{"op": "DeriveKey", "uids": ["$u:0"], "method": "PBKDF2",
                       "attrs": [["Cryptographic Length", 128], ["Cryptographic Algorithm", "AES"]],
                       "dp": {"params": {"hash": "SHA_256"}, "data": "$c:derivation-data:x11:16",
                              "salt": "$c:salt:x12:16", "iter": 2}}])
    add("Query+user-credential", [{"op": "Query"}],
        cred=[{"kind": "user", "user": "operator", "password": "$t:password-user:x13:18"}])
    add("Query+device-credential", [{"op": "Query"}],
        cred=[{"kind": "device", "serial": "sn-77", "device": "dev-1", "password": "$t:password-device:x14:18"}])
    add("Get+user-credential", [{"op": "Get", "uid": "$u:0"}],
        cred=[{"kind": "user", "user": "operator", "password": "$t:password-user:x15:24"}])
    add("Register+Encrypt-batch", [
        {"op": "Register", "attrs": mask, "obj": {"type": "SymmetricKey", "value": "$c:key-symmetric:x16:16",
                                                  "alg": "AES", "len": 128, "fmt": "RAW"}},
        {"op": "Encrypt", "uid": "$u:0", "params": AES_CBC, "data": "$c:plaintext:x17:16", "iv": BLK}])
    return S


def decode_grid(v=(1, 2)):
    """TTLV header mutations in front of every canary of every secret-bearing request."""
    muts = []
    for t in (0, 1, 2, 3, 4, 5, 6, 7, 8, 9, 10, 11, 0xFF):
        muts.append({"kind": "at-canary", "field": "type", "val": t})
    for ln in (["abs", 0], ["abs", 1], ["add", -1], ["add", 1], ["add", 8], ["mul", 2],
               ["abs", 0x7FFFFFFF], ["abs", 0xFFFFFFFF]):
        muts.append({"kind": "at-canary", "field": "len", "val": ln})
    for tg in (0x420094, 0x42000F, 0x000000, 0x540001, 0x4200A1):
        muts.append({"kind": "at-canary", "field": "tag", "val": tg})
    for off in (-8, -4, 0, 4, 9, 16):
        muts.append({"kind": "at-canary", "field": "cut", "val": off})
    muts.append({"kind": "cut", "at": -8})
    muts.append({"kind": "cut", "at": 24})
    muts.append({"kind": "append", "data": "42009401000000080000000000000000"})
    steps = []
    for label, req in secret_shapes():
        for which in (0, 1):
            if which == 1 and json.dumps(req).count("$c:") + json.dumps(req).count("$t:") < 2:
                continue
            for m in muts:
                mm = dict(m)
                if m["kind"] == "at-canary":
                    mm["which"] = which
                elif which == 1:
                    continue
                steps.append({"label": "decode/%s" % label, "req": dict(copy.deepcopy(req), v=list(v)),
                              "mut": mm})
    out = []
    for i in range(0, len(steps), 40):
        out.append(history("decode-%d.%d#%d" % (v[0], v[1], i // 40), steps[i:i + 40], v))
    return out


CERTS = ["none", "no-eku", "server-eku", "two-cn", "no-cn"]
AUTHS = ["slugs-down", "slugs-404", "slugs-groups404", "slugs-ok", "slugs-nourl", "unsupported"]


def auth_grid(v=(1, 2)):
    steps = []
    for label, req in secret_shapes():
        for c in CERTS:
            steps.append({"label": "auth-cert/%s" % c, "req": dict(copy.deepcopy(req), v=list(v)), "cert": c})
        for a in AUTHS:
            steps.append({"label": "auth-plugin/%s" % a, "req": dict(copy.deepcopy(req), v=list(v)), "auth": a})
    return [history("auth-%d.%d#%d" % (v[0], v[1], i // 40), steps[i:i + 40], v)
            for i in range(0, len(steps), 40)]


def oversize_grid(v=(1, 2)):
    steps = []
    for k in range(N_SETUP):
        for mx in (1, 64, 128, 200, 256, 400):
            steps.append({"label": "oversize/Get", "req": {"v": list(v), "max": mx,
                                                          "items": [{"op": "Get", "uid": "$u:%d" % k}]}})
    for mx in (1, 100, 300, 1000):
        steps.append({"label": "oversize/Get-batch", "req": {
            "v": list(v), "max": mx, "items": [{"op": "Get", "uid": "$u:%d" % k} for k in (0, 2, 3, 5)]}})
    for label, req in secret_shapes():
        for mx in (1, 120):
            steps.append({"label": "oversize/%s" % label, "req": dict(copy.deepcopy(req), v=list(v), max=mx)})
    if tuple(v) >= (1, 2):
        # a Decrypt that SUCCEEDS (its answer carries the plaintext of an earlier Encrypt of this
        # history) but whose answer is larger than the client allows
        for j, (n, mx) in enumerate(((16, 64), (64, 120), (600, 256), (48, 200))):
            steps.append({"label": "oversize/Encrypt-for-decrypt", "req": {"v": list(v), "items": [
                {"op": "Encrypt", "uid": "$u:0", "params": AES_CBC, "data": "$c:plaintext:ov%d:%d" % (j, n),
                 "iv": BLK}]}})
            steps.append({"label": "oversize/Decrypt-success", "req": {"v": list(v), "max": mx, "items": [
                {"op": "Decrypt", "uid": "$u:0", "params": AES_CBC, "data": "$d:-1", "iv": BLK}]}})
    return [history("oversize-%d.%d#%d" % (v[0], v[1], i // 40), steps[i:i + 40], v)
            for i in range(0, len(steps), 40)]


def batch_grid(v=(1, 2)):
    mask = [["Cryptographic Usage Mask", F.ALL_MASK]]
    regk = lambda i: {"op": "Register", "attrs": mask, "obj": {
        "type": "SymmetricKey", "value": "$c:key-symmetric:b%d:16" % i, "alg": "AES", "len": 128, "fmt": "RAW"}}
    enc = lambda i: {"op": "Encrypt", "uid": "$u:0", "params": AES_CBC, "data": "$c:plaintext:e%d:16" % i, "iv": BLK}
    bad = [("notfound", {"op": "Get", "uid": "9999"}),
           ("denied", {"op": "Get", "uid": "$u:8"}),
           ("state", {"op": "Encrypt", "uid": "$u:1", "params": AES_CBC, "data": "$c:plaintext:q1:16", "iv": BLK}),
           ("invalid", {"op": "Register", "attrs": mask, "otype": "Certificate", "obj": {
               "type": "SymmetricKey", "value": "$c:key-symmetric:q2:16", "alg": "AES", "len": 128, "fmt": "RAW"}}),
           ("unsupported", {"op": "Rekey", "uid": "$u:0"}),
           ("internal-padding", {"op": "Decrypt", "uid": "$u:0", "params": AES_CBC,
                                 "data": "$c:ciphertext:q3:16", "iv": BLK}),
           ("internal-split-prime", {"op": "Register", "attrs": mask, "obj": {
               "type": "SplitKey", "value": "$c:key-split:q4:16", "alg": "AES", "len": 128, "fmt": "RAW",
               "parts": 3, "part_id": 1, "threshold": 2, "method": "POLYNOMIAL_SHARING_PRIME_FIELD",
               "prime": 2 ** 63}}),
           ("crypto-wrap", {"op": "Get", "uid": "$u:7", "wrap": {
               "eki": {"uid": "$u:9", "params": {"mode": "NIST_KEY_WRAP"}}, "enc": "NO_ENCODING"}})]
    steps = []
    n = 0
    for name, b in bad:
        for cont in (None, "STOP", "CONTINUE", "UNDO"):
            for pos in (0, 1, 2):
                n += 1
                items = [regk(n), enc(n), {"op": "Get", "uid": "$u:2"}]
                items.insert(pos, copy.deepcopy(b))
                req = {"v": list(v), "items": items}
                if cont:
                    req["cont"] = cont
                steps.append({"label": "batch/%s" % name, "req": req})
    # batch identifiers / counts
    for variant in ("no-ids", "dup-ids", "count-3", "count-0"):
        n += 1
        items = [regk(n), enc(n)]
        req = {"v": list(v), "items": items}
        if variant == "no-ids":
            items[0]["bid"] = None
            items[1]["bid"] = None
        elif variant == "dup-ids":
            items[0]["bid"] = "01"
            items[1]["bid"] = "01"
        elif variant == "count-3":
            req["count"] = 3
        else:
            req["count"] = 0
        steps.append({"label": "batch/%s" % variant, "req": req})
    # identifier-less items behind an item that locates / reads / stores exactly one canary
    # object (whatever the server takes for the ID placeholder then, the answers and the log stay
    # free of that object's bytes)
    from vlib import hist
    firsts = [("locate-%s" % nm, {"op": "Locate", "attrs": [["Name", "c20-" + nm]]})
              for nm in ("sym-active", "sym-preactive", "secret", "opaque", "split", "priv", "hmac")]
    firsts += [("get-secret", {"op": "Get", "uid": "$u:2"}), ("register", None),
               ("locate-all", {"op": "Locate"}), ("locate-none", {"op": "Locate", "attrs": [["Name", "c20-nobody"]]})]
    for fname, first in firsts:
        for op in hist.PLACEHOLDER_OPS:
            if op in ("Encrypt", "MAC", "Sign") and tuple(v) < (1, 2):
                continue
            n += 1
            items = [copy.deepcopy(first) if first else regk(n), hist.placeholder_item(op, v)]
            steps.append({"label": "batch/placeholder-after-%s" % fname.split("-")[0],
                          "req": {"v": list(v), "items": items, "cont": "CONTINUE"}})
    return [history("batch-%d.%d#%d" % (v[0], v[1], i // 40), steps[i:i + 40], v)
            for i in range(0, len(steps), 40)]


def derive_grid(v=(1, 2)):
    """DeriveKey from two or three canary objects in every order (keys, a secret, an HMAC key), with
    and without derivation data in the request: the objects that are looked at on the way to the
    one that supplies the data are secrets too."""
    import itertools
    la = [["Cryptographic Length", 128], ["Cryptographic Algorithm", "AES"], ["Cryptographic Usage Mask", 12]]
    steps = []
    objs = ["$u:0", "$u:2", "$u:7", "$u:1"]
    n = 0
    for k in (2, 3):
        for uids in itertools.permutations(objs, k):
            for me, extra in (("HMAC", {}), ("HASH", {}), ("PBKDF2", {"salt": "0102", "iter": 2}),
                              ("NIST800_108_C", {})):
                for data in (None, "$c:derivation-data:dd%d:16"):
                    n += 1
                    dp = dict({"params": {"hash": "SHA_256"}}, **extra)
                    if data:
                        dp["data"] = data % n
                    steps.append({"label": "derive/%d-objects-%s-%s" % (k, me, "data" if data else "no-data"),
                                  "req": {"v": list(v), "items": [{"op": "DeriveKey", "uids": list(uids), "method": me,
                                                                   "attrs": la, "dp": dp}]}})
    return [history("derive-%d.%d#%d" % (v[0], v[1], i // 48), steps[i:i + 48], v)
            for i in range(0, len(steps), 48)]


def internal_error_histories():
    """The stored General-Failure triggers of C13 (known/C13-*.json, whether still open or fixed in
    the repo meanwhile) with their secret fields made canaries: once on the bare store, once after
    the set-up with a password credential on the request."""
    out = []
    import glob
    for path in sorted(glob.glob(os.path.join(core.HOME, "known", "C13-*.json"))):
        try:
            data = core.load_replay(path)
        except Exception:
            continue
        spec = data["spec"] if isinstance(data, dict) and "spec" in data else data
        if not isinstance(spec, dict) or not spec.get("reqs"):
            continue
        name = os.path.basename(path).replace(".json", "")
        for variant in ("bare", "setup+cred"):
            ctr = Ctr("k")
            steps = []
            for req in spec.get("reqs", []):
                req = dict(req)
                who = req.pop("who", spec.get("who", "alice"))
                if variant == "setup+cred":
                    req["cred"] = [{"kind": "user", "user": "operator", "password": "x"}]
                s = {"label": "internal/%s" % name, "req": canarize_req(req, ctr, upgrade=False)}
                if who != "alice":
                    s["who"] = who
                steps.append(s)
            out.append(history("known-%s-%s" % (name, variant), steps, setup=(variant != "bare")))
    return out


def header_histories(v):
    ctr = Ctr("h")
    steps = []
    for label, req in M.header_menu():
        steps.append({"label": label, "req": canarize_req(dict(req, v=list(v)), ctr)})
    # header variations around secret-bearing requests
    for label, req in secret_shapes():
        for hl, extra in (("ts-stale", {"ts": "stale"}), ("ts-future", {"ts": "future"}),
                          ("async", {"async": True}), ("undo", {"cont": "UNDO"}),
                          ("version-unsupported", {"v": [9, 9]}), ("count-mismatch", {"count": 5})):
            steps.append({"label": "hdr/%s" % hl, "req": dict(dict(copy.deepcopy(req), v=list(v)), **extra)})
    return [history("header-%d.%d#%d" % (v[0], v[1], i // 40), steps[i:i + 40], v)
            for i in range(0, len(steps), 40)]


def grid_histories(tier):
    quick = tier == "quick"
    idx, i2 = menu_idx()
    out = []
    vmain = (1, 2)
    size = 40
    for k in range(N_SETUP):
        who = "alice"
        out += chunked("obj-%s" % TARGETS[k], object_probes(k), vmain, size, who)
    # the same targets seen by somebody who is not the owner (permission denied on every operation)
    out += chunked("obj-sym-active-as-bob", object_probes(0)[::(7 if quick else 1)], vmain, size, "bob")
    # attribute operations on canary objects
    for v in ((1, 2), (2, 0)):
        for k in (0, 2, 5):
            pr = M.attr_menu("$u:%d" % k, v)
            out += chunked("attr-%s-%d.%d" % (TARGETS[k], v[0], v[1]), pr[::(3 if quick else 1)], v, size)
    for v in ((1, 2), (2, 0)) if quick else H.VERSIONS:
        sm = M.store_menu(i2, v)
        out += chunked("store-%d.%d" % v, sm[::(2 if quick and v != vmain else 1)], v, size)
        out += header_histories(v)
        out += decode_grid(v)
        out += auth_grid(v)
        out += oversize_grid(v)
        out += batch_grid(v)
    if not quick:
        for v in ((1, 0), (1, 4), (2, 0)):
            for k in range(N_SETUP):
                out += chunked("obj-%s-%d.%d" % (TARGETS[k], v[0], v[1]), object_probes(k), v, size)
    # every creating operation x attribute lists that are accepted or refused at different points
    # (while parsing, when applied to the new object, at commit), under the versions that know the
    # 1.4 / 2.0 attributes: the key has been generated (or received) by then
    from vlib import hist as _hist
    for v in ((1, 4), (2, 0)) if quick else ((1, 2), (1, 4), (2, 0)):
        creators = [(l, it) for l, it in _hist.pool_items(idx, v)
                    if it["op"] in ("Create", "CreateKeyPair", "Register", "DeriveKey")]
        for pos in ("common", "public", "private"):
            for val in (True, False):
                it = F.keypair_item()
                it[pos] = it[pos] + [["Sensitive", val]]
                creators.append(("CreateKeyPair-sensitive-%s-%s" % (pos, val), it))
        for val in (True, False):
            creators.append(("Create-sensitive-%s" % val, F.create_item(extra_attrs=[["Sensitive", val]])))
            creators.append(("Register-canary-sensitive-%s" % val, {
                "op": "Register", "attrs": [["Cryptographic Usage Mask", F.ALL_MASK], ["Sensitive", val]],
                "obj": {"type": "SymmetricKey", "value": "$c:key-symmetric:cs%s:32" % val, "alg": "AES",
                        "len": 256, "fmt": "RAW"}}))
        # texts longer than any column of the store was declared for
        for n in (50, 51, 64, 300):
            for attr in ("Operation Policy Name", "Name", "Object Group"):
                if attr == "Operation Policy Name" and tuple(v) >= (2, 0):
                    continue
                creators.append(("Register-canary-long-%s-%d" % (attr.split()[0], n), {
                    "op": "Register", "attrs": [["Cryptographic Usage Mask", F.ALL_MASK], [attr, "L" * n]],
                    "obj": {"type": "SymmetricKey", "value": "$c:key-symmetric:lg%s%d:32" % (attr[0], n),
                            "alg": "AES", "len": 256, "fmt": "RAW"}}))
                creators.append(("Create-long-%s-%d" % (attr.split()[0], n), F.create_item(extra_attrs=[[attr, "L" * n]])))
        out += chunked("creators-%d.%d" % v, creators, v, 30)
    # ... and a requester whose name is (client certificate common names go up to 64 characters)
    long_who = "u" * 59
    out += chunked("creators-long-identity", [
        ("Create-as-long-identity", F.create_item()),
        ("CreateKeyPair-as-long-identity", F.keypair_item()),
        ("Register-canary-as-long-identity", {
            "op": "Register", "attrs": [["Cryptographic Usage Mask", F.ALL_MASK]],
            "obj": {"type": "SymmetricKey", "value": "$c:key-symmetric:lid:32", "alg": "AES", "len": 256, "fmt": "RAW"}}),
        ("Register-secret-as-long-identity", {
            "op": "Register", "attrs": [["Cryptographic Usage Mask", F.ALL_MASK]],
            "obj": {"type": "SecretData", "value": "$c:secret-data:lid2:24", "dtype": "PASSWORD"}})],
        (1, 2), 30, long_who)
    out.append(many_keys_history())
    for v in ((1, 2),) if quick else ((1, 2), (2, 0)):
        out += derive_grid(v)
    out += internal_error_histories()
    # control: with DEBUG switched on the session logs every frame in hex - records below INFO
    # must be seen by the handler and left out of the verdict
    for h in decode_grid(vmain)[:2] + oversize_grid(vmain)[:1]:
        out.append(dict(copy.deepcopy(h), debug=True, seed=h["seed"] + "-debug", label="debugctl-" + h["label"]))
    return out


def many_keys_history(n=20):
    """Many distinct keys used again and again in one server process (whatever the server keeps
    per key between requests is filled, overflows and is evicted): n key pairs and n AES keys are
    made by the server, every private key signs, every AES key encrypts and MACs, the first ones
    twice, in three rounds."""
    v = (1, 2)
    steps = []
    u0 = 0                     # no setup objects: $u:0.. are the objects of this history
    for i in range(n):
        steps.append({"label": "many/CreateKeyPair", "req": {"v": list(v), "items": [F.keypair_item()]}})
        steps.append({"label": "many/Create", "req": {"v": list(v), "items": [F.create_item()]}})
    # per round i the objects are: private 3i, public 3i+1, AES 3i+2 (identifiers in response order)
    for i in range(n):
        steps.append({"label": "many/Activate", "req": {"v": list(v), "items": [
            {"op": "Activate", "uid": "$u:%d" % (u0 + 3 * i), "bid": "01"},
            {"op": "Activate", "uid": "$u:%d" % (u0 + 3 * i + 2), "bid": "02"}], "cont": "CONTINUE"}})
    order = []
    for rnd in range(3):
        order += [0, 0, 1] + list(range(n)) + [0, 1]
    for k, i in enumerate(order):
        steps.append({"label": "many/Sign", "req": {"v": list(v), "items": [
            {"op": "Sign", "uid": "$u:%d" % (u0 + 3 * i), "params": RSA_SIG, "data": "$c:sign-data:mk%d:16" % k}]}})
        if k % 2 == 0:
            steps.append({"label": "many/Encrypt", "req": {"v": list(v), "items": [
                {"op": "Encrypt", "uid": "$u:%d" % (u0 + 3 * i + 2), "params": AES_CBC,
                 "data": "$c:plaintext:mk%d:16" % k, "iv": BLK}]}})
            steps.append({"label": "many/MAC", "req": {"v": list(v), "items": [
                {"op": "MAC", "uid": "$u:%d" % (u0 + 3 * i + 2), "params": {"alg": "HMAC_SHA256"},
                 "data": "$c:mac-data:mk%d:16" % k}]}})
    return history("many-keys", steps, v, setup=False)


# ----------------------------------------------------------------------------- client histories
def client_base_calls(api):
    """A call sequence touching every secret-bearing client method, successes and failures."""
    pie = api == "pie"
    masks = ["ENCRYPT", "DECRYPT", "MAC_GENERATE", "MAC_VERIFY", "DERIVE_KEY", "WRAP_KEY", "UNWRAP_KEY"]
    mask_all = [["Cryptographic Usage Mask", F.ALL_MASK]]
    C = []

    def reg(kind, value, **kw):
        if pie:
            o = dict({"kind": {"OpaqueData": "OpaqueObject"}.get(kind, kind), "value": value}, **kw)
            if kind in ("SymmetricKey", "SplitKey", "SecretData"):
                o.setdefault("masks", masks)
            if kind == "PrivateKey":
                o.setdefault("masks", ["SIGN"])
            C.append({"api": api, "m": "register", "args": {"obj": o}})
        else:
            o = dict({"type": kind, "value": value}, **kw)
            C.append({"api": api, "m": "register",
                      "args": {"obj": o, "attrs": [] if kind == "OpaqueData" else mask_all}})

    reg("SymmetricKey", "$c:key-symmetric:c0:16", alg="AES", len=128)                    # $u:0
    C.append({"api": api, "m": "activate", "args": {"uid": "$u:0"}})
    reg("SymmetricKey", "$c:key-symmetric:c1:32", alg="AES", len=256)                    # $u:1 pre-active
    reg("SecretData", "$c:secret-data:c2:24", dtype="PASSWORD")                          # $u:2
    reg("OpaqueData", "$c:opaque:c3:16", otype="NONE")                                   # $u:3
    reg("SplitKey", "$c:key-split:c4:16", alg="AES", len=128, **({} if pie else {"fmt": "RAW"}))  # $u:4
    reg("PrivateKey", "$rsa:priv", alg="RSA", len=1024, fmt="PKCS_1")                    # $u:5
    C.append({"api": api, "m": "activate", "args": {"uid": "$u:5"}})
    reg("SymmetricKey", "$c:key-wrapping:c6:16", alg="AES", len=128)                     # $u:6
    C.append({"api": api, "m": "activate", "args": {"uid": "$u:6"}})
    C.append({"api": api, "m": "create", "args": {"alg": "AES", "len": 256, "masks": ["ENCRYPT", "DECRYPT"],
                                                   "attrs": [["Cryptographic Algorithm", "AES"],
                                                             ["Cryptographic Length", 256]] + mask_all}})  # $u:7
    for k in (0, 1, 2, 3, 4, 5, 7):
        C.append({"api": api, "m": "get", "args": {"uid": "$u:%d" % k}})
    if pie:
        C.append({"api": api, "m": "get", "args": {"uid": "$u:0", "kws": {"uid": "$u:6"}}})
        C.append({"api": api, "m": "get", "args": {"uid": "$u:2", "kws": {"uid": "$u:6"}}})     # 24 bytes: ok
        C.append({"api": api, "m": "get", "args": {"uid": "$u:5", "kws": {"uid": "$u:6"}}})     # not mult of 8
        C.append({"api": api, "m": "get", "args": {"uid": "$u:0", "kws": {"uid": "$u:1"}}})     # wrap key inactive
    enc = {"uid": "$u:0", "params": AES_CBC, "iv": BLK}
    C.append({"api": api, "m": "encrypt", "args": dict(enc, data="$c:plaintext:c10:32")})
    C.append({"api": api, "m": "decrypt", "args": dict(enc, data="$d:0")})
    C.append({"api": api, "m": "decrypt", "args": dict(enc, data="$c:ciphertext:c11:32")})      # bad padding
    C.append({"api": api, "m": "encrypt", "args": dict(enc, uid="$u:1", data="$c:plaintext:c12:16")})   # inactive
    C.append({"api": api, "m": "encrypt", "args": dict(enc, uid="9999", data="$c:plaintext:c13:16")})   # not found
    C.append({"api": api, "m": "encrypt", "args": dict(enc, iv="ab" * 5, data="$c:plaintext:c14:16")})  # bad IV
    C.append({"api": api, "m": "encrypt", "args": {"uid": "$u:0", "data": "$c:plaintext:c15:16"}})      # no params
    C.append({"api": api, "m": "sign", "args": {"uid": "$u:5", "params": RSA_SIG, "data": "$c:sign-data:c16:24"}})
    C.append({"api": api, "m": "sign", "args": {"uid": "$u:0", "params": RSA_SIG, "data": "$c:sign-data:c17:24"}})
    C.append({"api": api, "m": "signature_verify", "args": {"uid": "$u:5", "params": RSA_SIG,
                                                            "data": "$c:sign-data:c18:24", "sig": "ab" * 128}})
    if pie:
        C.append({"api": api, "m": "mac", "args": {"uid": "$u:0", "alg": "HMAC_SHA256", "data": "$c:mac-data:c19:16"}})
        C.append({"api": api, "m": "mac", "args": {"uid": "$u:3", "alg": "HMAC_SHA256", "data": "$c:mac-data:c20:16"}})
    else:
        C.append({"api": api, "m": "mac", "args": {"uid": "$u:0", "params": {"alg": "HMAC_SHA256"},
                                                   "data": "$c:mac-data:c19:16"}})
        C.append({"api": api, "m": "mac", "args": {"uid": "$u:3", "params": {"alg": "HMAC_SHA256"},
                                                   "data": "$c:mac-data:c20:16"}})
    C.append({"api": api, "m": "derive_key", "args": {
        "uids": ["$u:0"], "method": "PBKDF2", "len": 128, "alg": "AES",
        "dp": {"params": {"hash": "SHA_256"}, "salt": "$c:salt:c21:16", "iter": 2}}})
    C.append({"api": api, "m": "derive_key", "args": {
        "uids": ["$u:0"], "method": "HASH", "len": 128, "alg": "AES",
        "dp": {"params": {"hash": "SHA_256"}, "data": "$c:derivation-data:c22:16"}}})
    C.append({"api": api, "m": "derive_key", "args": {
        "uids": ["$u:1"], "method": "HMAC", "len": 12, "alg": "AES",
        "dp": {"params": {"hash": "SHA_256"}, "data": "$c:derivation-data:c23:16", "salt": "$c:salt:c24:16"}}})
    C.append({"api": api, "m": "derive_key", "args": {
        "uids": ["$u:0"], "method": "ENCRYPT", "len": 128, "alg": "AES",
        "dp": {"params": dict(AES_CBC), "data": "$c:derivation-data:c25:16", "iv": "ab" * 3}}})
    C.append({"api": api, "m": "get", "args": {"uid": "9999"}})
    C.append({"api": api, "m": "get", "args": {"uid": "26"}})            # bob's object in the store
    C.append({"api": api, "m": "get_attributes", "args": {"uid": "$u:0"}})
    C.append({"api": api, "m": "locate", "args": {}})
    C.append({"api": api, "m": "destroy", "args": {"uid": "$u:0"}})      # active: refused
    C.append({"api": api, "m": "revoke", "args": {"uid": "$u:0", "code": "KEY_COMPROMISE"}})
    C.append({"api": api, "m": "destroy", "args": {"uid": "$u:0"}})
    C.append({"api": api, "m": "get", "args": {"uid": "$u:0"}})          # gone
    # registrations the server refuses
    reg("SymmetricKey", "$c:key-symmetric:c30:16", alg="AES", len=256)   # length mismatch
    if not pie:
        C.append({"api": api, "m": "register", "args": {
            "attrs": mask_all, "obj": {"type": "SplitKey", "value": "$c:key-split:c31:16", "alg": "AES",
                                       "len": 128, "fmt": "RAW", "method": "POLYNOMIAL_SHARING_PRIME_FIELD",
                                       "prime": 2 ** 63}}})
        C.append({"api": api, "m": "get", "args": {"uid": "$u:1", "cred": {"password": "$t:password-device:c32:18"}}})
        C.append({"api": api, "m": "encrypt", "args": dict(enc, uid="$u:1", data="$c:plaintext:c33:16",
                                                           cred={"password": "$t:password-device:c34:18"})})
    return C


CLIENT_FAULTS = [
    None,
    {"kind": "truncate", "at": -9},
    {"kind": "truncate", "at": 40},
    {"kind": "cut-fixed", "at": -16},
    {"kind": "at-canary", "field": "type", "val": 7},
    {"kind": "at-canary", "field": "type", "val": 2},
    {"kind": "at-canary", "field": "len", "val": ["add", 1]},
    {"kind": "at-canary", "field": "len", "val": ["abs", 0x7FFFFFFF]},
    {"kind": "at-canary", "field": "cut", "val": 4},
    {"kind": "hdr", "pos": 3, "field": "type", "val": 9},
    {"kind": "hdr", "pos": 1, "field": "len", "val": 8},
    {"kind": "garbage", "data": "42007a01000000084200ff0100000000"},
    {"kind": "empty"},
]


def client_histories(tier):
    out = []
    versions = [(1, 2), (2, 0)] if tier == "quick" else H.VERSIONS
    for api in ("pie", "proxy"):
        for v in versions:
            for ci, cred in enumerate((None, ["operator", "$t:password-user:cc:18"])):
                if tier == "quick" and v != (1, 2) and cred is None:
                    continue
                for fi, fault in enumerate(CLIENT_FAULTS):
                    calls = client_base_calls(api)
                    for c in calls:
                        if fault:
                            c["fault"] = dict(fault)
                    name = "client-%s-%d.%d-cred%d-fault%d" % (api, v[0], v[1], ci, fi)
                    out.append({"mode": "client", "seed": name, "label": name, "v": list(v),
                                "cred": cred, "calls": calls})
                # failures of the session in front of the engine, seen by the client
                for how in [{"cert": c} for c in CERTS] + [{"auth": a} for a in AUTHS]:
                    calls = [dict(c, **how) for c in client_base_calls(api)[:14]]
                    name = "client-%s-%d.%d-cred%d-%s" % (api, v[0], v[1], ci, list(how.values())[0])
                    out.append({"mode": "client", "seed": name, "label": name, "v": list(v),
                                "cred": cred, "calls": calls})
    return out


# ----------------------------------------------------------------------------- random histories
_ENUM_LISTS = [M.MODES, M.PADS, M.HASHES, M.ALGS, M.DSAS, M.REVOKE_CODES, M.KEY_FORMATS,
               M.DERIVATION_METHODS, M.QUERY_FUNCTIONS, list(H.OBJECT_TYPES)]
_INTS = [0, 1, 2, 7, 8, 12, 16, 63, 64, 128, 255, 256, 1024, 2 ** 31 - 1, -1, -2 ** 31]
_HEXCHARS = set("0123456789abcdef")


def _perturb(draw, node, depth=0):
    if isinstance(node, dict):
        out = {}
        for k, v in node.items():
            if k in ("op", "uid", "uids", "bid", "tag") and draw(st.integers(0, 19)) != 0:
                out[k] = v
                continue
            if k not in ("op", "type", "obj", "items") and depth > 0 and draw(st.integers(0, 14)) == 0:
                continue
            out[k] = _perturb(draw, v, depth + 1)
        return out
    if isinstance(node, list):
        return [_perturb(draw, x, depth + 1) for x in node]
    if isinstance(node, bool) or node is None:
        return node
    if draw(st.integers(0, 3)) != 0:
        return node
    if isinstance(node, int):
        return draw(st.sampled_from(_INTS))
    if isinstance(node, str):
        if node.startswith("$"):
            return node
        for lst in _ENUM_LISTS:
            if node in lst:
                return draw(st.sampled_from(lst))
        if node and len(node) % 2 == 0 and set(node) <= _HEXCHARS:
            n = draw(st.sampled_from([0, 1, 7, 8, 12, 15, 16, 17, 24, 32, 33, 64]))
            return draw(st.binary(min_size=n, max_size=n)).hex()
    return node


_PLACEHOLDER = re.compile(r'"(\$[ct]:[a-z\-]+:)([A-Za-z0-9_]+)(:\d+)"')


def _rename(node, prefix):
    """The same spec with every canary counter prefixed (fresh canaries for a repeated shape)."""
    return json.loads(_PLACEHOLDER.sub(lambda m: '"%s%s%s%s"' % (m.group(1), prefix, m.group(2), m.group(3)),
                                       json.dumps(node)))


def mutation_s():
    at = st.fixed_dictionaries({
        "kind": st.just("at-canary"), "which": st.integers(0, 3),
        "field": st.sampled_from(["type", "len", "tag", "cut", "byte"])}).flatmap(
        lambda d: st.fixed_dictionaries({
            "type": st.integers(0, 12), "tag": st.sampled_from([0x420094, 0x42000F, 0x420043, 0x4200A1, 0]),
            "len": st.tuples(st.sampled_from(["abs", "add", "mul"]), st.integers(-9, 40)).map(list),
            "cut": st.integers(-12, 40), "byte": st.tuples(st.integers(0, 7), st.integers(1, 255)).map(list),
        }).map(lambda vals: dict(d, val=vals[d["field"]])))
    hdr = st.fixed_dictionaries({"kind": st.just("hdr"), "pos": st.integers(0, 200),
                                 "field": st.sampled_from(["tag", "type", "len"]),
                                 "val": st.one_of(st.integers(0, 12), st.integers(0, 2 ** 32 - 1),
                                                  st.sampled_from([8, 16, 24, 0x7FFFFFFF]))})
    flip = st.fixed_dictionaries({"kind": st.just("flip"), "pos": st.integers(0, 4000),
                                  "val": st.integers(0, 255)})
    cut = st.fixed_dictionaries({"kind": st.just("cut"), "at": st.integers(-200, 400),
                                 "fix": st.sampled_from([True, True, False])})
    garbage = st.fixed_dictionaries({"kind": st.just("garbage"),
                                     "data": st.binary(min_size=8, max_size=64).map(lambda b: b.hex())})
    return st.one_of(at, at, hdr, hdr, flip, cut, garbage)


@st.composite
def random_server_case(draw):
    idx, i2 = menu_idx()
    shapes = secret_shapes()
    nsteps = draw(st.integers(3, 12))
    ctr = Ctr("r")
    steps = []
    v0 = draw(st.sampled_from(H.VERSIONS))
    for _ in range(nsteps):
        v = draw(st.sampled_from([v0, v0, v0] + H.VERSIONS))
        pool = draw(st.sampled_from(["object", "object", "object", "attr", "store", "shape", "shape", "batch"]))
        k = draw(st.integers(0, N_SETUP - 1))
        intent = None
        if pool == "object":
            menu = object_probes(k)
            label, item = menu[draw(st.integers(0, len(menu) - 1))]
            items = [_perturb(draw, copy.deepcopy(item)) if draw(st.booleans()) else copy.deepcopy(item)]
            intent = intent_of(k, item)
        elif pool == "attr":
            menu = M.attr_menu("$u:%d" % k, v)
            label, item = menu[draw(st.integers(0, len(menu) - 1))]
            items = [copy.deepcopy(item)]
        elif pool == "store":
            menu = M.store_menu(i2, v)
            label, item = menu[draw(st.integers(0, len(menu) - 1))]
            items = [_perturb(draw, copy.deepcopy(item)) if draw(st.booleans()) else copy.deepcopy(item)]
        elif pool == "shape":
            label, req0 = shapes[draw(st.integers(0, len(shapes) - 1))]
            items = None
        else:
            label = "batch/random"
            items = []
            for _j in range(draw(st.integers(2, 4))):
                menu = object_probes(draw(st.integers(0, N_SETUP - 1)))
                items.append(copy.deepcopy(menu[draw(st.integers(0, len(menu) - 1))][1]))
        if items is None:
            req = copy.deepcopy(req0)
            # fresh counters: the same shape may occur several times in a history
            req = _rename(req, "x%s_" % ctr.next())
            req["v"] = list(v)
        else:
            req = canarize_req({"v": list(v), "items": items}, ctr)
        if "cred" not in req and draw(st.integers(0, 4)) == 0:
            kind = draw(st.sampled_from(["user", "device"]))
            c = {"kind": kind, "password": "$t:password-%s:%s:18" % (kind, ctr.next())}
            c.update({"user": "operator"} if kind == "user" else {"serial": "sn-1", "device": "d-1"})
            req["cred"] = [c]
        if len(req["items"]) > 1 and draw(st.booleans()):
            req["cont"] = draw(st.sampled_from(["STOP", "CONTINUE", "UNDO"]))
        if draw(st.integers(0, 9)) == 0:
            req["max"] = draw(st.sampled_from([1, 64, 128, 200, 256, 400, 1000]))
        if draw(st.integers(0, 14)) == 0:
            req["ts"] = draw(st.sampled_from(["now", "stale", "future"]))
        step = {"label": "random/" + label.split("/")[0], "req": req}
        if intent:
            step["intent"] = intent
        if draw(st.integers(0, 5)) == 0:
            step["who"] = "bob"
        if draw(st.integers(0, 3)) == 0:
            step["mut"] = draw(mutation_s())
        if draw(st.integers(0, 11)) == 0:
            step["cert"] = draw(st.sampled_from(CERTS))
        if draw(st.integers(0, 11)) == 0:
            step["auth"] = draw(st.sampled_from(AUTHS))
        if draw(st.integers(0, 4)) == 0:
            step["chunks"] = draw(st.lists(st.integers(1, 300), min_size=1, max_size=4))
        steps.append(step)
    seed = draw(st.integers(0, 2 ** 40))
    return {"mode": "server", "seed": "r%d" % seed, "label": "random", "steps": setup_steps(v0) + steps}


def response_fault_s():
    return st.one_of(
        st.fixed_dictionaries({"kind": st.just("truncate"), "at": st.integers(-64, 400)}),
        st.fixed_dictionaries({"kind": st.just("cut-fixed"), "at": st.integers(-64, 400)}),
        st.fixed_dictionaries({"kind": st.just("flip"), "pos": st.integers(0, 2000), "val": st.integers(0, 255)}),
        st.fixed_dictionaries({"kind": st.just("hdr"), "pos": st.integers(0, 60),
                               "field": st.sampled_from(["tag", "type", "len"]),
                               "val": st.one_of(st.integers(0, 12), st.sampled_from([8, 16, 0x7FFFFFFF]))}),
        st.fixed_dictionaries({"kind": st.just("at-canary"), "which": st.integers(0, 2),
                               "field": st.just("type"), "val": st.integers(0, 12)}),
        st.fixed_dictionaries({"kind": st.just("at-canary"), "which": st.integers(0, 2), "field": st.just("len"),
                               "val": st.tuples(st.sampled_from(["abs", "add", "mul"]), st.integers(-9, 40)).map(list)}),
        st.fixed_dictionaries({"kind": st.just("at-canary"), "which": st.integers(0, 2), "field": st.just("cut"),
                               "val": st.integers(-12, 40)}),
        st.fixed_dictionaries({"kind": st.just("garbage"),
                               "data": st.binary(min_size=8, max_size=48).map(lambda b: b.hex())}),
        st.just({"kind": "empty"}))


@st.composite
def random_client_case(draw):
    api = draw(st.sampled_from(["pie", "pie", "proxy"]))
    v = draw(st.sampled_from(H.VERSIONS))
    base = client_base_calls(api)
    head = base[:12]            # registrations / activations / create
    tail = base[12:]
    n = draw(st.integers(3, 14))
    calls = [copy.deepcopy(c) for c in head]
    tag = "y%d_" % draw(st.integers(0, 10 ** 6))
    for _ in range(n):
        c = copy.deepcopy(tail[draw(st.integers(0, len(tail) - 1))])
        c = _rename(c, "%s%d_" % (tag, len(calls)))
        if isinstance(c["args"].get("uid"), str) and draw(st.integers(0, 5)) == 0:
            c["args"]["uid"] = draw(st.sampled_from(["$u:%d" % k for k in range(8)] + ["9999", "26", "2"]))
        calls.append(c)
    for c in calls:
        r = draw(st.integers(0, 9))
        if r < 3:
            c["fault"] = draw(response_fault_s())
        elif r == 3:
            c["cert"] = draw(st.sampled_from(CERTS))
        elif r == 4:
            c["auth"] = draw(st.sampled_from(AUTHS))
        if draw(st.integers(0, 4)) == 0:
            c["chunks"] = draw(st.lists(st.integers(1, 200), min_size=1, max_size=4))
    cred = draw(st.sampled_from([None, ["operator", "$t:password-user:cc:18"]]))
    seed = draw(st.integers(0, 2 ** 40))
    return {"mode": "client", "seed": "rc%d" % seed, "label": "random-client", "v": list(v),
            "cred": cred, "calls": calls}


# ----------------------------------------------------------------------------- running
def replay(spec):
    return R.run_case(spec)["buckets"]


def _record(col, spec, res, extra_classes=()):
    col.record(spec, nontrivial=res["nontrivial"], classes=list(extra_classes) + res["classes"],
               buckets=res["buckets"])
    for k in res["kinds"]:
        col.bump("cases_with_canary_kind:" + k)
    if res.get("below_info"):
        col.bump("records_below_INFO_ignored", res["below_info"])


# ----------------------------------------------------------------------------- client configuration
_PW = "$t:password:cfg:18"
# how the secret sits in the value of the password option: plain, and next to every character
# that means something to an INI parser (interpolation %, comment marks, separators, quotes)
PW_SHAPES = [
    [_PW], ["%", _PW], [_PW, "%"], ["$t:password:cfga:9", "%", "$t:password:cfgb:9"],
    ["%(", _PW, ")s"], ["%(other)s", _PW], ["%%", _PW], [_PW, "%(host)s"], ["%(", _PW],
    [_PW, " ; trailing"], [_PW, " # trailing"], ["'", _PW, "'"], ['"', _PW, '"'],
    [_PW, "=", "$t:password:cfgc:9"], [" ", _PW, " "], ["${", _PW, "}"], ["$", _PW],
    ["None", _PW], [_PW, "\\"], ["\t", _PW],
]
_BASE_OPTS = [["host", ["127.0.0.1"]], ["port", ["5696"]], ["keyfile", ["/nonexistent/key.pem"]],
              ["certfile", ["/nonexistent/cert.pem"]], ["cert_reqs", ["CERT_REQUIRED"]],
              ["ssl_version", ["PROTOCOL_SSLv23"]], ["ca_certs", ["/nonexistent/ca.pem"]],
              ["do_handshake_on_connect", ["True"]], ["suppress_ragged_eofs", ["True"]]]
_BAD_OPTS = [["port", ["not-a-number"]], ["port", ["%"]], ["ssl_version", ["PROTOCOL_NONE"]],
             ["cert_reqs", ["%(nothing)s"]], ["do_handshake_on_connect", ["maybe"]],
             ["host", ["%(password)s"]], ["keyfile", ["%(password)s"]], ["host", [""]]]


def config_grid():
    """Every password shape x api x {password only, username+password, a broken neighbour option,
    password in [DEFAULT], client pointed at a missing section}."""
    out = []
    for si, shape in enumerate(PW_SHAPES):
        for api in ("pie", "proxy"):
            variants = [
                ("pw", [["client", _BASE_OPTS + [["password", shape]]]], "client"),
                ("userpw", [["client", _BASE_OPTS + [["username", ["operator"]],
                                                      ["password", shape]]]], "client"),
                ("default-section", [["DEFAULT", [["password", shape]]],
                                     ["client", _BASE_OPTS + [["username", ["operator"]]]]],
                 "client"),
                ("missing-section", [["other", _BASE_OPTS + [["username", ["operator"]],
                                                             ["password", shape]]]], "client"),
            ]
            for bi, bad in enumerate(_BAD_OPTS):
                opts = [o for o in _BASE_OPTS if o[0] != bad[0]] + [bad]
                variants.append(("bad%d" % bi, [["client", opts + [["username", ["operator"]],
                                                                    ["password", shape]]]],
                                 "client"))
            for name, sections, cfg in variants:
                label = "config-%s-shape%d-%s" % (api, si, name)
                out.append({"mode": "client-config", "seed": label, "label": label, "api": api,
                            "sections": sections, "config": cfg})
    return out


@st.composite
def random_config_case(draw):
    seed = draw(st.integers(0, 10 ** 6))
    deco = st.sampled_from(["", "%", "%%", "%(", ")s", "%(x)s", ";", "#", "=", ":", " ", "'", '"',
                            "$", "${", "}", "\\", "[", "]", "None", "\t"])
    nparts = draw(st.integers(1, 3))
    shape = []
    for i in range(nparts):
        shape.append(draw(deco))
        shape.append("$t:password:r%d:%d" % (i, draw(st.sampled_from([9, 12, 18, 24]))))
    shape.append(draw(deco))
    shape = [x for x in shape if x != ""]
    if shape and shape[0] in ("#", ";", "[", " ", "\t", "=", ":"):
        shape = shape[1:] + [shape[0]]     # a leading comment mark would just hide the option
    opts = [o for o in _BASE_OPTS if draw(st.integers(0, 4)) != 0]
    for bad in _BAD_OPTS:
        if draw(st.integers(0, 7)) == 0:
            opts = [o for o in opts if o[0] != bad[0]] + [bad]
    user = draw(st.sampled_from([None, ["operator"], ["$t:password:ru:12"], ["%"]]))
    if user:
        opts.append(["username", user])
    where = draw(st.sampled_from(["client", "client", "client", "DEFAULT", "other"]))
    sections = [["client", opts]]
    if where == "client":
        k = draw(st.integers(0, len(opts)))
        sections = [["client", opts[:k] + [["password", shape]] + opts[k:]]]
    else:
        sections = [[where, [["password", shape]]], ["client", opts]]
    return {"mode": "client-config", "seed": "rcfg%d" % seed, "label": "random-config",
            "api": draw(st.sampled_from(["pie", "proxy"])), "sections": sections,
            "config": draw(st.sampled_from(["client", "client", "client", "other", "missing"])),
            "v": draw(st.sampled_from([[1, 0], [1, 2], [2, 0]]))}


def grid_worker(tier, shard, nshards):
    import warnings
    warnings.filterwarnings("ignore")
    col = core.Collector(PID)
    cases = grid_histories(tier) + client_histories(tier) + config_grid()
    for i, spec in enumerate(cases):
        if i % nshards != shard:
            continue
        res = R.run_case(spec)
        _record(col, spec, res, ["grid:" + spec["label"].split("#")[0].split("-")[0]])
    return col


def random_worker(n_server, n_client, seed):
    import warnings
    warnings.filterwarnings("ignore")
    col = core.Collector(PID)

    def one(spec):
        _record(col, spec, R.run_case(spec), ["random:" + spec["mode"]])

    if n_server:
        core.draw_examples(random_server_case(), n_server, core.derive_seed(seed, "s"), one)
    if n_client:
        core.draw_examples(random_client_case(), n_client, core.derive_seed(seed, "c"), one)
        core.draw_examples(random_config_case(), n_client * 4, core.derive_seed(seed, "f"), one)
    return col


def run(ctx):
    S.selfcheck()
    n = core.NCPU
    dicts = core.run_sharded("vlib.props.c20", "grid_worker", [(ctx.tier, i, n) for i in range(n)])
    ns, nc = ctx.n(320, 9000), ctx.n(96, 1500)
    dicts += core.run_sharded("vlib.props.c20", "random_worker",
                              [(max(1, ns // n), max(1, nc // n), core.derive_seed(ctx.seed, "c20", i))
                               for i in range(n)])
    col = core.merged(PID, dicts)
    # histories are long: keep the three shortest real non-trivial samples in the evidence
    col.samples = sorted(col.samples, key=lambda cs: len(core.canon(cs[1])))[:3]
    col.extra["grid_histories"] = len(grid_histories(ctx.tier))
    col.extra["client_grid_histories"] = len(client_histories(ctx.tier))
    col.extra["client_config_grid"] = len(config_grid())
    return col
