"""C19 - The client reports exactly what the server answered.

Set-up (a), scripted responder: every ProxyKmipClient method and the KMIPProxy operations are
called with generated documented argument values under every KMIP version; a fake socket hands
the emitted request to a responder that (1) decodes it with the library exactly as KmipSession
does, (2) inspects it with the independent TTLV reference (tag numbers from the specification) to
see that each argument sits in the field the documentation names, and (3) answers with a
generated legal response - success with arbitrary payload values, or failure with any result
reason and an arbitrary or absent message - encoded with the independent reference, delivered
through a generated chunk schedule, optionally truncated or replaced by undecodable bytes.
Set-up (a'), call sequences: 2-5 calls on ONE client object against the same responder; every
call is judged as in (a), and every value handed back earlier must still read the same at the end.
Set-up (b), real engine: generated call sequences against vlib.harness.Server; the client's
return value / exception is compared with the response captured on the wire and decoded with
ttlvref."""
from hypothesis import strategies as st

from vlib import core
from vlib import c19_wire as W
from vlib.c19_ops import OPS, ASCII
from vlib import c19_exec as X
from vlib import c19_engine as EN

PID = "C19"
LEVEL = "exploration"
RULE = ("one case = one client call (scripted) or one call sequence (engine) given as a JSON spec: "
        "api (ProxyKmipClient | KMIPProxy) x operation x KMIP version x generated documented "
        "arguments x generated legal response x chunk schedule x optional truncation / undecodable "
        "replacement.  Non-trivial: the client emitted a request and the case has a failure "
        "response, a KMIP version other than the default 1.2, or a delivery in which at least one "
        "read was split (more chunks than the header+body minimum); refused calls (library "
        "version/attribute errors before sending) are never non-trivial.  Histogram classes: "
        "op:<api>.<operation>, v:<version>, resp:<kind>, chunks, mode.")
ASSUMPTIONS = [
    "vlib.ttlvref and the tag/enumeration numbers in vlib/c19_wire.py follow the KMIP specification",
    "legal responses: Result Status Success with the operation echoed and a payload, or Operation "
    "Failed with a Result Reason and an optional Result Message (Pending/Undone are never legal "
    "for this client: it never asks for asynchronous or undo processing)",
    "expected return values are taken from the ProxyKmipClient docstrings and docs/source/client.rst;"
    " for KMIPProxy result objects only the self-describing fields are compared (uuid, uuids, "
    "secret, attributes, names, key pair uuids, protocol_versions, operations/object_types/"
    "vendor_identification and the documented dictionary keys)",
    "request decoding mirrors KmipSession: RequestMessage.read with the engine default version, "
    "batch items under the header version",
    "a library error class raised before anything is sent (VersionNotSupported, "
    "AttributeNotSupported, InvalidField) is an allowed refusal",
    "engine set-up: harness.Server.process stands for the session between receive and send",
]
SHRINK_BUDGET = 60

# pie methods that build their failure exception from result objects (result_message.value)
PIE_RESULT_OBJECT = {"create", "create_key_pair", "register", "locate", "get", "get_attributes",
                     "get_attribute_list", "activate", "revoke", "destroy", "mac"}
SEND_REQUEST_PAYLOAD = {"delete_attribute", "set_attribute", "modify_attribute"}


def excluded(spec):
    """Confirmed defects kept out of the bulk search (each has a KNOWN_PATHS case)."""
    op, api, a, r = spec["op"], spec["api"], spec["args"], spec["resp"]
    if op in ("activate", "revoke") and a.get("uid") is None:
        return "%s without unique identifier (request undecodable)" % op
    if spec.get("fault"):
        return None
    if r["kind"] == "failure":
        if op == "check":
            return "check: failure response (payload dereferenced unconditionally)"
        if op == "discover_versions" and r.get("echo", True):
            return "discover_versions: failure response with operation echo"
        if r.get("message") is None:
            if api == "pie" and op in PIE_RESULT_OBJECT:
                return "failure without Result Message: pie result-object methods"
            if op in SEND_REQUEST_PAYLOAD:
                return "failure without Result Message: send_request_payload"
    return None


# ----------------------------------------------------------------------------- strategies
msg_s = st.text(alphabet=ASCII, min_size=0, max_size=40)
chunks_s = st.one_of(st.just([]), st.lists(st.integers(1, 64), min_size=1, max_size=5),
                     st.lists(st.integers(1, 3), min_size=1, max_size=2))


def resp_s(op, v):
    ok = st.fixed_dictionaries({"kind": st.just("success"), "payload": op.payload(v)})
    fail = st.fixed_dictionaries({"kind": st.just("failure"),
                                  "reason": st.sampled_from(W.reasons_for(v)),
                                  "message": st.one_of(st.none(), msg_s, msg_s),
                                  "echo": st.sampled_from([True, True, True, False])})
    # optional response header fields the version defines and the library knows (Server Correlation
    # Value: KMIP 1.4; Server Hashed Password: 2.0): carried by one response in four
    opt = {}
    if tuple(v) >= (1, 4):
        opt["scv"] = st.text(alphabet=ASCII, min_size=1, max_size=20)
    if tuple(v) >= (2, 0):
        opt["shp"] = st.binary(min_size=1, max_size=32).map(lambda b: b.hex())
    if not opt:
        return st.one_of(ok, ok, fail, fail)
    hdr = st.one_of(st.just({}), st.just({}), st.just({}), st.fixed_dictionaries({}, optional=opt))

    def with_hdr(pair):
        r, h = pair
        return dict(r, hdr=h) if h else r
    return st.tuples(st.one_of(ok, ok, fail, fail), hdr).map(with_hdr)


_FAULTS = {
    "none": st.none(),
    "cut": st.fixed_dictionaries({"kind": st.just("truncate"), "at": st.integers(0, 10 ** 6)}),
    "cut-head": st.fixed_dictionaries({"kind": st.just("truncate"), "at": st.integers(0, 24)}),
    "cut-tail": st.fixed_dictionaries({"kind": st.just("truncate"), "at": st.integers(-24, -1)}),
    "cut-item": st.fixed_dictionaries({"kind": st.just("cut-item"),
                                       "level": st.sampled_from(["leaf", "child"])}),
    "tag": st.fixed_dictionaries({"kind": st.just("garbage-tag")}),
    "body": st.fixed_dictionaries({"kind": st.just("garbage-body"),
                                   "data": st.binary(min_size=8, max_size=48).map(lambda b: b.hex())}),
}
# roughly three quarters of the cases are delivered intact
fault_s = st.sampled_from(["none"] * 18 + ["cut", "cut-head", "cut-tail", "cut-item", "cut-item",
                            "tag", "body"]).flatmap(
    lambda k: _FAULTS[k])
# ConfigHelper reads the literal string 'None' as "not set": not a credential value
_cred_text = st.text(alphabet=ASCII, min_size=1, max_size=12).filter(lambda s: s != "None")
cred_s = st.one_of(st.none(), st.none(), st.none(), st.tuples(_cred_text, _cred_text).map(list))


def case_s(api, name, v):
    """Cases for one (api, operation, KMIP version)."""
    op = OPS[name]
    fs, rs = fault_s, resp_s(op, v)
    if name in SEND_REQUEST_PAYLOAD:
        # documented for send_request_payload: InvalidMessage if the response does not match
        # the request operation or does not carry exactly one result
        other = {"delete_attribute": "modify_attribute", "modify_attribute": "delete_attribute",
                 "set_attribute": "modify_attribute"}[name]
        wrong = st.fixed_dictionaries({"kind": st.just("wrong-operation"), "op": st.just(other),
                                       "payload": OPS[other].payload(v)})
        extra = st.fixed_dictionaries({"kind": st.just("extra-item")})
        ok = st.fixed_dictionaries({"kind": st.just("success"), "payload": op.payload(v)})
        both = st.sampled_from([0, 0, 0, 0, 0, 0, 1, 2]).flatmap(
            lambda k: st.tuples(fs, rs) if k == 0 else st.tuples(wrong, rs) if k == 1
            else st.tuples(extra, ok))
    else:
        both = st.tuples(fs, rs)
    kv = ["ctor", "ctor", "ctor", "setter"] + (["none"] if tuple(v) == (1, 2) else [])
    return st.builds(
        lambda fr, args, chunks, cred, kv, ctx: dict({
            "mode": "scripted", "api": api, "op": name, "v": list(v), "args": args,
            "resp": fr[1], "chunks": chunks, "fault": fr[0], "cred": cred, "kv": kv},
            **({"ctx": True} if ctx and api == "pie" else {})),
        both, op.args(v, api), chunks_s, cred_s, st.sampled_from(kv),
        st.sampled_from([False, False, True]))


def targets():
    return [(api, name) for name in sorted(OPS) for api in OPS[name].apis]


# ----------------------------------------------------------------------------- known paths
def _sc(api, op, v, args, resp, **kw):
    d = {"mode": "scripted", "api": api, "op": op, "v": list(v), "args": args, "resp": resp,
         "chunks": [], "fault": None, "cred": None}
    d.update(kw)
    return d


_OK_UID = {"kind": "success", "payload": {"uid": "1"}}
_NOMSG = {"kind": "failure", "reason": 1, "message": None, "echo": True}
_MSG = {"kind": "failure", "reason": 1, "message": "not found", "echo": True}


def known_paths():
    """One deterministic case per confirmed defect (same specs as the files under known/)."""
    P = []
    # documented-optional identifier omitted: the emitted request cannot be decoded by the server
    P.append(_sc("pie", "activate", (1, 2), {"uid": None}, _OK_UID))
    P.append(_sc("pie", "revoke", (1, 2), {"code": 1, "uid": None, "msg": None, "date": None}, _OK_UID))
    # failure without Result Message (legal): one case per dereferencing site
    minimal = {
        "create": {"alg": 3, "len": 128, "opn": None, "name": None, "masks": None},
        "create_key_pair": {"alg": 4, "len": 2048, "opn": None, "pub_name": None, "pub_masks": None,
                            "priv_name": None, "priv_masks": None},
        "register": {"obj": {"kind": "OpaqueObject", "otype": 0x80000000, "value": "00"},
                     "masks": None, "name": None, "opn": None},
        "locate": {"max": None, "offset": None, "ssm": None, "ogm": None, "attrs": None},
        "get": {"uid": "1", "kws": None},
        "get_attributes": {"uid": "1", "names": None},
        "get_attribute_list": {"uid": "1"},
        "activate": {"uid": "1"},
        "revoke": {"code": 1, "uid": "1", "msg": None, "date": None},
        "destroy": {"uid": "1"},
        "mac": {"data": "00", "uid": "1", "alg": None},
    }
    for name in sorted(minimal):
        P.append(_sc("pie", name, (1, 2), minimal[name], _NOMSG))
    P.append(_sc("pie", "delete_attribute", (1, 2), {"uid": "1", "aname": "Name"}, _NOMSG))
    # check(): any failure response; and the documented default for cryptographic_usage_mask
    P.append(_sc("pie", "check", (1, 2), {"uid": "1", "count": None, "masks": [4], "lease": None}, _MSG))
    P.append(_sc("pie", "check", (1, 2), {"uid": "1", "count": 50, "masks": None, "lease": None}, _OK_UID))
    # discover_versions: failure response that echoes the operation
    P.append(_sc("proxy", "discover_versions", (1, 2), {"versions": None}, _MSG))
    # arbitrary (non-ASCII) result message
    P.append(_sc("pie", "destroy", (1, 2), {"uid": "1"},
                 {"kind": "failure", "reason": 1, "message": "Schlüssel nicht gefunden", "echo": True}))
    # Get: wrapped key whose key information carries no cryptographic parameters (optional)
    P.append(_sc("pie", "get", (1, 2), {"uid": "1", "kws": None},
                 {"kind": "success", "payload": {"uid": "1", "obj": {
                     "kind": "SymmetricKey", "alg": 3, "len": 128, "fmt": 1, "value": "00" * 24,
                     "wrap": {"method": 1, "eki": {"uid": "2"}}}}}))
    return P


def get_grid():
    """Every managed-object class / format / type value of the pie object model once per api and
    KMIP version, as a successful Get (a finite sub-space enumerated completely)."""
    v16 = "000102030405060708090a0b0c0d0e0f"
    wrap = {"method": 1, "eki": {"uid": "7", "cp": {"block_cipher_mode": 13}}, "enc": 1}
    objs = [{"kind": "SymmetricKey", "alg": 3, "len": 128, "fmt": 1, "value": v16},
            {"kind": "SymmetricKey", "alg": 3, "len": 128, "fmt": 1, "value": v16 + "aabbccddeeff0011",
             "wrap": wrap}]
    objs += [{"kind": "PublicKey", "alg": 4, "len": 1024, "fmt": f, "value": v16} for f in (1, 3, 5)]
    objs += [{"kind": "PrivateKey", "alg": 4, "len": 1024, "fmt": f, "value": v16} for f in (1, 3, 4)]
    objs += [{"kind": "SecretData", "dtype": d, "fmt": 2, "value": v16} for d in (1, 2)]
    objs += [{"kind": "Certificate", "ctype": 1, "value": v16},
             {"kind": "OpaqueObject", "otype": 0x80000000, "value": v16}]
    objs += [dict({"kind": "SplitKey", "alg": 3, "len": 128, "fmt": 1, "value": v16, "parts": 4,
                   "part_id": 2, "threshold": 3, "method": m}, **({"prime": 104729} if m == 3 else {}))
             for m in (1, 2, 3, 4)]
    out = []
    for api in ("pie", "proxy"):
        for v in W.VERSIONS:
            for i, o in enumerate(objs):
                out.append(_sc(api, "get", v, {"uid": "1", "kws": None},
                               {"kind": "success", "payload": {"uid": str(100 + i), "obj": o}},
                               chunks=[7] if i % 2 else []))
    return out


# ----------------------------------------------------------------------------- running
def seq_case_s(api):
    """A sequence of 2-5 calls on one client: operations of one family, so that answers with and
    without optional fields, successes and failures follow each other on the same code path."""
    families = [["encrypt", "decrypt"], ["sign", "signature_verify", "mac"],
                ["get", "get_attributes", "get_attribute_list"], ["create", "register", "locate"],
                ["activate", "revoke", "destroy"], sorted(n for n in OPS if api in OPS[n].apis)]
    families = [[n for n in f if n in OPS and api in OPS[n].apis] for f in families]
    families = [f for f in families if f]

    @st.composite
    def case(draw):
        v = draw(st.sampled_from([list(x) for x in W.VERSIONS]))
        fam = draw(st.sampled_from(families))
        n = draw(st.integers(2, 5))
        calls = []
        for _ in range(n):
            name = draw(st.sampled_from(fam))
            op = OPS[name]
            c = {"op": name, "args": draw(op.args(tuple(v), api)),
                 "resp": draw(resp_s(op, tuple(v)))}
            calls.append(c)
        return {"mode": "scripted-seq", "api": api, "v": v, "calls": calls,
                "chunks": draw(chunks_s)}

    return case()


def seq_excluded(spec):
    for c in spec["calls"]:
        one = {"op": c["op"], "api": spec["api"], "args": c["args"], "resp": c["resp"]}
        why = excluded(one)
        if why:
            return why
    return None


def execute(spec):
    if spec.get("mode") == "engine":
        return EN.run_engine(spec)
    if spec.get("mode") == "scripted-seq":
        return X.run_scripted_seq(spec)
    return X.run_scripted(spec)


def replay(spec):
    return execute(spec)["buckets"]


def _record(col, spec, res):
    col.record(spec, nontrivial=res["nontrivial"], classes=res["classes"], buckets=res["buckets"])
    if res.get("refused"):
        col.bump("refused_before_sending")


def worker(seed, shard, nshards, n_per_target, n_engine):
    import warnings
    warnings.filterwarnings("ignore")
    col = core.Collector(PID)
    tg = targets()
    for i, (api, name) in enumerate(tg):
        if i % nshards != shard:
            continue

        def fn(spec):
            why = excluded(spec)
            if why:
                col.exclude(why)
                return
            _record(col, spec, execute(spec))
        # independent Hypothesis runs per version (and per round): one long run clusters
        rounds = max(1, n_per_target // 240)
        per = max(1, n_per_target // (len(W.VERSIONS) * rounds))
        for v in W.VERSIONS:
            for rnd in range(rounds):
                core.draw_examples(case_s(api, name, v), per,
                                   core.derive_seed(seed, "s", api, name, v, rnd), fn)

    def fe(spec):
        _record(col, spec, execute(spec))
    if n_engine:
        core.draw_examples(EN.engine_case_s(), n_engine, core.derive_seed(seed, "e", shard), fe)

    def fseq(spec):
        why = seq_excluded(spec)
        if why:
            col.exclude(why)
            return
        _record(col, spec, execute(spec))
    for api in ("pie", "proxy"):
        core.draw_examples(seq_case_s(api), max(4, n_per_target // 4),
                           core.derive_seed(seed, "q", api, shard), fseq)
    if shard == 1 % nshards:
        for spec in get_grid():
            res = execute(spec)
            res["classes"] = res["classes"] + ["get-grid"]
            _record(col, spec, res)
        col.bump("get_grid_cases", len(get_grid()))
    if shard == 0:
        for spec in known_paths():
            res = execute(spec)
            res["classes"] = res["classes"] + ["known-path"]
            _record(col, spec, res)
    return col


def run(ctx):
    nshards = core.NCPU
    n_per_target = ctx.n(130, 6000)
    n_engine = ctx.n(10, 300)
    args = [(ctx.seed, i, nshards, n_per_target, n_engine) for i in range(nshards)]
    col = core.merged(PID, core.run_sharded("vlib.props.c19", "worker", args))
    per_op = {}
    for c, n in col.classes.items():
        if c.startswith("op:"):
            per_op[c[3:]] = n
    col.extra["operations_covered"] = len(per_op)
    return col
