"""C03 - access control: nothing happens to an object without a policy grant."""
import copy
import hashlib
import itertools

from hypothesis import strategies as st

from kmip.core import enums

from vlib import core, harness as H
from vlib import fixtures as F

PID = "C03"
LEVEL = "exploration"
RULE = ("(i) exhaustive decision table through the API: policy shape (preset absent / present "
        "without the object type / without the operation / Allow All / Allow Owner / Disallow All; "
        "groups absent or g1,g2 each in the same five shapes; missing policy; built-in default and "
        "public) x requester (owner, other) x group information (None, [], [g1], [g2], [g1,g2], "
        "[g3]) x object type x every object-addressing operation incl. wrapping key of Get and base "
        "object of DeriveKey; (ii) Hypothesis histories by 3 users with per-operation policies, "
        "batches using the ID placeholder, Locate. non-trivial = requester is not the owner, or group "
        "information is present, or a policy entry is missing; distinct by spec hash")
ASSUMPTIONS = ["decision model written from the property statement and docs/source/server.rst",
               "for Encrypt/Decrypt/Sign/SignatureVerify/MAC/DeriveKey/wrapping the docs only say the "
               "key must be accessible: denial is demanded only if neither the Get entry nor the "
               "operation's own entry grants; where they disagree either outcome is accepted",
               "group information [] with a policy that defines no groups: either outcome accepted",
               "identity (user, groups) is passed to process_request exactly as a session would"]

VARIANTS = ["no-otype", "no-op", "ALLOW_ALL", "ALLOW_OWNER", "DISALLOW_ALL"]
GROUP_INFOS = [None, [], ["g1"], ["g2"], ["g1", "g2"], ["g3"]]
ALL_OPS = list(enums.Operation)
OT_ENUMS = [H.OT[t] for t in H.OBJECT_TYPES]


# ---------------------------------------------------------------- independent decision model
def section_allows(variant, user, owner):
    """variant: how the section treats (object type, operation)."""
    if variant == "ALLOW_ALL":
        return True
    if variant == "ALLOW_OWNER":
        return user == owner
    return False            # absent section, missing object type, missing operation, Disallow All


def model_allowed(shape, user, groups, owner):
    """shape: None (policy does not exist) or {"preset": variant|None, "groups": {g: variant}|None}.
    Returns True / False / None (don't care)."""
    if shape is None:
        return False
    preset = shape.get("preset")
    grp = shape.get("groups")
    if groups is None:
        return section_allows(preset, user, owner) if preset is not None else False
    if grp:   # policy defines groups: the most permissive applicable group section decides
        return any(section_allows(grp[g], user, owner) for g in groups if g in grp)
    # group information present but the policy defines no groups: the preset section applies
    want = section_allows(preset, user, owner) if preset is not None else False
    if groups == []:
        return None if want else False
    return want


# ---------------------------------------------------------------- building real policies
def real_section(variant):
    if variant == "no-otype":
        return {enums.ObjectType.TEMPLATE: {enums.Operation.CHECK: enums.Policy.ALLOW_ALL}}
    if variant == "no-op":
        return {t: {enums.Operation.CHECK: enums.Policy.ALLOW_ALL} for t in OT_ENUMS}
    p = enums.Policy[variant]
    return {t: {o: p for o in ALL_OPS} for t in OT_ENUMS}


def real_policy(shape):
    pol = {}
    if shape.get("preset") is not None:
        pol["preset"] = real_section(shape["preset"])
    if shape.get("groups") is not None:
        pol["groups"] = {g: real_section(v) for g, v in shape["groups"].items()}
    return pol


def table_shapes():
    shapes = []
    presets = [None] + VARIANTS
    groupsets = [None] + [{"g1": a} for a in VARIANTS] + \
                [{"g1": a, "g2": b} for a in VARIANTS for b in VARIANTS]
    for p in presets:
        for g in groupsets:
            if p is None and g is None:
                continue
            shapes.append({"preset": p, "groups": g})
    return shapes


def builtin_shape(name):
    """Shapes of the built-in policies as the docs describe them (default: owner only;
    public: everybody may read, only the owner may change/destroy) are checked against the
    real definitions per (type, op) in builtin_variant()."""
    return name


_BUILTIN_DOC = None


def builtin_variant(name, otype, op):
    """Built-in policies are not generated, their content is read from kmip.core.policy (data,
    not logic) and interpreted by the independent model."""
    from kmip.core import policy as cpol
    sec = cpol.policies[name].get("preset", {})
    ent = sec.get(H.OT[otype])
    if not ent:
        return "no-otype"
    perm = ent.get(op)
    if perm is None:
        return "no-op"
    return perm.name


# ---------------------------------------------------------------- operations
# (label, governing operation enum, builder(uid, helper_uid) -> (item, version))
def _ops():
    E = enums.Operation
    pr = {"alg": "AES", "mode": "CBC", "pad": "PKCS5"}
    sp = {"alg": "RSA", "hash": "SHA_256", "pad": "PSS"}
    nkw = {"mode": "NIST_KEY_WRAP"}
    la = [["Cryptographic Length", 128], ["Cryptographic Algorithm", "AES"]]
    return [
        ("Get", E.GET, None, lambda u, h: ({"op": "Get", "uid": u}, (1, 2))),
        ("GetAttributes", E.GET_ATTRIBUTES, None, lambda u, h: ({"op": "GetAttributes", "uid": u}, (1, 2))),
        ("GetAttributeList", E.GET_ATTRIBUTE_LIST, None, lambda u, h: ({"op": "GetAttributeList", "uid": u}, (1, 2))),
        ("Activate", E.ACTIVATE, None, lambda u, h: ({"op": "Activate", "uid": u}, (1, 2))),
        ("Revoke", E.REVOKE, None, lambda u, h: ({"op": "Revoke", "uid": u, "code": "KEY_COMPROMISE"}, (1, 2))),
        ("Destroy", E.DESTROY, None, lambda u, h: ({"op": "Destroy", "uid": u}, (1, 2))),
        ("ModifyAttribute", E.MODIFY_ATTRIBUTE, None, lambda u, h: ({"op": "ModifyAttribute", "uid": u, "attr": ["Name", "renamed", 0]}, (1, 2))),
        ("DeleteAttribute", E.DELETE_ATTRIBUTE, None, lambda u, h: ({"op": "DeleteAttribute", "uid": u, "name": "Name", "index": 0}, (1, 2))),
        ("SetAttribute", E.SET_ATTRIBUTE, None, lambda u, h: ({"op": "SetAttribute", "uid": u, "new": ["Sensitive", True]}, (2, 0))),
        ("ModifyAttribute2", E.MODIFY_ATTRIBUTE, None, lambda u, h: ({"op": "ModifyAttribute", "uid": u, "cur": ["Name", "nm"], "new": ["Name", "renamed"]}, (2, 0))),
        ("DeleteAttribute2", E.DELETE_ATTRIBUTE, None, lambda u, h: ({"op": "DeleteAttribute", "uid": u, "ref": {"name": "Name"}}, (2, 0))),
        ("Encrypt", E.GET, E.ENCRYPT, lambda u, h: ({"op": "Encrypt", "uid": u, "params": pr, "data": "00" * 16}, (1, 2))),
        ("Decrypt", E.GET, E.DECRYPT, lambda u, h: ({"op": "Decrypt", "uid": u, "params": pr, "data": "00" * 16, "iv": "00" * 16}, (1, 2))),
        ("Sign", E.GET, E.SIGN, lambda u, h: ({"op": "Sign", "uid": u, "params": sp, "data": "00"}, (1, 2))),
        ("SignatureVerify", E.GET, E.SIGNATURE_VERIFY, lambda u, h: ({"op": "SignatureVerify", "uid": u, "params": sp, "data": "00", "sig": "00" * 128}, (1, 2))),
        ("MAC", E.GET, E.MAC, lambda u, h: ({"op": "MAC", "uid": u, "params": {"alg": "HMAC_SHA256"}, "data": "00"}, (1, 2))),
        ("DeriveKey", E.GET, E.DERIVE_KEY, lambda u, h: ({"op": "DeriveKey", "uids": [u], "method": "HASH", "attrs": la, "dp": {"params": {"hash": "SHA_256"}, "data": "01"}}, (1, 2))),
        ("DeriveKey-second", E.GET, E.DERIVE_KEY, lambda u, h: ({"op": "DeriveKey", "uids": [h, u], "method": "HASH", "attrs": la, "dp": {"params": {"hash": "SHA_256"}}}, (1, 2))),
        ("Get-wrapping-key", E.GET, None, lambda u, h: ({"op": "Get", "uid": h, "wrap": {"eki": {"uid": u, "params": nkw}, "enc": "NO_ENCODING"}}, (1, 2))),
    ]


OPS = _ops()
OP_LABELS = [o[0] for o in OPS]
NEVER = "777777"


def _subst(msg, uid):
    return None if msg is None else msg.replace(NEVER, uid)


# ---------------------------------------------------------------- table template
_tt = {}


def table_template():
    """One store holding, for every policy shape (incl. 'missing', 'default', 'public') and every
    object type, an object registered by user 'owner' under that policy; plus a helper symmetric
    key owned by each requester under the public policy.  Built once (in the parent, inherited by
    forked shards)."""
    if "t" in _tt:
        return _tt["t"]
    shapes = table_shapes()
    policies = H.builtin_policies()
    names = {}
    for i, s in enumerate(shapes):
        policies["p%d" % i] = real_policy(s)
    # helper objects (derivation base / wrap target) must be accessible to every identity
    policies["helperpol"] = real_policy({"preset": "ALLOW_ALL",
                                         "groups": {"g1": "ALLOW_ALL", "g2": "ALLOW_ALL", "g3": "ALLOW_ALL"}})
    H.CLOCK.now = 1_650_000_000
    srv = H.Server(policies=policies)
    owner = H.Client(srv, "owner")
    index = {}   # (policy_name, otype) -> uid
    pnames = ["p%d" % i for i in range(len(shapes))] + ["missing", "default", "public"]
    for pn in pnames:
        for t in H.OBJECT_TYPES:
            extra = [["Name", "nm"], ["Operation Policy Name", pn]]
            r = owner.one(F.register_item(t, label=t, extra_attrs=extra))
            if r["status"] != "SUCCESS":
                raise core.HarnessError("table template: register failed: %r" % (r,))
            index[(pn, t)] = r["payload"]["uid"]
    helpers = {}
    for who in ("owner", "other"):
        c = H.Client(srv, who)
        r = c.one(F.register_item("SymmetricKey", label="helper", extra_attrs=[["Operation Policy Name", "helperpol"]]))
        uid = r["payload"]["uid"]
        helpers[who] = uid
    # the helper must be usable as derivation base / wrap target by anybody: public policy allows GET to all
    srv.stop()
    import atexit, shutil
    atexit.register(shutil.rmtree, srv.dir, True)
    _tt["t"] = (srv.db, policies, shapes, index, helpers)
    return _tt["t"]


_lt = {}


def locate_template():
    """Store for the Locate clause: for every policy shape and two object types, one object owned
    by 'owner' and one by 'other' (creation order alternates), so that each (policy, type) pair
    holds objects of different owners."""
    if "t" in _lt:
        return _lt["t"]
    db, policies, shapes, index, helpers = table_template()
    H.CLOCK.now = 1_651_000_000
    srv = H.Server(policies=policies)
    pnames = ["p%d" % i for i in range(len(shapes))] + ["missing", "default", "public"]
    objs = {}    # uid -> (policy, type, owner)
    for i, pn in enumerate(pnames):
        for t in ("SymmetricKey", "Certificate", "OpaqueData"):
            order = ("owner", "other") if i % 2 == 0 else ("other", "owner")
            for who in order:
                r = H.Client(srv, who).one(F.register_item(t, label=t, extra_attrs=[["Operation Policy Name", pn]]))
                if r["status"] != "SUCCESS":
                    raise core.HarnessError("locate template: register failed: %r" % (r,))
                objs[r["payload"]["uid"]] = (pn, t, who)
    srv.stop()
    import atexit, shutil
    atexit.register(shutil.rmtree, srv.dir, True)
    _lt["t"] = (srv.db, objs)
    return _lt["t"]


def _file_hash(path):
    with open(path, "rb") as f:
        return hashlib.blake2b(f.read(), digest_size=16).digest()


def run_cell(cell, srv=None, masked_cache=None):
    """cell = {"policy": name, "otype": T, "op": label, "who": owner|other, "groups": list|None}.
    Returns (buckets, nontrivial, classes)."""
    db, policies, shapes, index, helpers = table_template()
    own = srv is None
    if own:
        srv = H.Server(policies=policies, template=db)
    try:
        pn, t, who, groups = cell["policy"], cell["otype"], cell["who"], cell["groups"]
        label, gov, own_op, build = OPS[OP_LABELS.index(cell["op"])]
        uid = index[(pn, t)]
        if pn[0] == "p" and pn[1:].isdigit():
            shape = shapes[int(pn[1:])]
            allowed = model_allowed(shape, who, groups, "owner")
        elif pn == "missing":
            shape = None
            allowed = False
        else:
            shape = {"preset": builtin_variant(pn, t, gov), "groups": None}
            allowed = model_allowed(shape, who, groups, "owner")
            if own_op is not None:
                alt = model_allowed({"preset": builtin_variant(pn, t, own_op), "groups": None}, who, groups, "owner")
                if alt != allowed:
                    allowed = None
        known_class = (groups is not None and groups != [] and shape is not None
                       and not shape.get("groups") and allowed is True)
        item, v = build(uid, helpers[who])
        cli = H.Client(srv, who, groups, v)
        if groups == [] and cell["op"] in ("DeriveKey-second", "Get-wrapping-key"):
            return [], False, ["excluded:indirect-with-empty-group-list"]
        # masked text: same request for a never-allocated identifier
        mkey = (cell["op"], who)
        if masked_cache is not None and mkey in masked_cache:
            never = masked_cache[mkey]
        else:
            nitem, _ = build(NEVER, helpers[who])
            never = cli.one(nitem)
            if masked_cache is not None:
                masked_cache[mkey] = never
        before = _file_hash(srv.db)
        r = cli.one(item)
        buckets = []
        masked = (r["status"] == "OPERATION_FAILED" and r["payload"] is None
                  and r["message"] == _subst(never["message"], uid)
                  and r["reason"] in ("PERMISSION_DENIED", never["reason"]))
        indirect = cell["op"] in ("DeriveKey-second", "Get-wrapping-key")
        if allowed is False:
            if not masked:
                buckets.append(("C03|%s|denied-by-model-but-not-masked-denial|%s" % (
                    "indirect" if indirect else "direct", _cls(r)),
                    "cell=%r response=%r expected message=%r" % (cell, r, _subst(never["message"], uid))))
            elif not indirect and r["reason"] != "PERMISSION_DENIED":
                buckets.append(("C03|direct|denial-reason-not-permission-denied", repr(r)))
            if _file_hash(srv.db) != before:
                buckets.append(("C03|store-changed-by-denied-request|" + cell["op"], repr(cell)))
        elif allowed is True:
            if masked and r["reason"] == "PERMISSION_DENIED":
                if known_class:
                    buckets.append(("C03|groups-given|policy-has-no-groups|denied-but-preset-allows",
                                    "cell=%r response=%r" % (cell, r)))
                else:
                    buckets.append(("C03|allowed-by-model-but-denied|" + _shape_class(shape, groups),
                                    "cell=%r response=%r" % (cell, r)))
        # the owner is the identity that created the object, forever: whatever the request did
        own_now = _owner_of(srv.db, uid)
        if own_now is not None and own_now != "owner":
            buckets.append(("C03|owner-column-differs-from-creator",
                            "cell=%r: object %s created by 'owner' is now owned by %r" % (cell, uid, own_now)))
        for e in cli.envelope:
            buckets.append(("C02|envelope|" + e[1][0], repr(e)))
        nontrivial = (who != "owner") or (groups is not None) or shape is None or \
            "no-" in str(shape.get("preset")) or shape.get("preset") is None
        classes = ["op:" + cell["op"], "model:%s" % allowed, "who:%s" % who,
                   "groups:%s" % ("none" if groups is None else len(groups))]
        if known_class:
            classes.append("known-class:groups-given+preset-only")
        return buckets, nontrivial, classes
    finally:
        if own:
            srv.close()


def _owner_of(db, uid):
    import sqlite3
    con = sqlite3.connect("file:%s?mode=ro" % db, uri=True)
    try:
        row = con.execute("select owner from managed_objects where uid = ?", (int(uid),)).fetchone()
        return None if row is None else row[0]
    finally:
        con.close()


def _cls(r):
    return "%s/%s" % (r["status"], r["reason"])


def _shape_class(shape, groups):
    return "preset=%s,groups=%s,info=%s" % (
        shape.get("preset"), "yes" if shape.get("groups") else "no",
        "none" if groups is None else "empty" if groups == [] else "some")


def table_cells(otypes_for_op):
    db, policies, shapes, index, helpers = table_template()
    pnames = ["p%d" % i for i in range(len(shapes))] + ["missing", "default", "public"]
    for oi, op in enumerate(OP_LABELS):
        for t in otypes_for_op(oi):
            for pn in pnames:
                for who in ("owner", "other"):
                    for g in GROUP_INFOS:
                        yield {"policy": pn, "otype": t, "op": op, "who": who, "groups": g}


def _otypes_quick(oi):
    n = len(H.OBJECT_TYPES)
    return [H.OBJECT_TYPES[oi % n], H.OBJECT_TYPES[(oi * 3 + 2) % n]]


def _otypes_all(oi):
    return list(H.OBJECT_TYPES)


def table_worker(tier, shard, nshards):
    col = core.Collector(PID)
    db, policies, shapes, index, helpers = table_template()
    sel = _otypes_quick if tier == "quick" else _otypes_all
    srv = None
    cache = {}
    dirty = True
    for i, cell in enumerate(table_cells(sel)):
        if i % nshards != shard:
            continue
        if dirty or srv is None:
            if srv is not None:
                srv.close()
            srv = H.Server(policies=policies, template=db)
        h0 = _file_hash(srv.db)
        b, nt, cl = run_cell(cell, srv, cache)
        dirty = _file_hash(srv.db) != h0
        col.record(cell, nontrivial=nt, classes=cl, buckets=b)
    # Locate: one request per identity over the whole store
    if srv is not None:
        srv.close()
    if shard == 0:
        ldb, lobjs = locate_template()
        srv = H.Server(policies=policies, template=ldb)
        for who in ("owner", "other"):
            for g in GROUP_INFOS:
                for filt in (None, ["Object Type", "SymmetricKey"], ["Object Type", "Certificate"]):
                    cli = H.Client(srv, who, g, (1, 2))
                    r = cli.one({"op": "Locate"} if filt is None else {"op": "Locate", "attrs": [filt]})
                    listed = set(r["payload"]["uids"]) if r["payload"] else set()
                    bad = []
                    for u in listed:
                        if u not in lobjs:
                            continue
                        pn, t, owner = lobjs[u]
                        if pn[0] == "p" and pn[1:].isdigit():
                            shape = shapes[int(pn[1:])]
                        elif pn == "missing":
                            shape = None
                        else:
                            shape = {"preset": builtin_variant(pn, t, enums.Operation.LOCATE), "groups": None}
                        if model_allowed(shape, who, g, owner) is False:
                            bad.append((u, pn, t, owner))
                    spec = {"locate-as": who, "groups": g, "filter": filt}
                    col.record(spec, nontrivial=True, classes=["op:Locate"],
                               buckets=[("C03|locate-lists-object-denied-to-requester", repr(bad[:5]))] if bad else [])
        srv.close()
    return col


# ---------------------------------------------------------------- (ii) histories
USERS = ["alice", "bob", "carol"]
GROUPS = ["g1", "g2", "g3"]
PERMS = ["ALLOW_ALL", "ALLOW_OWNER", "DISALLOW_ALL", None]   # None = operation entry missing
H_OPS = ["GET", "GET_ATTRIBUTES", "GET_ATTRIBUTE_LIST", "ACTIVATE", "REVOKE", "DESTROY",
         "MODIFY_ATTRIBUTE", "DELETE_ATTRIBUTE", "SET_ATTRIBUTE", "LOCATE", "ENCRYPT", "DECRYPT",
         "SIGN", "SIGNATURE_VERIFY", "MAC", "DERIVE_KEY"]


@st.composite
def gen_section(draw):
    """{otype: {opname: perm}} with missing object types / operations."""
    sec = {}
    base = draw(st.sampled_from(PERMS[:3]))
    for t in H.OBJECT_TYPES:
        if draw(st.integers(0, 7)) == 0:
            continue
        ent = {}
        for o in H_OPS:
            p = draw(st.sampled_from([base, base, base] + PERMS))
            if p is not None:
                ent[o] = p
        sec[t] = ent
    return sec


@st.composite
def gen_policy(draw):
    pol = {}
    kind = draw(st.sampled_from(["preset", "groups", "both", "both"]))
    if kind in ("preset", "both"):
        pol["preset"] = draw(gen_section())
    if kind in ("groups", "both"):
        gs = draw(st.lists(st.sampled_from(GROUPS[:2]), min_size=1, max_size=2, unique=True))
        pol["groups"] = {g: draw(gen_section()) for g in gs}
    return pol


@st.composite
def gen_history(draw):
    npol = draw(st.integers(1, 3))
    pols = {"q%d" % i: draw(gen_policy()) for i in range(npol)}
    pnames = list(pols) + ["default", "public", "missing"]
    # small per-history pools, so that several objects share (policy, type) with different owners
    pnames = draw(st.lists(st.sampled_from(pnames), min_size=1, max_size=3, unique=True))
    tpool = draw(st.lists(st.sampled_from(H.OBJECT_TYPES), min_size=1, max_size=3, unique=True))
    steps = []
    n = draw(st.integers(3, 14))
    nobj = 0
    # identities are compared exactly: names that differ only in case, by a trailing blank or as
    # a prefix are different identities
    users = draw(st.sampled_from([USERS, USERS, USERS, ["alice", "Alice", "ALICE"],
                                  ["bob", "bob ", "Bob"], ["carol", "caro", "carol2"]]))
    for _ in range(n):
        who = draw(st.sampled_from(users))
        groups = draw(st.sampled_from([None, None, [], ["g1"], ["g2"], ["g1", "g2"], ["g3"]]))
        kind = draw(st.sampled_from(["create", "create", "op", "op", "op", "locate", "locate", "batch",
                                     "reconf"])) if nobj else "create"
        if kind == "reconf":
            # the operator replaces (or removes) a user policy while the server runs - the policy
            # store is shared with the directory monitor and changes in place; decisions follow
            # the policy that is there when the request arrives
            steps.append({"kind": "reconf", "who": who, "groups": groups, "name": draw(st.sampled_from(sorted(pols))),
                          "policy": draw(st.one_of(st.none(), gen_policy(), gen_policy()))})
        elif kind == "create":
            t = draw(st.sampled_from(tpool))
            steps.append({"who": who, "groups": groups, "kind": "create", "otype": t,
                          "policy": draw(st.sampled_from(pnames))})
            nobj += 1
        elif kind == "op":
            steps.append({"who": who, "groups": groups, "kind": "op", "op": draw(st.sampled_from(OP_LABELS)),
                          "target": draw(st.integers(0, nobj - 1)), "helper": draw(st.integers(0, nobj - 1))})
        elif kind == "locate":
            steps.append({"who": who, "groups": groups, "kind": "locate"})
        else:
            # batch: register under a policy, then address the new object through the ID placeholder
            t = draw(st.sampled_from(tpool))
            steps.append({"who": who, "groups": groups, "kind": "batch", "otype": t,
                          "policy": draw(st.sampled_from(pnames)),
                          "op": draw(st.sampled_from(["Get", "GetAttributes", "GetAttributeList", "Destroy", "Encrypt", "MAC", "Sign"]))})
            nobj += 1
    return {"policies": pols, "steps": steps}


def _real_generated_policy(pol):
    out = {}

    def sec(s):
        return {H.OT[t]: {enums.Operation[o]: enums.Policy[p] for o, p in ent.items()}
                for t, ent in s.items()}
    if "preset" in pol:
        out["preset"] = sec(pol["preset"])
    if "groups" in pol:
        out["groups"] = {g: sec(s) for g, s in pol["groups"].items()}
    return out


def _variant_generated(section, otype, opname):
    if section is None:
        return None
    ent = section.get(otype)
    if not ent:
        return "no-otype"
    return ent.get(opname) or "no-op"


def _model_hist(pols, pname, otype, opname, user, groups, owner):
    if pname in ("default", "public"):
        shape = {"preset": builtin_variant(pname, otype, enums.Operation[opname]), "groups": None}
    elif pname == "missing" or pname not in pols:
        shape = None
    else:
        pol = pols[pname]
        shape = {"preset": _variant_generated(pol.get("preset"), otype, opname),
                 "groups": None if "groups" not in pol else
                 {g: _variant_generated(s, otype, opname) for g, s in pol["groups"].items()}}
    return model_allowed(shape, user, groups, owner), shape


def run_history(spec):
    pols = copy.deepcopy(spec["policies"])
    policies = H.builtin_policies()
    for k, v in pols.items():
        policies[k] = _real_generated_policy(v)
    H.CLOCK.now = 1_660_000_000
    srv = H.Server(policies=policies)
    buckets = []
    nontrivial = False
    classes = []
    objs = []    # {uid, owner, policy, otype, alive}
    try:
        for step in spec["steps"]:
            who, groups = step["who"], step["groups"]
            cli = H.Client(srv, who, groups, (1, 2))
            if step["kind"] == "reconf":
                if step["policy"] is None:
                    pols.pop(step["name"], None)
                    srv.policies.pop(step["name"], None)
                else:
                    pols[step["name"]] = copy.deepcopy(step["policy"])
                    srv.policies[step["name"]] = _real_generated_policy(step["policy"])
                classes.append("h:policy-replaced" if step["policy"] else "h:policy-removed")
                continue
            if step["kind"] in ("create", "batch"):
                item = F.register_item(step["otype"], label="h%d" % len(objs),
                                       extra_attrs=[["Name", "nm"], ["Operation Policy Name", step["policy"]]])
                if step["kind"] == "create":
                    r = cli.one(item)
                    if r["status"] != "SUCCESS":
                        raise core.HarnessError("history register failed %r" % (r,))
                    objs.append({"uid": r["payload"]["uid"], "owner": who, "policy": step["policy"],
                                 "otype": step["otype"], "alive": True})
                    continue
                label, gov, own_op, build = OPS[OP_LABELS.index(step["op"])]
                it2, v = build(None, None)
                rr = cli.request([item, it2])
                its = rr["items"]
                if not its or its[0]["status"] != "SUCCESS":
                    raise core.HarnessError("history batch register failed %r" % (its,))
                uid = its[0]["payload"]["uid"]
                o = {"uid": uid, "owner": who, "policy": step["policy"], "otype": step["otype"], "alive": True}
                objs.append(o)
                r = its[1] if len(its) > 1 else None
                if r is None:
                    buckets.append(("C03|batch|second-item-missing", repr(its)))
                    continue
                never = {"message": "Could not locate object: " + NEVER, "reason": "ITEM_NOT_FOUND"}
                self_check(buckets, classes, pols, o, who, groups, label, gov, own_op, r, never, False, "placeholder")
                nontrivial = True
                if r["status"] == "SUCCESS" and step["op"] == "Destroy":
                    o["alive"] = False
                continue
            if step["kind"] == "locate":
                r = cli.one({"op": "Locate"})
                listed = set(r["payload"]["uids"]) if r["payload"] else set()
                for o in objs:
                    if not o["alive"]:
                        continue
                    a, _ = _model_hist(pols, o["policy"], o["otype"], "LOCATE", who, groups, o["owner"])
                    if a is False and o["uid"] in listed:
                        buckets.append(("C03|locate-lists-object-denied-to-requester", "obj=%r as %s %s" % (o, who, groups)))
                    if a is False:
                        nontrivial = True
                continue
            # direct / indirect operation on an existing object
            o = objs[step["target"] % len(objs)]
            hlp = objs[step["helper"] % len(objs)]
            label, gov, own_op, build = OPS[OP_LABELS.index(step["op"])]
            item, v = build(o["uid"], hlp["uid"])
            cli.v = v
            indirect = step["op"] in ("DeriveKey-second", "Get-wrapping-key")
            if indirect:
                # the helper object (first base object / wrap target) must itself be accessible,
                # otherwise the response is about the helper, not about the object under test
                ha, hshape = _model_hist(pols, hlp["policy"], hlp["otype"], "GET", who, groups, hlp["owner"])
                if ha is not True or not hlp["alive"] or hlp is o:
                    continue
                if groups is not None and not (hshape or {}).get("groups"):
                    continue   # known finding class: the helper itself would be (wrongly) denied
                if step["op"] == "DeriveKey-second" and hlp["otype"] not in ("SymmetricKey", "SecretData", "PublicKey", "PrivateKey"):
                    continue
                if step["op"] == "Get-wrapping-key" and False:
                    continue
            if not o["alive"]:
                continue
            nitem, _ = build(NEVER, hlp["uid"])
            never = cli.one(nitem)
            before = srv.raw_dump()
            r = cli.one(item)
            allowed = self_check(buckets, classes, pols, o, who, groups, label, gov, own_op, r, never, indirect, "history")
            if allowed is False:
                nontrivial = True
                if srv.raw_dump() != before:
                    buckets.append(("C03|store-changed-by-denied-request|" + step["op"], repr(step)))
            if r["status"] == "SUCCESS" and step["op"] == "Destroy":
                o["alive"] = False
            elif o["alive"]:
                own_now = _owner_of(srv.db, o["uid"])
                if own_now is not None and own_now != o["owner"]:
                    buckets.append(("C03|owner-column-differs-from-creator",
                                    "after %s by %s: obj=%r stored owner=%r" % (step["op"], who, o, own_now)))
        # owner column: the identity that created each object, forever
        dump = srv.raw_dump()
        mo = dump["managed_objects"]
        ci, oi = mo["cols"].index("uid"), mo["cols"].index("owner")
        owners = {str(row[ci]): row[oi] for row in mo["rows"]}
        for o in objs:
            if o["alive"] and owners.get(o["uid"]) != o["owner"]:
                buckets.append(("C03|owner-column-differs-from-creator", "obj=%r stored owner=%r" % (o, owners.get(o["uid"]))))
    finally:
        srv.close()
    seen = {}
    for k, d in buckets:
        seen.setdefault(k, d)
    return list(seen.items()), nontrivial, classes


def self_check(buckets, classes, pols, o, who, groups, label, gov, own_op, r, never, indirect, ctx):
    allowed, shape = _model_hist(pols, o["policy"], o["otype"], gov.name, who, groups, o["owner"])
    if own_op is not None:
        alt, _ = _model_hist(pols, o["policy"], o["otype"], own_op.name, who, groups, o["owner"])
        if alt != allowed:
            allowed = None
    uid = o["uid"]
    masked = (r["status"] == "OPERATION_FAILED" and r["payload"] is None
              and r["message"] == _subst(never["message"], uid)
              and r["reason"] in ("PERMISSION_DENIED", never["reason"]))
    known_class = (groups is not None and groups != [] and shape is not None
                   and not shape.get("groups") and allowed is True)
    classes.append("%s:model:%s" % (ctx, allowed))
    if allowed is False:
        if not masked:
            buckets.append(("C03|%s|denied-by-model-but-not-masked-denial|%s" % (
                "indirect" if indirect else "direct", _cls(r)),
                "ctx=%s op=%s obj=%r as %s %s response=%r" % (ctx, label, o, who, groups, r)))
        elif not indirect and r["reason"] != "PERMISSION_DENIED":
            buckets.append(("C03|direct|denial-reason-not-permission-denied", repr(r)))
    elif allowed is True:
        if masked and r["reason"] == "PERMISSION_DENIED":
            if known_class:
                buckets.append(("C03|groups-given|policy-has-no-groups|denied-but-preset-allows",
                                "op=%s obj=%r as %s %s response=%r" % (label, o, who, groups, r)))
            else:
                buckets.append(("C03|allowed-by-model-but-denied|" + _shape_class(shape, groups),
                                "op=%s obj=%r as %s %s response=%r" % (label, o, who, groups, r)))
    return allowed


# ====================================================================== part N: non-interference
# "An operation ... reveals anything about a managed object only if the object's operation policy
# grants that operation": two stores that differ only in objects the requester may not touch
# (their names, groups, lengths, masks, states) answer every request of that requester alike.
NI_POLICIES = ["default", "public", "open"]
NI_NAMES = ["guess-a", "guess-b", "plain", "x"]
NI_GROUPS = ["ga", "gb"]


def _ni_policies():
    p = H.builtin_policies()
    p["open"] = {"preset": {H.OT[t]: {o: enums.Policy.ALLOW_ALL for o in enums.Operation}
                            for t in H.OBJECT_TYPES}}
    return p


def _ni_hidden(o, who):
    """May `who` do nothing at all to object o (neither locate it nor read it)?"""
    if o["pol"] == "open":
        return False
    if o["pol"] == "public":
        return True
    return o["owner"] != who


@st.composite
def gen_ni(draw):
    who = draw(st.sampled_from(["bob", "carol"]))
    objs = []
    for _ in range(draw(st.integers(2, 6))):
        o = {"owner": draw(st.sampled_from(["alice", "alice", who, "bob"])),
             "pol": draw(st.sampled_from(["default", "default", "default", "public", "open"])),
             "t": draw(st.sampled_from(["SymmetricKey", "SymmetricKey", "SecretData"]))}
        var = lambda: {"name": draw(st.sampled_from(NI_NAMES)), "group": draw(st.sampled_from(NI_GROUPS)),
                       "bits": draw(st.sampled_from([128, 256])), "mask": draw(st.sampled_from([12, 4, 0x80 | 12])),
                       "active": draw(st.booleans())}
        o["a"] = var()
        o["b"] = var() if _ni_hidden(o, who) else o["a"]
        objs.append(o)
    vals = [["Name", n] for n in NI_NAMES] + [["Object Group", g] for g in NI_GROUPS] \
        + [["Cryptographic Length", 128], ["Cryptographic Length", 256], ["Cryptographic Usage Mask", 4],
           ["Cryptographic Usage Mask", 0x80], ["State", "ACTIVE"], ["State", "PRE_ACTIVE"],
           ["Object Type", "SymmetricKey"], ["Object Type", "SecretData"],
           ["Cryptographic Algorithm", "AES"], ["Operation Policy Name", "default"]] \
        + [["Unique Identifier", "$%d" % k] for k in range(len(objs))]
    reqs = []
    for _ in range(draw(st.integers(3, 8))):
        if draw(st.integers(0, 3)) > 0:
            f = draw(st.lists(st.sampled_from(vals), min_size=0, max_size=3))
            # date filters last / first / in between: 0-4 of them (three are one too many)
            nd = draw(st.sampled_from([0, 0, 1, 2, 3, 3, 3, 4]))
            dates = [["Initial Date", draw(st.sampled_from(["$t", "$t-", "$t+"]))] for _ in range(nd)]
            pos = draw(st.sampled_from(["after", "after", "before", "mixed"]))
            f = f + dates if pos == "after" else dates + f if pos == "before" else draw(st.permutations(f + dates))
            reqs.append({"op": "Locate", "f": [list(x) for x in f], "v": draw(st.sampled_from([[1, 2], [1, 4], [2, 0]]))})
        else:
            reqs.append({"op": draw(st.sampled_from(["Get", "GetAttributes", "GetAttributeList", "Activate", "Revoke",
                                                     "Destroy", "Encrypt", "MAC", "DeriveKey", "Get-wrapped-with",
                                                     "ModifyAttribute", "DeleteAttribute"])),
                         "k": draw(st.integers(0, len(objs) - 1)), "k2": draw(st.integers(0, len(objs) - 1))})
    return {"ni": True, "who": who, "objs": objs, "reqs": reqs}


def _ni_build(spec, side):
    H.CLOCK.now = 1_660_000_000
    srv = H.Server(policies=_ni_policies())
    uids = []
    for k, o in enumerate(spec["objs"]):
        v = o[side]
        bits = v["bits"] if o["t"] == "SymmetricKey" else None
        it = F.register_item(o["t"], mask=v["mask"], label="ni%d" % k, bits=bits,
                             extra_attrs=[["Name", v["name"]], ["Object Group", v["group"]],
                                          ["Operation Policy Name", o["pol"]]])
        H.CLOCK.tick()
        cli = H.Client(srv, o["owner"], None, (1, 2))
        r = cli.one(it, tick=False)
        if r["status"] != "SUCCESS":
            srv.close()
            raise core.HarnessError("C03 non-interference store: register failed %r" % (r,))
        uids.append(r["payload"]["uid"])
        if v["active"] and o["pol"] != "public":
            cli.one({"op": "Activate", "uid": uids[-1]}, tick=False)
    return srv, uids


def _ni_item(req, uids, t0):
    if req["op"] == "Locate":
        attrs = []
        for n, val in req["f"]:
            if n == "Unique Identifier":
                val = uids[int(val[1:])]
            elif n == "Initial Date":
                val = t0 + {"$t": 1, "$t-": 0, "$t+": 3}[val]
            attrs.append([n, val])
        return {"op": "Locate", "attrs": attrs}, tuple(req["v"])
    u, u2 = uids[req["k"]], uids[req["k2"]]
    blk = "00112233445566778899aabbccddeeff"
    op = req["op"]
    if op in ("Get", "GetAttributes", "GetAttributeList", "Activate", "Destroy"):
        return {"op": op, "uid": u}, (1, 2)
    if op == "Revoke":
        return {"op": "Revoke", "uid": u, "code": "KEY_COMPROMISE"}, (1, 2)
    if op == "Encrypt":
        return {"op": "Encrypt", "uid": u, "params": {"alg": "AES", "mode": "CBC", "pad": "PKCS5"}, "data": blk, "iv": blk}, (1, 2)
    if op == "MAC":
        return {"op": "MAC", "uid": u, "params": {"alg": "HMAC_SHA256"}, "data": blk}, (1, 2)
    if op == "DeriveKey":
        return {"op": "DeriveKey", "uids": [u2, u] if u2 != u else [u], "method": "HASH",
                "attrs": [["Cryptographic Length", 128], ["Cryptographic Algorithm", "AES"]],
                "dp": {"params": {"hash": "SHA_256"}, "data": "01"}}, (1, 2)
    if op == "Get-wrapped-with":
        return {"op": "Get", "uid": u2, "wrap": {"eki": {"uid": u, "params": {"mode": "NIST_KEY_WRAP"}},
                                                 "enc": "NO_ENCODING"}}, (1, 2)
    if op == "ModifyAttribute":
        return {"op": "ModifyAttribute", "uid": u, "attr": ["Name", "renamed", 0]}, (1, 2)
    return {"op": "DeleteAttribute", "uid": u, "name": "Object Group", "index": 0}, (1, 2)


def run_ni(spec):
    who = spec["who"]
    a, ua = _ni_build(spec, "a")
    b = None
    buckets, classes = [], ["non-interference"]
    nontrivial = False
    try:
        b, ub = _ni_build(spec, "b")
        if ua != ub:
            raise core.HarnessError("C03 non-interference: the two stores numbered their objects differently")
        t0 = 1_660_000_000
        hidden = [k for k, o in enumerate(spec["objs"]) if _ni_hidden(o, who) and o["a"] != o["b"]]
        for req in spec["reqs"]:
            item, v = _ni_item(req, ua, t0)
            try:
                ra = H.Client(a, who, None, v).one(item, tick=False)
            except Exception:
                classes.append("ni:request-not-expressible")     # the library cannot encode it
                continue
            rb = H.Client(b, who, None, v).one(item, tick=False)
            key = req["op"]
            if req["op"] == "Locate":
                nd = sum(1 for f in req["f"] if f[0] == "Initial Date")
                classes.append("ni:locate-dates-%d" % min(nd, 4))
            elif req["k"] in hidden or (req["op"] in ("DeriveKey", "Get-wrapped-with") and req["k2"] in hidden):
                classes.append("ni:op-on-hidden-object")
            if hidden:
                nontrivial = True
            pa = {x: ra.get(x) for x in ("status", "reason", "message", "payload")}
            pb = {x: rb.get(x) for x in ("status", "reason", "message", "payload")}
            for p in (pa, pb):      # values the server draws at random
                pl = p.get("payload")
                if isinstance(pl, dict):
                    for x in ("iv", "data", "mac"):
                        if req["op"] in ("Encrypt",) and pl.get(x) is not None and x == "iv":
                            pl[x] = "<random>"
            if pa != pb:
                buckets.append(("C03|answer-depends-on-objects-the-requester-may-not-touch|" + key,
                                "%s as %s: %r\n store A: %r\n store B: %r\n objects (A/B differ only where hidden): %r"
                                % (item, who, req, pa, pb, spec["objs"])))
    finally:
        a.close()
        if b is not None:
            b.close()
    seen = {}
    for k, d in buckets:
        seen.setdefault(k, d)
    return list(seen.items()), nontrivial, classes


def ni_worker(n, seed):
    col = core.Collector(PID)

    def one(spec):
        b, nt, cl = run_ni(spec)
        col.record(spec, nontrivial=nt, classes=sorted(set(cl)), buckets=b)

    core.draw_examples(gen_ni(), n, seed, one)
    return col



def history_worker(n, seed):
    col = core.Collector(PID)

    def one(spec):
        b, nt, cl = run_history(spec)
        col.record(spec, nontrivial=nt, classes=sorted(set(cl)) + ["history"], buckets=b)

    core.draw_examples(gen_history(), n, seed, one)
    return col


def replay(spec):
    if spec.get("ni"):
        return run_ni(spec)[0]
    if "steps" in spec:
        return run_history(spec)[0]
    if "locate-as" in spec:
        return replay_locate(spec)
    return run_cell(spec)[0]


def replay_locate(spec):
    db, policies, shapes, index, helpers = table_template()
    ldb, lobjs = locate_template()
    srv = H.Server(policies=policies, template=ldb)
    try:
        who, g, filt = spec["locate-as"], spec["groups"], spec.get("filter")
        r = H.Client(srv, who, g, (1, 2)).one({"op": "Locate"} if filt is None else {"op": "Locate", "attrs": [filt]})
        listed = set(r["payload"]["uids"]) if r["payload"] else set()
        bad = []
        for u in listed:
            if u not in lobjs:
                continue
            pn, t, owner = lobjs[u]
            if pn[0] == "p" and pn[1:].isdigit():
                shape = shapes[int(pn[1:])]
            elif pn == "missing":
                shape = None
            else:
                shape = {"preset": builtin_variant(pn, t, enums.Operation.LOCATE), "groups": None}
            if model_allowed(shape, who, g, owner) is False:
                bad.append(u)
        return [("C03|locate-lists-object-denied-to-requester", repr(bad[:5]))] if bad else []
    finally:
        srv.close()


def run(ctx):
    table_template()        # built in the parent, inherited by the forked shards
    locate_template()
    n = core.NCPU
    dicts = core.run_sharded("vlib.props.c03", "table_worker", [(ctx.tier, i, n) for i in range(n)])
    nh = ctx.n(800, 8000)
    dicts += core.run_sharded("vlib.props.c03", "history_worker",
                              [(nh // n, core.derive_seed(ctx.seed, "c03", i)) for i in range(n)])
    nn = ctx.n(640, 8000)
    dicts += core.run_sharded("vlib.props.c03", "ni_worker",
                              [(nn // n, core.derive_seed(ctx.seed, "c03ni", i)) for i in range(n)])
    col = core.merged(PID, dicts)
    col.extra["exhaustive"] = False
    col.extra["table_exhaustive_over"] = ("policy shapes x requester x group info x operations x "
                                          + ("2 object types per operation" if ctx.quick else "all 7 object types"))
    return col
