"""C13 - well-formed requests never hit the server's internal-error path (General Failure)."""
import copy

from hypothesis import strategies as st

from vlib import core, harness as H, menus as M, store
from vlib import fixtures as F

PID = "C13"
LEVEL = "exploration"
RULE = ("grid: operation menu (valid / absent-optional / inapplicable / unknown attribute / "
        "unsupported algorithm, mode, padding, hash, size / identifier live, destroyed, never, "
        "absent) x stored object type (7) x lifecycle state (4) x KMIP version, each request "
        "encoded by the library, decoded as the session does and run against a byte copy of a "
        "standard store; plus Hypothesis-perturbed menu items in sequences of 1-3 requests. "
        "non-trivial = the request was decoded and reached an operation handler (its item is not "
        "an Operation-Not-Supported/version refusal); distinct by canonical spec hash")
ASSUMPTIONS = ["'well-formed' = the library encoded it and the server's decoder accepted it",
               "General Failure detected both in the response and via the exception logged on "
               "kmip.server.engine; a non-KmipError escaping process_request counts as well",
               "the store template is deterministic (harness clock, fixed key material)"]


def _resolve_ts(req):
    ts = req.get("ts")
    if isinstance(ts, str):
        now = int(H.CLOCK.now)
        req = dict(req)
        req["ts"] = {"now": now, "stale": now - 1000, "future": now + 1000}[ts]
    return req


def run_case(spec, server=None):
    """Returns (buckets, nontrivial, classes)."""
    own = server is None
    if own:
        server, _ = store.fresh_server()
    buckets = []
    nontrivial = False
    classes = []
    try:
        for req in spec["reqs"]:
            req = dict(req)
            who = req.pop("who", spec.get("who", "alice"))
            H.CLOCK.tick()
            req = _resolve_ts(req)
            try:
                data = H.encode_request(req)
            except Exception:
                classes.append("unencodable")
                continue
            r = server.process(data, (who, None))
            if r["stage"] == "decode":
                classes.append("decoder-refused")
                continue
            for e in r["internal"]:
                buckets.append((core.exc_bucket(PID, "internal", e, keep_quotes=True),
                                "%s: %s" % (type(e).__name__, e)))
            if r["stage"] == "request":
                from kmip.core import exceptions as kexc
                if not isinstance(r["error"], kexc.KmipError):
                    buckets.append((core.exc_bucket(PID, "request-level", r["error"], keep_quotes=True),
                                    repr(r["error"])))
                else:
                    classes.append("request-level-kmip-error")
                continue
            if r["stage"] == "encode":
                buckets.append((core.exc_bucket(PID, "response-encode", r["error"], keep_quotes=True),
                                repr(r["error"])))
                continue
            items = H.response_plain(r["resp"], tuple(req.get("v", (1, 2))))
            for it in items:
                if it["reason"] == "GENERAL_FAILURE" and not r["internal"]:
                    buckets.append(("C13|general-failure-without-log|%s" % it["op"], str(it)))
                if it["reason"] != "OPERATION_NOT_SUPPORTED":
                    nontrivial = True
                classes.append("result:%s" % (it["reason"] or "SUCCESS"))
    finally:
        if own:
            server.close()
    # de-duplicate bucket keys within the case
    seen = {}
    for k, d in buckets:
        seen.setdefault(k, d)
    return list(seen.items()), nontrivial, classes


def replay(spec):
    if spec.get("empty_store"):
        return run_template_case(spec)[0]
    b, _, _ = run_case(spec)
    return b


# ------------------------------------------------------------------ grid
def grid_cases(versions):
    _, idx = store.standard_template()
    cases = []
    for v in versions:
        for key, uid in sorted(idx.items()):
            if "/" not in key:
                continue
            for label, item in M.object_menu(uid, idx) + M.attr_menu(uid, v):
                cases.append({"label": "%s@%s" % (label, key), "reqs": [{"v": list(v), "items": [item]}]})
        for label, item in M.store_menu(idx, v):
            cases.append({"label": label, "reqs": [{"v": list(v), "items": [item]}]})
        for label, req in M.header_menu():
            cases.append({"label": label, "reqs": [dict(req, v=list(v))]})
        # batches: every creating operation followed by every identifier-less (ID placeholder) item
        creators = [("Create", F.create_item()), ("Register", F.register_item("SymmetricKey", label="b13")),
                    ("RegisterSecret", F.register_item("SecretData", label="b13s")),
                    ("CreateKeyPair", F.keypair_item()),
                    ("DeriveKey", {"op": "DeriveKey", "uids": [idx["SymmetricKey/ACTIVE"]], "method": "PBKDF2",
                                   "attrs": [["Cryptographic Length", 128], ["Cryptographic Algorithm", "AES"],
                                             ["Cryptographic Usage Mask", F.ALL_MASK]],
                                   "dp": {"params": {"hash": "SHA_256"}, "salt": "0102", "iter": 1}})]
        from vlib import hist as _hist
        # a Locate (one match / several / none) in front of identifier-less items
        locs = [("one", {"op": "Locate", "attrs": [["Name", "n-SymmetricKey-ACTIVE"]]}),
                ("many", {"op": "Locate", "attrs": [["Object Type", "SymmetricKey"]]}),
                ("none", {"op": "Locate", "attrs": [["Name", "no-such-name"]]})]
        for ll, litem in locs:
            for pop in _hist.PLACEHOLDER_OPS:
                if pop in ("Encrypt", "MAC", "Sign") and tuple(v) < (1, 2):
                    continue
                req = {"v": list(v), "cont": "CONTINUE",
                       "items": [litem, _hist.placeholder_item(pop, v), {"op": "GetAttributes"}]}
                cases.append({"label": "Batch/Locate-%s+%s" % (ll, pop), "reqs": [req]})
        # whatever can be stored can be read back: every creating request of the store menu
        # followed, in the same batch, by identifier-less Get / GetAttributes / GetAttributeList
        for label, item in M.store_menu(idx, v):
            if item.get("op") in ("Register", "Create", "CreateKeyPair", "DeriveKey"):
                req = {"v": list(v), "cont": "CONTINUE",
                       "items": [item, {"op": "Get"}, {"op": "GetAttributes"}, {"op": "GetAttributeList"}]}
                cases.append({"label": "Batch/store-then-read/" + label, "reqs": [req]})
        # an item that has read the object (attributes, names, ... are loaded into the request's
        # database session) in front of every object-addressing request, in ONE batch
        hotk = idx["SymmetricKey/ACTIVE"]
        for label, item in M.object_menu(hotk, idx) + M.attr_menu(hotk, v):
            req = {"v": list(v), "cont": "CONTINUE",
                   "items": [{"op": "GetAttributes", "uid": hotk}, item, {"op": "GetAttributes", "uid": hotk}]}
            cases.append({"label": "Batch/read-then-" + label, "reqs": [req]})
        # the same object named by another spelling of its identifier (a numeric key column takes
        # '07', ' 7', '7.0', '+7' for 7) before and after it is destroyed under its usual spelling
        victim = idx["SymmetricKey/PRE_ACTIVE"]
        for sp in ("0%s", " %s", "%s.0", "+%s", "%s "):
            alias = sp % victim
            firsts = {}
            for label, item in M.object_menu(alias, idx) + M.attr_menu(alias, v):
                firsts.setdefault((label.split("/")[0], item.get("op")), (label, item))
            for label, item in firsts.values():
                cases.append({"label": "Alias/%s@%s" % (label, sp.replace("%s", "N")),
                              "reqs": [{"v": list(v), "items": [{"op": "Get", "uid": alias}]},
                                       {"v": list(v), "items": [{"op": "Destroy", "uid": victim}]},
                                       {"v": list(v), "items": [item]},
                                       {"v": list(v), "items": [{"op": "Locate"}]}]})
        # keys whose stored material is not what its format says or is an unusual member of it
        # (password-protected PKCS#8, other key types, truncated, arbitrary bytes, nothing) read
        # back with every Key Format Type
        for ml, otype, hexval in _odd_keys():
            for stored in ("PKCS_8", "PKCS_1"):
                reg = {"op": "Register", "obj": {"type": otype, "value": hexval, "alg": "RSA", "len": 1024, "fmt": stored},
                       "attrs": [["Cryptographic Usage Mask", 1 if otype == "PrivateKey" else 2]]}
                for f in [None] + list(M.KEY_FORMATS):
                    g = {"op": "Get"} if f is None else {"op": "Get", "fmt": f}
                    cases.append({"label": "Batch/odd-key-%s-as-%s+Get-%s" % (ml, stored, f),
                                  "reqs": [{"v": list(v), "cont": "CONTINUE", "items": [reg, g, {"op": "GetAttributes"}]}]})
        for cl, citem in creators:
            for pop in _hist.PLACEHOLDER_OPS:
                if pop in ("Encrypt", "MAC", "Sign") and tuple(v) < (1, 2):
                    continue
                for cont in (None, "CONTINUE"):
                    req = {"v": list(v), "items": [citem, _hist.placeholder_item(pop, v), {"op": "GetAttributes"}]}
                    if cont:
                        req["cont"] = cont
                    cases.append({"label": "Batch/%s+%s" % (cl, pop), "reqs": [req]})
    return cases


_ODD = []


def _odd_keys():
    """[(label, object type, hex material)] - made once with the cryptography library."""
    if _ODD:
        return _ODD
    from cryptography.hazmat.primitives import serialization as ser
    from cryptography.hazmat.primitives.asymmetric import rsa, ec, ed25519
    k = rsa.generate_private_key(public_exponent=65537, key_size=1024)
    p8 = k.private_bytes(ser.Encoding.DER, ser.PrivateFormat.PKCS8, ser.NoEncryption())
    _ODD.extend([
        ("pkcs8-password-protected", "PrivateKey",
         k.private_bytes(ser.Encoding.DER, ser.PrivateFormat.PKCS8, ser.BestAvailableEncryption(b"pw")).hex()),
        ("pkcs8-ec", "PrivateKey", ec.generate_private_key(ec.SECP256R1()).private_bytes(
            ser.Encoding.DER, ser.PrivateFormat.PKCS8, ser.NoEncryption()).hex()),
        ("pkcs8-ed25519", "PrivateKey", ed25519.Ed25519PrivateKey.generate().private_bytes(
            ser.Encoding.DER, ser.PrivateFormat.PKCS8, ser.NoEncryption()).hex()),
        ("pkcs8-truncated", "PrivateKey", p8[:len(p8) // 2].hex()),
        ("pem-text", "PrivateKey", k.private_bytes(ser.Encoding.PEM, ser.PrivateFormat.PKCS8, ser.NoEncryption()).hex()),
        ("arbitrary-bytes", "PrivateKey", "3003020100"),
        ("public-spki-ec", "PublicKey", ec.generate_private_key(ec.SECP256R1()).public_key().public_bytes(
            ser.Encoding.DER, ser.PublicFormat.SubjectPublicKeyInfo).hex()),
        ("public-arbitrary", "PublicKey", "00" * 16),
    ])
    return _ODD


def grid_worker(versions, shard, nshards):
    col = core.Collector(PID)
    cases = grid_cases(versions)
    for i, spec in enumerate(cases):
        if i % nshards != shard:
            continue
        b, nt, cl = run_case(spec)
        op = spec["label"].split("/")[0]
        col.record(spec, nontrivial=nt, classes=["grid:" + op] + cl, buckets=b)
    return col


# ------------------------------------------------------------------ random perturbation
_ENUM_LISTS = [M.MODES, M.PADS, M.HASHES, M.ALGS, M.DSAS, M.REVOKE_CODES, M.KEY_FORMATS,
               M.DERIVATION_METHODS, M.QUERY_FUNCTIONS, list(H.OBJECT_TYPES)]
_INTS = [0, 1, 2, 7, 8, 12, 16, 63, 64, 128, 255, 256, 1024, 2 ** 31 - 1, -1, -2 ** 31]
_HEXCHARS = set("0123456789abcdef")


def _perturb(draw, node, depth=0):
    if isinstance(node, dict):
        out = {}
        for k, v in node.items():
            if k in ("op", "uid", "uids", "bid", "tag") and not draw(st.integers(0, 19)) == 0:
                out[k] = v
                continue
            if k not in ("op", "type", "obj", "items") and depth > 0 and draw(st.integers(0, 14)) == 0:
                continue            # drop an optional field
            out[k] = _perturb(draw, v, depth + 1)
        return out
    if isinstance(node, list):
        return [_perturb(draw, x, depth + 1) for x in node]
    if isinstance(node, bool) or node is None:
        return node
    if draw(st.integers(0, 3)) != 0:
        return node
    if isinstance(node, int):
        return draw(st.sampled_from(_INTS))
    if isinstance(node, str):
        for lst in _ENUM_LISTS:
            if node in lst:
                return draw(st.sampled_from(lst))
        if node and len(node) % 2 == 0 and set(node) <= _HEXCHARS:
            n = draw(st.sampled_from([0, 1, 7, 8, 12, 15, 16, 17, 24, 32, 33, 64]))
            return draw(st.binary(min_size=n, max_size=n)).hex()
    return node


@st.composite
def random_case(draw):
    _, idx = store.standard_template()
    keys = sorted(idx)
    nreq = draw(st.sampled_from([1, 1, 2, 3]))
    reqs = []
    for _ in range(nreq):
        v = draw(st.sampled_from(H.VERSIONS))
        key = draw(st.sampled_from(keys))
        pool = draw(st.sampled_from(["object", "object", "attr", "store"]))
        if pool == "object":
            menu = M.object_menu(idx[key], idx)
        elif pool == "attr":
            menu = M.attr_menu(idx[key], v)
        else:
            menu = M.store_menu(idx, v)
        label, item = menu[draw(st.integers(0, len(menu) - 1))]
        item = _perturb(draw, copy.deepcopy(item))
        reqs.append({"v": list(v), "items": [item], "who": draw(st.sampled_from(["alice", "alice", "bob"]))})
    return {"label": "random", "reqs": reqs}


def random_worker(n, seed):
    col = core.Collector(PID)

    def one(spec):
        b, nt, cl = run_case(spec)
        ops = sorted(set(i["op"] for r in spec["reqs"] for i in r["items"]))
        col.record(spec, nontrivial=nt, classes=["random:" + o for o in ops] + cl, buckets=b)

    core.draw_examples(random_case(), n, seed, one)
    return col


def run_template_case(spec):
    """The template-building requests on an EMPTY store, judged like any other case."""
    srv = H.Server()
    try:
        return run_case(spec, srv)
    finally:
        srv.close()


def run(ctx):
    versions = [(1, 0), (1, 2), (2, 0)] if ctx.quick else list(H.VERSIONS)
    tspec = {"label": "template-build", "empty_store": True, "reqs": store.template_requests()}
    tb, tnt, tcl = run_template_case(tspec)
    if tb:
        # the standard store itself cannot be built without hitting the internal-error path
        col = core.Collector(PID)
        col.record(tspec, nontrivial=True, classes=["template-build"] + tcl, buckets=tb)
        return col
    try:
        store.standard_template()
    except store.TemplateError as e:
        # the complete build history (state changes, destroy-then-register, ...) as one case
        tspec = {"label": "template-build", "empty_store": True, "reqs": e.reqs}
        tb, tnt, tcl = run_template_case(tspec)
        if not tb:
            raise core.HarnessError("standard store cannot be built: %s" % e)
        col = core.Collector(PID)
        col.record(tspec, nontrivial=True, classes=["template-build"] + tcl, buckets=tb)
        return col
    n = core.NCPU
    jobs = [(versions, i, n) for i in range(n)]
    dicts = core.run_sharded("vlib.props.c13", "grid_worker", jobs)
    nrand = ctx.n(6000, 60000)
    rjobs = [(nrand // n, core.derive_seed(ctx.seed, "c13", i)) for i in range(n)]
    dicts += core.run_sharded("vlib.props.c13", "random_worker", rjobs)
    col = core.merged(PID, dicts)
    col.extra["grid_exhaustive_over_menu"] = True
    col.extra["versions"] = ["%d.%d" % v for v in versions]
    return col
