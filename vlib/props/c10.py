"""C10 - concurrent sessions behave as if served one request at a time (harness-owned schedules)."""
import copy
import shutil

from hypothesis import strategies as st
from sqlalchemy import event

from kmip.core import exceptions as kexc
from kmip.services.server import session as session_mod

from vlib import core, harness as H, hist, sched, store
from vlib import fixtures as F

PID = "C10"
LEVEL = "exploration"
RULE = ("workloads of 2-3 real KmipSession threads (different identities, KMIP versions 1.0-2.0, 1-3 "
        "requests each: creators, lifecycle changes, Locate/Get/GetAttributes, version-gated "
        "operations and attributes, ID-placeholder batches, undecodable frames) sharing one engine; "
        "a deterministic scheduler lets exactly one thread run and switches only at yield points "
        "(every function call in server/engine.py, policy.py, session.py, auth/slugs.py, auth/utils.py "
        "and core/messages/messages.py - i.e. also while a request is decoded, the identity is "
        "established and the response is encoded outside the engine lock -, every SQL statement, "
        "every lock operation, every recv, every HTTP round trip of the authentication plug-in (a "
        "quarter of the workloads run with a SLUGS block enabled and one settings list shared by "
        "all sessions, as KmipServer does) according to a Hypothesis-generated choice sequence; engine._lock is replaced "
        "by a scheduler-aware re-entrant lock of identical semantics. Oracle: the responses per "
        "(client, request) and the final raw tables must equal those of SOME sequential order "
        "consistent with each client's own order (search over orders on database copies, pruned by "
        "matching responses); created objects must be owned by the identity of the request that "
        "reported them. non-trivial = schedule with at least one context switch away from a thread "
        "that was inside a request; distinct by (workload, choice sequence)")
ASSUMPTIONS = ["only interleavings at the instrumented yield points are explored; pre-emption inside "
               "C extensions (sqlite3, cryptography) is not",
               "sessions are driven through KmipSession._handle_message_loop with in-memory "
               "connections and real certificates; TLS and the accept loop are outside the property",
               "the harness clock is frozen during a workload, generated key material is masked"]

NOW = 1_700_003_000
TRACE_FILES = ("services/server/engine.py", "services/server/policy.py", "services/server/session.py",
               "services/server/auth/slugs.py", "services/server/auth/utils.py",
               "core/messages/messages.py")
SLUGS_SETTINGS = [("auth:slugs", {"enabled": "True", "url": "http://slugs.test:8080/slugs/"})]


class _Resp(object):
    def __init__(self, status, body=None):
        self.status_code = status
        self._body = body

    def json(self):
        return self._body


class SlugsStub(object):
    """Stands in for `requests` inside auth/slugs.py: every user is known and belongs to the group
    'grp-<user>'; an HTTP round trip is a point where another session may run."""

    def __init__(self, real):
        self._real = real
        self.sched = None

    def get(self, url, **kw):
        if self.sched is not None:
            self.sched.yield_point("http")
        parts = url.rstrip("/").split("/")
        if parts[-1] == "groups" and len(parts) >= 3 and parts[-3] == "users":
            return _Resp(200, {"groups": ["grp-" + parts[-2]]})
        if len(parts) >= 2 and parts[-2] == "users":
            return _Resp(200, {"name": parts[-1]})
        return _Resp(404)

    def __getattr__(self, name):
        return getattr(self._real, name)


_slugs = {}


def slugs_stub():
    from kmip.services.server.auth import slugs as slugs_mod
    if "stub" not in _slugs:
        _slugs["stub"] = SlugsStub(slugs_mod.requests)
        slugs_mod.requests = _slugs["stub"]
    return _slugs["stub"]
USERS = ["alice", "bob", "carol"]


# ---------------------------------------------------------------- workload generation
@st.composite
def gen_frame(draw, idx, only=None):
    v = draw(st.sampled_from(H.VERSIONS))
    pool = hist.pool_items(idx, v)
    kind = only or draw(st.sampled_from(["creator", "creator", "pool", "pool", "versioned", "batch", "garbage",
                                 "refused-as-a-whole", "hot", "hot"]))
    if kind in ("hot", "hot-new"):
        # reads and state changes of ONE object that every session of its owner goes for: an
        # object of the store, or the object the first session is about to create (identifiers
        # are handed out in sequence, so the others can name it)
        hot = idx["SymmetricKey/PRE_ACTIVE"]
        if kind == "hot-new":
            hot = str(max(int(u) for u in idx.values() if str(u).isdigit()) + 1)
        item = draw(st.sampled_from([
            {"op": "GetAttributes", "uid": hot}, {"op": "GetAttributes", "uid": hot, "names": ["State"]},
            {"op": "GetAttributes", "uid": hot, "names": ["State"]}, {"op": "GetAttributeList", "uid": hot},
            {"op": "Get", "uid": hot}, {"op": "Activate", "uid": hot}, {"op": "Activate", "uid": hot},
            {"op": "Activate", "uid": hot},
            {"op": "Revoke", "uid": hot, "code": "CESSATION_OF_OPERATION"},
            {"op": "Revoke", "uid": hot, "code": "KEY_COMPROMISE"}, {"op": "Destroy", "uid": hot},
            {"op": "Locate", "attrs": [["State", "ACTIVE"]]},
            {"op": "ModifyAttribute", "uid": hot, "attr": ["Name", "hot-renamed", 0]} if v < (2, 0)
            else {"op": "SetAttribute", "uid": hot, "new": ["Sensitive", True]}]))
        return {"v": list(v), "items": [item]}
    if kind == "refused-as-a-whole":
        # requests the engine refuses before any item runs: the error answer is built by the
        # session after the engine has been left
        fr = {"v": list(v), "items": [{"op": "Query"}]}
        how = draw(st.sampled_from(["stale", "future", "async", "undo", "no-items"]))
        if how == "stale":
            fr["ts"] = 1_000_000_000
        elif how == "future":
            fr["ts"] = 2_000_000_000
        elif how == "async":
            fr["async"] = True
        elif how == "undo":
            fr["cont"] = "UNDO"
        else:
            fr["items"] = []
        return fr
    if kind == "garbage":
        return {"garbage": draw(st.sampled_from(["42007801000000100000000000000000" + "00" * 8,
                                                 "420078010000000842006901000000" + "00" * 1]))}
    if kind == "creator":
        items = [draw(st.sampled_from([F.create_item(extra_attrs=[["Name", "c10-a"]]),
                                       F.register_item("SymmetricKey", label="c10", extra_attrs=[["Name", "c10-b"]]),
                                       F.register_item("SecretData", label="c10s"),
                                       F.keypair_item()]))]
    elif kind == "versioned":
        items = [draw(st.sampled_from([
            {"op": "Encrypt", "uid": idx["SymmetricKey/ACTIVE"], "params": {"alg": "AES", "mode": "CBC", "pad": "PKCS5"},
             "data": "00" * 16, "iv": "00" * 16},
            {"op": "GetAttributes", "uid": idx["SymmetricKey/ACTIVE"]},
            {"op": "GetAttributeList", "uid": idx["SymmetricKey/ACTIVE"]},
            {"op": "Query"}, {"op": "DiscoverVersions"},
            {"op": "Create", "attrs": [["Cryptographic Algorithm", "AES"], ["Cryptographic Length", 128],
                                       ["Cryptographic Usage Mask", 12], ["Sensitive", True]]},
            {"op": "Locate"},
            {"op": "Locate", "attrs": [["Object Type", "SymmetricKey"]]},
        ]))]
    elif kind == "batch":
        op = draw(st.sampled_from(["Get", "GetAttributes", "Destroy", "GetAttributeList"]))
        items = [F.create_item(extra_attrs=[["Name", "c10-p"]]), hist.placeholder_item(op, v)]
    else:
        items = [pool[draw(st.integers(0, len(pool) - 1))][1]]
    return {"v": list(v), "items": copy.deepcopy(items)}


@st.composite
def gen_workload(draw):
    _, idx = store.standard_template()
    nc = draw(st.sampled_from([2, 2, 2, 3]))
    users = draw(st.permutations(USERS))[:nc]
    if draw(st.integers(0, 2)) == 0:
        users = ["alice"] * nc          # one user on several connections
    clients = []
    contention = draw(st.integers(0, 1)) == 0
    if contention:
        users = ["alice"] * nc      # every session belongs to the owner of the contended object
    newobj = contention and draw(st.booleans())
    for k, u in enumerate(users):
        nf = draw(st.sampled_from([1, 2, 2, 3] if nc == 2 else [1, 1, 2]))
        if contention:
            nf = draw(st.sampled_from([1, 2, 2, 3]))
        frames = [draw(gen_frame(idx, ("hot-new" if newobj else "hot") if contention else None))
                  for _ in range(nf)]
        if newobj and k == 0:
            hot_new = str(max(int(x) for x in idx.values() if str(x).isdigit()) + 1)
            # the creating session reads its new object back before it goes on
            frames = [{"v": [1, 2], "items": [F.create_item(extra_attrs=[["Name", "c10-hot"]])]},
                      {"v": [1, 2], "items": [{"op": "GetAttributes", "uid": hot_new}]}] + frames
        clients.append({"who": u, "frames": frames})
    nsched = draw(st.just(6))
    schedules = []
    for k in range(nsched):
        if k < 2:
            # coin per yield point
            ln = draw(st.sampled_from([0, 3, 8, 20, 60]))
            schedules.append(draw(st.lists(st.sampled_from([0, 0, 0, 0, 0, 1, 1, 2]), min_size=ln, max_size=ln)))
        else:
            # switch probability per KIND of yield point (lock hand-over, SQL statement, function
            # call, between requests): reaches windows that need a switch exactly at a lock
            # release or exactly at a statement
            pol = {"recv": draw(st.sampled_from([0, 0, 20, 60])),
                   "lock-release": draw(st.sampled_from([0, 50, 100, 100])),
                   "lock-acquire": draw(st.sampled_from([0, 30, 100])),
                   "sql": draw(st.sampled_from([0, 5, 30])),
                   "call": draw(st.sampled_from([0, 2, 10, 30])),
                   "http": draw(st.sampled_from([0, 50, 100])),
                   "lock-timeout": draw(st.sampled_from([0, 0, 50, 100])),
                   "between-requests": draw(st.sampled_from([0, 50, 100]))}
            ln = draw(st.sampled_from([40, 150, 400]))
            schedules.append({"policy": pol,
                              "choices": draw(st.lists(st.integers(0, 299), min_size=ln, max_size=ln))})
    w = {"clients": clients, "schedules": schedules}
    if draw(st.integers(0, 3)) == 0:
        # identities vouched for by an authentication plug-in (one HTTP round trip per request,
        # made before the engine is entered): identity = (user, ['grp-<user>'])
        w["slugs"] = True
    return w


def frame_bytes(fr):
    if "garbage" in fr:
        return bytes.fromhex(fr["garbage"])
    return H.encode_request(fr)


# ---------------------------------------------------------------- normalisation
def norm_response(data, fr, template_uids):
    if data is None:
        return None
    if isinstance(data, str):
        return data
    v = tuple(fr.get("v", (1, 2))) if "garbage" not in fr else None
    try:
        items = H.response_plain(data, v or H.ttlvref.response_version(data))
    except Exception:
        return {"raw": data.hex()}
    for it in items:
        p = it.get("payload")
        if p and isinstance(p, dict) and p.get("secret") and str(p.get("uid")) not in template_uids:
            p["secret"]["value"] = "<masked>"
    # the header's protocol version is part of the answer (an error answer built after the engine
    # was left must still speak the version of ITS request)
    try:
        hv = list(H.ttlvref.response_version(data))
    except Exception:
        hv = None
    return [{"header-version": hv}] + items


def masked_snapshot(server, template_uids):
    d = server.raw_dump()
    t = d["managed_objects"]
    ui, vi = t["cols"].index("uid"), t["cols"].index("value")
    for r in t["rows"]:
        if str(r[ui]) not in template_uids:
            r[vi] = "<masked>"
    return d


# ---------------------------------------------------------------- runs
def sequential_step(server, who, fr, slugs=False):
    """One frame on its own connection, as a session would serve it; returns response or EXC tag."""
    H.CLOCK.now = NOW
    if slugs:
        slugs_stub().sched = None
    conn, errs = server.session(frame_bytes(fr), cn=who,
                                auth_settings=list(SLUGS_SETTINGS) if slugs else None)
    if errs:
        return "EXC:" + type(errs[0]).__name__
    return conn.sent[0] if conn.sent else None


def _instrument(eng, s):
    """Put one engine under the scheduler: its lock becomes a scheduler lock of the same kind and
    every SQL statement is a switch point."""
    if getattr(eng, "_verif_sched", None) is s:
        return
    eng._verif_sched = s
    if hasattr(eng, "_lock"):
        import threading as _th
        # same kind of lock as the engine made for itself (a plain Lock may be released by anybody)
        eng._lock = sched.SchedLock(s, reentrant=isinstance(eng._lock, type(_th.RLock())))
    event.listen(eng._data_store, "connect", lambda con, rec: con.execute("PRAGMA busy_timeout = 30"))
    eng._data_store.dispose()
    event.listen(eng._data_store, "before_cursor_execute",
                 lambda conn, cursor, statement, parameters, context, executemany: s.yield_point("sql"))


def _bare_server(srv, settings):
    """A KmipServer as start() leaves it, minus sockets, signal handlers and the policy monitor:
    the object whose _setup_connection_handler gives every accepted connection its session."""
    import logging
    from kmip.services.server import server as server_mod, config as config_mod
    ks = object.__new__(server_mod.KmipServer)
    ks._logger = logging.getLogger("kmip.server")
    ks._session_id = 1
    ks._is_serving = True
    ks.config = config_mod.KmipServerConfig()
    ks.config.settings.update({"enable_tls_client_auth": True, "auth_plugins": settings,
                               "database_path": srv.db, "policy_path": None})
    ks.policies = srv.policies
    ks.live_policies = False
    ks._engine = srv.engine
    return ks


def _accept(ks, conn, started):
    """What serve() does with an accepted connection; the session thread is not started (the
    scheduler runs its message loop) but handed back."""
    plain = session_mod.KmipSession.start
    session_mod.KmipSession.start = lambda self: started.append(self)
    try:
        n = len(started)
        ks._setup_connection_handler(conn, ("127.0.0.1", 5696))
        if len(started) != n + 1:
            raise core.HarnessError("KmipServer._setup_connection_handler started no session")
        return started[-1]
    finally:
        session_mod.KmipSession.start = plain


def concurrent_run(spec, choices):
    srv, idx = store.fresh_server()
    H.CLOCK.now = NOW
    eng = srv.engine
    if isinstance(choices, dict):
        s = sched.Scheduler(choices["choices"], TRACE_FILES, policy=choices["policy"])
    else:
        s = sched.Scheduler(choices, TRACE_FILES)
    _instrument(eng, s)
    conns = []
    fns = []
    results = []
    # as in KmipServer: ONE settings list handed to every session
    shared_settings = None
    if spec.get("slugs"):
        slugs_stub().sched = s
        shared_settings = [(n_, dict(c_)) for n_, c_ in SLUGS_SETTINGS]
    # sessions are made where the server makes them (KmipServer._setup_connection_handler), so
    # that what the sessions of two connections share is what the server lets them share
    ks = _bare_server(srv, shared_settings)
    started = []
    for ci, c in enumerate(spec["clients"]):
        data = b"".join(frame_bytes(fr) for fr in c["frames"])
        # the transport delivers each message in pieces and every recv() is a switch point
        # (the harness owns the transport, so it owns this part of the schedule too)
        conn = SchedConnection(s, data, spec.get("chunks") or [5, 3, 64, 17, 200], H.make_cert((c["who"],), "client"))
        sess = _accept(ks, conn, started)
        _instrument(sess._engine, s)
        conns.append(conn)
        res = []
        results.append(res)

        def fn(sess=sess, conn=conn, res=res, ci=ci, n=len(c["frames"])):
            for k in range(n):
                before = len(conn.sent)
                s.in_request[ci] = True
                try:
                    sess._handle_message_loop()
                    res.append(conn.sent[before] if len(conn.sent) > before else None)
                except kexc.ConnectionClosed:
                    res.append(None)
                except Exception as e:
                    res.append("EXC:" + type(e).__name__)
                finally:
                    s.in_request[ci] = False
                s.yield_point("between-requests")
        fns.append(fn)
    ok = s.run(fns, timeout=25.0)
    if spec.get("slugs"):
        slugs_stub().sched = None
    for sess in started:
        e2 = sess._engine
        if e2 is not eng and hasattr(e2, "_data_store"):
            try:
                e2._data_store.dispose()
            except Exception:
                pass
    return srv, s, results, ok


class SchedConnection(H.FakeConnection):
    def __init__(self, sch, data, chunks, cert):
        H.FakeConnection.__init__(self, data, chunks, cert)
        self._sch = sch

    def recv(self, n):
        self._sch.yield_point("recv")
        return H.FakeConnection.recv(self, n)


class SeqSearch(object):
    """DFS over sequential orders consistent with each client's order, on database copies."""

    def __init__(self, spec, template_uids):
        self.spec = spec
        self.tu = template_uids
        self.cache = {}        # order prefix (tuple of client indices) -> (server, normalised response of last step)
        root, _ = store.fresh_server()
        self.cache[()] = (root, None)
        self.nodes = 0

    def step(self, prefix, ci):
        key = prefix + (ci,)
        if key in self.cache:
            return self.cache[key]
        parent, _ = self.cache[prefix]
        child = parent.fresh_engine_on_copy()
        k = sum(1 for x in prefix if x == ci)
        c = self.spec["clients"][ci]
        fr = c["frames"][k]
        resp = sequential_step(child, c["who"], fr, bool(self.spec.get("slugs")))
        self.nodes += 1
        self.cache[key] = (child, norm_response(resp, fr, self.tu))
        return self.cache[key]

    def explain(self, observed, final_snapshot):
        """observed[ci][k] normalised.  Returns an order (list of client indices) or None."""
        counts = [len(c["frames"]) for c in self.spec["clients"]]
        total = sum(counts)
        best = [0]

        def dfs(prefix, pos):
            if len(prefix) == total:
                srv, _ = self.cache[prefix]
                return list(prefix) if masked_snapshot(srv, self.tu) == final_snapshot else None
            for ci in range(len(counts)):
                if pos[ci] >= counts[ci]:
                    continue
                srv, resp = self.step(prefix, ci)
                if resp != observed[ci][pos[ci]]:
                    continue
                best[0] = max(best[0], len(prefix) + 1)
                npos = list(pos)
                npos[ci] += 1
                r = dfs(prefix + (ci,), npos)
                if r is not None:
                    return r
            return None
        return dfs((), [0] * len(counts)), best[0]

    def close(self):
        for srv, _ in self.cache.values():
            srv.close()


def run_case(spec):
    db, idx = store.standard_template()
    template_uids = set(str(u) for u in idx.values()) | set(str(i) for i in range(1, 40))
    # every uid of the template (1..N): read them from the template itself
    t = H.Server(template=db)
    mo = t.raw_dump()["managed_objects"]
    template_uids = set(str(r[mo["cols"].index("uid")]) for r in mo["rows"])
    t.close()
    search = SeqSearch(spec, template_uids)
    out = []
    try:
        for choices in spec["schedules"]:
            srv, s, results, ok = concurrent_run(spec, choices)
            buckets = []
            try:
                if not ok:
                    out.append(([], False, ["inconclusive:timeout-or-deadlock"], choices))
                    continue
                for tid, e in s.errors.items():
                    buckets.append((core.exc_bucket(PID, "thread-died", e), repr(e)))
                observed = []
                for ci, c in enumerate(spec["clients"]):
                    observed.append([norm_response(r, fr, template_uids) for r, fr in zip(results[ci], c["frames"])])
                    # envelope + version echo
                    for r, fr in zip(results[ci], c["frames"]):
                        if isinstance(r, (bytes, bytearray)) and "garbage" not in fr:
                            its = H.ttlvref.response_items(r)
                            from_batch = bool(its) and its[0]["operation"] is not None
                            probs = H.ttlvref.check_response_envelope(r, tuple(fr["v"]) if from_batch else None)
                            for p in probs:
                                buckets.append(("C10|response-envelope|" + core.norm_msg(p), p))
                short = [ci for ci, c in enumerate(spec["clients"]) if len(results[ci]) < len(c["frames"])]
                if short:
                    # a session never got to answer all its requests: the scheduler found every
                    # remaining session blocked (on the engine lock) with nobody left to release it
                    buckets.append(("C10|requests-never-answered|sessions-blocked-for-good",
                                    "sessions %r answered %r of %r requests; scheduler dead=%r; errors=%r"
                                    % (short, [len(r) for r in results], [len(c["frames"]) for c in spec["clients"]],
                                       s.dead, {t: repr(e)[:120] for t, e in s.errors.items()})))
                    seen = {}
                    for k, d in buckets:
                        seen.setdefault(k, d)
                    out.append((list(seen.items()), True, ["deadlock"], choices))
                    continue
                final = masked_snapshot(srv, template_uids)
                order, depth = search.explain(observed, final)
                if order is None:
                    buckets.append(("C10|not-serializable",
                                    "no sequential order explains the responses and final store "
                                    "(longest matching prefix: %d of %d requests); switches=%d inner=%d\n"
                                    "observed=%r" % (depth, sum(len(c["frames"]) for c in spec["clients"]),
                                                     s.switches, s.inner_switches, observed)))
                # ownership of created objects
                mo = final["managed_objects"]
                ui, oi = mo["cols"].index("uid"), mo["cols"].index("owner")
                owners = {str(r[ui]): r[oi] for r in mo["rows"]}
                for ci, c in enumerate(spec["clients"]):
                    for items in observed[ci]:
                        if isinstance(items, list):
                            for u in hist.created_uids([i for i in items if isinstance(i, dict) and "op" in i and "status" in i]):
                                if str(u) in owners and owners[str(u)] != c["who"]:
                                    buckets.append(("C10|created-object-owned-by-another-identity",
                                                    "uid %s reported to %s is owned by %r" % (u, c["who"], owners[str(u)])))
                classes = ["switches:%s" % min(s.switches, 9), "clients:%d" % len(spec["clients"])]
                if s.inner_switches:
                    classes.append("inner-switch")
                out.append((buckets, s.inner_switches > 0, classes, choices))
            finally:
                srv.close()
    finally:
        search.close()
    return out


def replay(spec):
    keys = []
    for b, nt, cl, ch in run_case(spec):
        keys.extend(b)
    return keys


def worker(n, seed):
    col = core.Collector(PID)

    def one(spec):
        for b, nt, cl, choices in run_case(spec):
            seen = {}
            for k, d in b:
                seen.setdefault(k, d)
            one_spec = {"clients": spec["clients"], "schedules": [choices]}
            if spec.get("slugs"):
                one_spec["slugs"] = True
                cl = cl + ["identity-from-plugin"]
            col.record(one_spec, nontrivial=nt, classes=cl, buckets=list(seen.items()))

    core.draw_examples(gen_workload(), n, seed, one)
    return col


def run(ctx):
    store.standard_template()
    n = core.NCPU
    total = ctx.n(320, 4000)
    dicts = core.run_sharded("vlib.props.c10", "worker",
                             [(max(1, total // n), core.derive_seed(ctx.seed, "c10", i)) for i in range(n)])
    return core.merged(PID, dicts)
