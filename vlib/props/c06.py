"""C06 - Cryptographic operations compute what they claim.

Every case is a JSON spec {"k": kind, "lvl": "d" (direct CryptographyEngine call) | "s" (through
the in-process server), ...}.  Kinds: enc, mac, derive, wrap, sign, rsaenc, create, ckp.
Oracles: inverse, metamorphic, differential against vlib.c06_ref (never the code under test
against itself), exact length and freshness.  Results the backend refuses to produce are not
judged (C13 owns error handling); only returned results are.
"""
import itertools
import warnings

warnings.filterwarnings("ignore")

from vlib import core                      # noqa: E402
from vlib import c06_ref as R              # noqa: E402

PID = "C06"
LEVEL = "exploration"
SHRINK_BUDGET = 12
RULE = (
    "Cases = full itertools.product over the finite tables (7 symmetric algorithms x key sizes x "
    "{CBC,ECB,OFB,CFB,CTR,GCM,no mode} x {PKCS5,ANSI_X923,none} x IV supplied/absent x message "
    "length class {0,1,block-1,block,block+1,1000}; GCM x AAD {absent,empty,non-empty} x tag "
    "length 4..16; HMAC x 6 hashes, CMAC x block ciphers; derivation {HASH,HMAC,PBKDF2,"
    "NIST800_108_C,ENCRYPT} x 6 hashes x salt/iteration/length classes; RFC 3394 wrap of "
    "16/24/32/40-byte material under 128/192/256-bit keys; RSA 1024/2048 x {PKCS1v15,PSS} x 6 "
    "hashes x {digital signature algorithm, (algorithm, hash) pair}; Create x all key sizes; "
    "CreateKeyPair), each run as a direct CryptographyEngine call and through the server, with "
    "keys/IVs/messages drawn by Hypothesis per cell, plus free Hypothesis exploration with "
    "arbitrary lengths.  A case is NON-TRIVIAL when the code under test returned a result that "
    "reached the comparison with the reference (class histogram = distinct (operation, "
    "mechanism, level) tuples; extra.distinct_tuples_judged also splits by IV-supplied and "
    "length class).  Rejected parameter combinations are counted (class ...|rejected) and not "
    "judged.  GCM tag lengths > 16 are not generated (invalid request, C13 domain)."
)
ASSUMPTIONS = [
    "hashlib, hmac and the `cryptography` primitives used by the references (single-block ECB, "
    "Cipher(alg(key), mode(iv)), RSA key parsing) are correct; hand-written references pass "
    "their RFC vectors (c06_ref.selftest, run at start-up)",
    "KMIP DerivationMethod.HMAC means HKDF (RFC 5869) with salt and derivation data as info, "
    "NIST800_108_C means counter mode with HMAC PRF, 32-bit counter before the fixed data "
    "(docs/source/client.rst examples; agreement confirmed on the unchanged tree)",
    "PaddingMethod.PKCS5 means PKCS#7 at the cipher's block size; PSS uses MGF1 over the message "
    "hash, any salt length is accepted",
    "RSA keys are generated with os entropy once per process: key material differs between runs, "
    "the case list does not",
]

_H = None          # vlib.harness, imported lazily (pulls in kmip)
_E = None          # kmip.core.enums


def _mods():
    global _H, _E
    if _H is None:
        from vlib import harness
        from kmip.core import enums
        _H, _E = harness, enums
    return _H, _E


def hx(s):
    return None if s is None else bytes.fromhex(s)


def en(cls, name):
    return None if name is None else cls[name]


# ====================================================================== environment
class Env(object):
    """Per-process state: the engine under test, one server, caches of registered keys."""

    def __init__(self):
        H, E = _mods()
        from kmip.services.server.crypto.engine import CryptographyEngine
        self.cap = H.engine_capture()
        self.eng = CryptographyEngine()
        self.server = None
        self.clients = {}
        self.sym = {}
        self.rsa_uids = {}
        self.rsa_gen = {}

    def client(self, v=(1, 4)):
        H, _ = _mods()
        if self.server is None:
            self.server = H.Server()
        v = tuple(v)
        if v not in self.clients:
            self.clients[v] = H.Client(self.server, "alice", None, v)
        return self.clients[v]

    def close(self):
        if self.server is not None:
            self.server.close()
            self.server = None
        self.clients = {}
        self.sym = {}
        self.rsa_uids = {}

    # ---- server-side key material
    def sym_uid(self, c, otype, alg, key_hex, mask, activate=True, cache=True):
        """Register (once) a SymmetricKey / SecretData with the given value; -> uid."""
        k = (otype, alg, key_hex, mask, activate)
        if cache and k in self.sym:
            return self.sym[k]
        if otype == "SecretData":
            obj = {"type": "SecretData", "value": key_hex, "dtype": "SEED"}
        else:
            obj = {"type": "SymmetricKey", "value": key_hex, "alg": alg, "len": 4 * len(key_hex)}
        r = c.one({"op": "Register", "obj": obj,
                   "attrs": [["Cryptographic Usage Mask", mask]]})
        if r["status"] != "SUCCESS":
            raise core.HarnessError("Register failed: %r" % (r,))
        uid = r["payload"]["uid"]
        if activate:
            a = c.one({"op": "Activate", "uid": uid})
            if a["status"] != "SUCCESS":
                raise core.HarnessError("Activate failed: %r" % (a,))
        if not cache:
            return uid
        if len(self.sym) > 400:
            self.sym.clear()
        self.sym[k] = uid
        return uid

    def rsa_direct(self, src, bits, idx, fmt="PKCS_8"):
        """-> (private_bytes, public_bytes) for direct calls.  src 'ref': made by the reference
        side; 'gen': made by the engine under test (create_asymmetric_key_pair), cached."""
        _, E = _mods()
        if src == "ref":
            k = R.rsa_key(bits, idx)
            pf = "PKCS_1" if fmt.startswith("PKCS_1") else "X_509"
            if fmt.endswith("PEM"):
                pf += "_PEM"
            return R.rsa_private_bytes(k, fmt), R.rsa_public_bytes(k, pf)
        key = (bits, idx)
        if key not in self.rsa_gen:
            pub, priv = self.eng.create_asymmetric_key_pair(E.CryptographicAlgorithm.RSA, bits)
            self.rsa_gen[key] = (priv["value"], pub["value"])
        return self.rsa_gen[key]

    def rsa_server(self, c, src, bits, idx, fmt="PKCS_8"):
        """-> (priv_uid, pub_uid), both Active, masks SIGN / VERIFY."""
        H, _ = _mods()
        M = H.MASK
        key = (src, bits, idx, fmt)
        if key in self.rsa_uids:
            return self.rsa_uids[key]
        if src == "ref":
            priv, pub = self.rsa_direct("ref", bits, idx, fmt)
            base = fmt.replace("_PEM", "")
            pfmt = "PKCS_1" if base == "PKCS_1" else "X_509"
            rp = c.one({"op": "Register",
                        "obj": {"type": "PrivateKey", "value": priv.hex(), "alg": "RSA",
                                "len": bits, "fmt": base},
                        "attrs": [["Cryptographic Usage Mask", M["SIGN"] | M["DECRYPT"]]]})
            ru = c.one({"op": "Register",
                        "obj": {"type": "PublicKey", "value": pub.hex(), "alg": "RSA",
                                "len": bits, "fmt": pfmt},
                        "attrs": [["Cryptographic Usage Mask", M["VERIFY"] | M["ENCRYPT"]]]})
            if rp["status"] != "SUCCESS" or ru["status"] != "SUCCESS":
                raise core.HarnessError("Register RSA failed: %r %r" % (rp, ru))
            pr, pu = rp["payload"]["uid"], ru["payload"]["uid"]
        else:
            r = c.one(_ckp_item(bits))
            if r["status"] != "SUCCESS":
                raise core.HarnessError("CreateKeyPair failed: %r" % (r,))
            pr, pu = r["payload"]["priv"], r["payload"]["pub"]
        for u in (pr, pu):
            a = c.one({"op": "Activate", "uid": u})
            if a["status"] != "SUCCESS":
                raise core.HarnessError("Activate failed: %r" % (a,))
        self.rsa_uids[key] = (pr, pu)
        return pr, pu


def _ckp_item(bits):
    H, _ = _mods()
    M = H.MASK
    return {"op": "CreateKeyPair",
            "common": [["Cryptographic Length", bits], ["Cryptographic Algorithm", "RSA"]],
            "private": [["Cryptographic Usage Mask", M["SIGN"]]],
            "public": [["Cryptographic Usage Mask", M["VERIFY"]]]}


class Out(object):
    """Result of one case."""

    def __init__(self, op, mech, lvl):
        self.op = op
        self.mech = mech
        self.lvl = "engine" if lvl == "d" else "server"
        self.judged = False
        self.fails = []          # (oracle, detail)
        self.notes = []          # extra class labels
        self.tuple_extra = ""

    def fail(self, oracle, detail=""):
        if all(o != oracle for o, _ in self.fails):
            self.fails.append((oracle, str(detail)[:600]))

    def rejected(self, why=""):
        self.judged = False
        self.notes.append("%s|%s|%s|rejected" % (self.op, self.mech, self.lvl))
        return self


def _short(b):
    if b is None:
        return "None"
    b = bytes(b)
    return "%d:%s%s" % (len(b), b[:24].hex(), ".." if len(b) > 24 else "")


# ====================================================================== enc
def _mech_enc(s):
    return "%s-%s-%s" % (s["alg"], s.get("mode") or "NOMODE", s.get("pad") or "NOPAD")


class _Rejected(Exception):
    pass


def _enc_call(env, s, iv, msg):
    """Encrypt through the chosen level. -> dict(ct, iv, tag) or raises _Rejected."""
    _, E = _mods()
    if s["lvl"] == "d":
        try:
            r = env.eng.encrypt(
                en(E.CryptographicAlgorithm, s["alg"]), hx(s["key"]), msg,
                cipher_mode=en(E.BlockCipherMode, s.get("mode")),
                padding_method=en(E.PaddingMethod, s.get("pad")),
                iv_nonce=iv, auth_additional_data=hx(s.get("aad")),
                auth_tag_length=s.get("tl"))
        except Exception as e:
            raise _Rejected(repr(e))
        if not isinstance(r, dict) or r.get("cipher_text") is None:
            raise _Rejected("no cipher text")
        return {"ct": r["cipher_text"], "iv": r.get("iv_nonce"), "tag": r.get("auth_tag")}
    c = env.client(s.get("v", (1, 4)))
    uid = _enc_uid(env, c, s)
    item = {"op": "Encrypt", "uid": uid, "params": _enc_params(s, True), "data": msg.hex(),
            "iv": None if iv is None else iv.hex(), "aad": s.get("aad")}
    r = c.one(item)
    if r["status"] != "SUCCESS" or r["payload"] is None:
        raise _Rejected("%s %s" % (r.get("reason"), r.get("message")))
    p = r["payload"]
    return {"ct": hx(p["data"] or ""), "iv": hx(p["iv"]), "tag": hx(p["tag"])}


def _enc_uid(env, c, s):
    H, _ = _mods()
    M = H.MASK
    return env.sym_uid(c, "SymmetricKey", s["alg"], s["key"], M["ENCRYPT"] | M["DECRYPT"])


def _enc_params(s, with_tl):
    p = {"alg": s["alg"]}
    if s.get("mode"):
        p["mode"] = s["mode"]
    if s.get("pad"):
        p["pad"] = s["pad"]
    if with_tl and s.get("tl") is not None:
        p["tag_length"] = s["tl"]
    return p


def _dec_call(env, s, ct, iv, aad, tag, tl=None):
    """-> ('ok', plaintext) | ('err', text).  tl: a Tag Length parameter to put into the Decrypt
    request (server level only)."""
    _, E = _mods()
    if s["lvl"] == "d":
        try:
            pt = env.eng.decrypt(
                en(E.CryptographicAlgorithm, s["alg"]), hx(s["key"]), ct,
                cipher_mode=en(E.BlockCipherMode, s.get("mode")),
                padding_method=en(E.PaddingMethod, s.get("pad")),
                iv_nonce=iv, auth_additional_data=aad, auth_tag=tag)
        except Exception as e:
            return "err", repr(e)
        return "ok", pt
    c = env.client(s.get("v", (1, 4)))
    uid = _enc_uid(env, c, s)
    params = _enc_params(s, False)
    if tl is not None:
        params["tag_length"] = tl
    r = c.one({"op": "Decrypt", "uid": uid, "params": params, "data": ct.hex(),
               "iv": None if iv is None else iv.hex(),
               "aad": None if aad is None else aad.hex(),
               "tag": None if tag is None else tag.hex()})
    if r["status"] != "SUCCESS" or r["payload"] is None:
        return "err", "%s %s" % (r.get("reason"), r.get("message"))
    return "ok", hx(r["payload"]["data"] or "")


def _flip(b, bit):
    b = bytearray(b)
    bit %= 8 * len(b)
    b[bit // 8] ^= 0x80 >> (bit % 8)
    return bytes(b)


def case_enc(env, s):
    alg, mode, pad = s["alg"], s.get("mode"), s.get("pad")
    out = Out("encrypt", _mech_enc(s), s["lvl"])
    key, msg = hx(s["key"]), hx(s["msg"])
    iv_sup, aad, tl = hx(s.get("iv")), hx(s.get("aad")), s.get("tl")
    bs = R.block_bytes(alg)
    out.tuple_extra = "iv=%s|len=%s" % ("sup" if iv_sup is not None else "gen",
                                        _len_class(len(msg), bs))
    try:
        r = _enc_call(env, s, iv_sup, msg)
    except _Rejected:
        return out.rejected()
    out.judged = True
    ct, iv_ret, tag = r["ct"], r["iv"], r["tag"]
    needs_iv = alg != "RC4" and mode in R.IV_MODES
    gcm = alg != "RC4" and mode == "GCM"

    # --- which IV was used
    iv_eff = iv_sup
    if needs_iv:
        if iv_sup is None:
            if iv_ret is None:
                out.fail("generated-iv-not-returned", "no IV in the result; cannot decrypt")
                return out
            iv_eff = iv_ret
        elif iv_ret is not None and iv_ret != iv_sup:
            out.fail("supplied-iv-not-used", "supplied %s returned %s" % (_short(iv_sup), _short(iv_ret)))
    if needs_iv and iv_sup is None:
        ok_len = (8 <= len(iv_eff) <= 128) if gcm else len(iv_eff) == bs
        if not ok_len:
            out.fail("generated-iv-unusable", "IV %s for block size %s" % (_short(iv_eff), bs))
    # --- differential
    ref_ct = ref_tag = None
    try:
        ref_ct, ref_tag = R.encrypt_ref(alg, key, mode, pad, iv_eff, aad, msg)
    except Exception:
        # the reference cannot compute this combination: only the inverse is judged
        out.notes.append("encrypt|%s|%s|reference-n/a" % (out.mech, out.lvl))
    if ref_ct is not None:
        if ct != ref_ct:
            out.fail("differential", "msg %s iv %s: got %s want %s"
                     % (_short(msg), _short(iv_eff), _short(ct), _short(ref_ct)))
        if gcm:
            if tag is None:
                out.fail("gcm-tag-missing", "")
            else:
                if len(tag) != tl:
                    out.fail("tag-length", "requested %s got %d" % (tl, len(tag)))
                if tag != ref_tag[:len(tag)] or not tag:
                    out.fail("tag-differential", "got %s want %s" % (_short(tag), _short(ref_tag[:tl])))
    # --- inverse with the returned IV / tag
    st, pt = _dec_call(env, s, ct, iv_eff, aad, tag)
    if st != "ok":
        out.fail("inverse-failed", "decrypt of own cipher text: %s" % pt)
    elif pt != msg:
        out.fail("inverse", "msg %s decrypt gave %s" % (_short(msg), _short(pt)))
    # --- decrypt of a reference-made cipher text (decrypt side on its own)
    if ref_ct is not None and (ct != ref_ct or (gcm and tag != ref_tag[:tl])):
        rtag = ref_tag[:tl] if gcm else None
        st, pt = _dec_call(env, s, ref_ct, iv_eff, aad, rtag)
        if st != "ok":
            out.fail("decrypt-differential-failed", pt)
        elif pt != msg:
            out.fail("decrypt-differential", "got %s want %s" % (_short(pt), _short(msg)))
    # --- freshness of generated IVs
    if needs_iv and iv_sup is None:
        try:
            again = [_enc_call(env, s, None, msg)["iv"]]
            if again[0] == iv_ret:
                again.append(_enc_call(env, s, None, msg)["iv"])
            if all(a == iv_ret for a in again):
                out.fail("iv-not-fresh", "same IV %s on %d further calls" % (_short(iv_ret), len(again)))
        except _Rejected:
            pass
    # --- authenticated mode rejects every modification
    if gcm and tag:
        flips = s.get("flips") or []
        if flips == "all":
            flips = ([["ct", i] for i in range(8 * len(ct))] +
                     [["tag", i] for i in range(8 * len(tag))] +
                     [["aad", i] for i in range(8 * len(aad or b""))] +
                     [["iv", i] for i in range(8 * len(iv_eff))])
        for part, bit in flips:
            c2, t2, a2, i2 = ct, tag, aad, iv_eff
            if part == "ct":
                if not ct:
                    continue
                c2 = _flip(ct, bit)
            elif part == "tag":
                t2 = _flip(tag, bit)
            elif part == "aad":
                a2 = _flip(aad, bit) if aad else bytes([1 + bit % 255])
            elif part == "iv":
                i2 = _flip(iv_eff, bit)
            else:
                continue
            st, pt = _dec_call(env, s, c2, i2, a2, t2)
            if st == "ok":
                out.fail("gcm-accepts-modified-" + part,
                         "bit %d of %s flipped, decrypt returned %s" % (bit, part, _short(pt)))
            if part == "tag" and s["lvl"] == "s" and len(tag) > 4:
                # the request may also state a Tag Length: whatever it says, a modified tag
                # must not yield the plaintext
                for tl in sorted(set([len(tag) - 4, 4, len(tag)])):
                    st, pt = _dec_call(env, s, c2, i2, a2, t2, tl=tl)
                    if st == "ok":
                        out.fail("gcm-accepts-modified-tag|tag-length-parameter",
                                 "bit %d of the %d byte tag flipped, Decrypt with Tag Length %d "
                                 "returned %s" % (bit, len(tag), tl, _short(pt)))
    return out


def _len_class(n, bs):
    bs = bs or 16
    if n in (0, 1):
        return str(n)
    if n == bs - 1:
        return "block-1"
    if n == bs:
        return "block"
    if n == bs + 1:
        return "block+1"
    if n >= 900:
        return "long"
    return "other"


# ====================================================================== mac
def case_mac(env, s):
    H, E = _mods()
    alg = s["alg"]
    out = Out("mac", alg, s["lvl"])
    key, data = hx(s["key"]), hx(s["data"])
    via = s.get("via", "params")
    out.tuple_extra = "via=%s|klen=%d|len=%s" % (via, min(len(key), 200),
                                                 _len_class(len(data), R.block_bytes(alg) if alg in R.CIPHERS else 64))
    if s["lvl"] == "d":
        try:
            got = env.eng.mac(en(E.CryptographicAlgorithm, alg), key, data)
        except Exception:
            return out.rejected()
    else:
        c = env.client(s.get("v", (1, 4)))
        M = H.MASK
        otype = s.get("otype", "SymmetricKey")
        if via == "keyalg":
            otype = "SymmetricKey"
        # with via == "keyalg" the algorithm comes from the key's own attribute; otherwise the
        # key is stored under another algorithm so that the request parameter must win
        stored_alg = alg if via == "keyalg" else s.get("stored_alg", "AES")
        uid = env.sym_uid(c, otype, stored_alg, s["key"], M["MAC_GENERATE"])
        item = {"op": "MAC", "uid": uid, "data": s["data"]}
        if via != "keyalg":
            item["params"] = {"alg": alg}
        r = c.one(item)
        if r["status"] != "SUCCESS" or r["payload"] is None or r["payload"]["mac"] is None:
            return out.rejected()
        got = hx(r["payload"]["mac"])
    if got is None:
        return out.rejected()
    try:
        if alg in R.HMAC_ALGS:
            want = R.hmac_ref(R.HMAC_ALGS[alg], key, data)
        elif alg in R.CIPHERS and R.block_bytes(alg):
            want = R.cmac_ref(alg, key, data)
        else:
            out.notes.append("mac|%s|%s|reference-n/a" % (alg, out.lvl))
            return out
    except Exception:
        out.notes.append("mac|%s|%s|reference-n/a" % (alg, out.lvl))
        return out
    out.judged = True
    if got != want:
        out.fail("differential", "key %s data %s: got %s want %s"
                 % (_short(key), _short(data), _short(got), _short(want)))
    return out


# ====================================================================== derive
def _derive_ref(s):
    """Full reference output (not truncated for HASH / ENCRYPT) or raises."""
    m, h, L = s["method"], s.get("hash"), s["len"]
    key, data, salt = hx(s["key"]), hx(s.get("data")), hx(s.get("salt"))
    if m == "HASH":
        return R.hash_ref(h, data if s.get("hash_src") == "data" else key)
    if m == "HMAC":
        return R.hkdf_ref(h, key, salt, data, L)
    if m == "PBKDF2":
        return R.pbkdf2_ref(h, key, salt, s["iter"], L)
    if m == "NIST800_108_C":
        return R.kbkdf_ctr_ref(h, key, data, L)
    if m == "ENCRYPT":
        e = s["enc"]
        return R.encrypt_ref(e["alg"], key, e.get("mode"), e.get("pad"), hx(e.get("iv")), None, data)[0]
    raise ValueError(m)


def _mech_derive(s):
    if s["method"] == "ENCRYPT":
        e = s["enc"]
        return "ENCRYPT-%s-%s-%s" % (e["alg"], e.get("mode") or "NOMODE", e.get("pad") or "NOPAD")
    return "%s-%s" % (s["method"], s.get("hash"))


def case_derive(env, s):
    """Every derivation is made twice: derived key material is a function of the request (the
    client gets nothing back that would let it repeat a derivation the server randomised, e.g. an
    initialisation vector the server chose)."""
    out = _case_derive(env, s)
    got = getattr(out, "got", None)
    if got is not None:
        again = getattr(_case_derive(env, s), "got", None)
        if again is not None and bytes(again) != bytes(got):
            out.judged = True
            out.fail("not-a-function-of-the-request", "same request, two results: %s / %s"
                     % (_short(got), _short(again)))
    return out


def _case_derive(env, s):
    H, E = _mods()
    out = Out("derive", _mech_derive(s), s["lvl"])
    m, L = s["method"], s["len"]
    enc = s.get("enc") or {}
    out.tuple_extra = "len=%d|salt=%s|data=%s|iter=%s" % (
        min(L, 300), "none" if s.get("salt") is None else min(len(s["salt"]) // 2, 99),
        "none" if s.get("data") is None else min(len(s["data"]) // 2, 99), s.get("iter"))
    if s["lvl"] == "d":
        hash_key = m == "HASH" and s.get("hash_src") != "data"
        hash_data = m == "HASH" and s.get("hash_src") == "data"
        try:
            got = env.eng.derive_key(
                en(E.DerivationMethod, m), L,
                derivation_data=None if hash_key else hx(s.get("data")),
                key_material=None if hash_data else hx(s["key"]),
                hash_algorithm=en(E.HashingAlgorithm, s.get("hash")),
                salt=hx(s.get("salt")), iteration_count=s.get("iter"),
                encryption_algorithm=en(E.CryptographicAlgorithm, enc.get("alg")),
                cipher_mode=en(E.BlockCipherMode, enc.get("mode")),
                padding_method=en(E.PaddingMethod, enc.get("pad")),
                # no Initialization Vector in the request: the server hands over b"" (None would
                # ask the crypto engine to choose one, which its only caller never does)
                iv_nonce=hx(enc.get("iv")) if enc.get("iv") is not None or m != "ENCRYPT" else b"")
        except Exception:
            return out.rejected()
        if got is None:
            return out.rejected()
        exact = m in ("HMAC", "PBKDF2", "NIST800_108_C")
    else:
        c = env.client(s.get("v", (1, 4)))
        M = H.MASK
        base = s.get("base", "SymmetricKey")
        uid = env.sym_uid(c, base, "AES", s["key"], M["DERIVE_KEY"], activate=False)
        uids = [uid]
        dp = {"params": {}}
        if s.get("hash"):
            dp["params"]["hash"] = s["hash"]
        if enc:
            dp["params"].update(_enc_params(enc, False))
            if enc.get("iv") is not None:
                dp["iv"] = enc["iv"]
        if s.get("data") is not None:
            if s.get("data_obj"):
                # derivation data supplied as a second (SecretData) object, none in the payload
                uids.append(env.sym_uid(c, "SecretData", None, s["data"], M["DERIVE_KEY"],
                                        activate=False))
            else:
                dp["data"] = s["data"]
        if s.get("salt") is not None:
            dp["salt"] = s["salt"]
        if s.get("iter") is not None:
            dp["iter"] = s["iter"]
        otype = s.get("otype", "SymmetricKey")
        attrs = [["Cryptographic Length", 8 * L]]
        if otype == "SymmetricKey":
            attrs += [["Cryptographic Algorithm", s.get("out_alg", "AES")],
                      ["Cryptographic Usage Mask", M["ENCRYPT"] | M["DECRYPT"]]]
        r = c.one({"op": "DeriveKey", "otype": otype, "uids": uids, "method": m, "dp": dp,
                   "attrs": attrs})
        if r["status"] != "SUCCESS" or r["payload"] is None:
            return out.rejected()
        g = c.one({"op": "Get", "uid": r["payload"]["uid"]})
        if g["status"] != "SUCCESS" or g["payload"] is None:
            out.judged = True
            out.fail("derived-object-unreadable", "%s %s" % (g.get("reason"), g.get("message")))
            return out
        sec = g["payload"]["secret"]
        got = hx(sec["value"] or "")
        exact = True
        if otype == "SymmetricKey" and sec.get("len") not in (None, 8 * L):
            out.fail("length-attribute", "requested %d bits, key block says %s" % (8 * L, sec.get("len")))
    out.got = got
    try:
        want = _derive_ref(s)
    except Exception:
        out.notes.append("derive|%s|%s|reference-n/a" % (out.mech, out.lvl))
        return out
    out.judged = True
    if exact:
        if len(got) != L:
            out.fail("length", "requested %d bytes, got %d" % (L, len(got)))
        if len(want) < L:
            out.fail("length-beyond-method-output", "method yields %d bytes, %d returned for %d requested"
                     % (len(want), len(got), L))
        elif got[:L] != want[:L] or len(got) < L:
            out.fail("differential", "got %s want %s" % (_short(got), _short(want[:L])))
    else:
        # HASH / ENCRYPT at engine level return the whole digest / cipher text; the server
        # truncates (docs/source/server.rst DeriveKey).  Compare what both sides have.
        if got != want:
            out.fail("differential", "got %s want %s" % (_short(got), _short(want)))
    return out


# ====================================================================== wrap
def case_wrap(env, s):
    H, E = _mods()
    kek, mat = hx(s["kek"]), hx(s["mat"])
    out = Out("wrap", "NIST_KEY_WRAP-AES%d" % (8 * len(kek)), s["lvl"])
    out.tuple_extra = "mat=%d|%s" % (len(mat), s.get("mtype", "SymmetricKey"))
    if s["lvl"] == "d":
        try:
            got = env.eng.wrap_key(mat, E.WrappingMethod.ENCRYPT, E.BlockCipherMode.NIST_KEY_WRAP, kek)
        except Exception:
            return out.rejected()
    else:
        c = env.client(s.get("v", (1, 4)))
        M = H.MASK
        wuid = env.sym_uid(c, "SymmetricKey", "AES", s["kek"], M["WRAP_KEY"] | M["ENCRYPT"])
        mtype = s.get("mtype", "SymmetricKey")
        muid = env.sym_uid(c, mtype, s.get("malg", "AES"), s["mat"], M["ENCRYPT"] | M["WRAP_KEY"],
                           activate=bool(s.get("mactive")))
        wget = {"op": "Get", "uid": muid,
                "wrap": {"method": "ENCRYPT", "enc": "NO_ENCODING",
                         "eki": {"uid": wuid, "params": {"mode": "NIST_KEY_WRAP"}}}}
        shape = s.get("shape", "single")
        out.tuple_extra += "|" + shape
        undecodable0 = H.Client.undecodable_responses
        extra = []          # (label, plain item result) to compare after the first answer
        if shape == "single":
            r = c.one(wget)
        else:
            # the same wrapped Get inside a batch: twice, or followed by an item that commits
            # (Activate of a fresh key) and a plain Get of the wrapped object
            second = dict(wget, bid="02")
            if shape == "batch-commit":
                fresh = env.sym_uid(c, "SymmetricKey", "AES", "5a" * 16, M["ENCRYPT"],
                                    activate=False, cache=False)
                second = {"op": "Activate", "uid": fresh, "bid": "02"}
            rr = c.request([dict(wget, bid="01"), second, {"op": "Get", "uid": muid, "bid": "03"}],
                           cont="CONTINUE")
            its = rr["items"] or []
            r = its[0] if its else {"status": "REQUEST_ERROR", "payload": None}
            if len(its) == 3:
                if shape == "batch2":
                    extra.append(("second-wrapped-get-in-batch", its[1]))
                extra.append(("plain-get-in-same-batch", its[2]))
            extra.append(("wrapped-get-in-later-request", c.one(wget)))
            extra.append(("plain-get-in-later-request", c.one({"op": "Get", "uid": muid})))
        if r["status"] == "REQUEST_ERROR" and r.get("reason") not in (None,) and \
                H.Client.undecodable_responses > undecodable0:
            # the answer to the wrapped Get cannot be decoded by the library itself
            out.judged = True
            out.fail("response-undecodable", "%s: %s" % (r.get("reason"), r.get("message")))
            return out
        if r["status"] != "SUCCESS" or r["payload"] is None:
            return out.rejected()
        sec = r["payload"]["secret"]
        got = hx(sec["value"] or "")
        for label, x in extra:
            if x["status"] != "SUCCESS" or x["payload"] is None:
                continue
            xs = x["payload"]["secret"]
            xv = hx(xs["value"] or "")
            try:
                if label.startswith("plain"):
                    if xv != mat or xs.get("wrap"):
                        out.fail("wrapping-disturbed-the-object|" + label,
                                 "plain Get returns %s (wrapping data %r), stored material %s"
                                 % (_short(xv), xs.get("wrap"), _short(mat)))
                elif xv != R.aes_wrap_ref(kek, mat):
                    out.fail("repeated-wrap-differs|" + label,
                             "got %s want %s" % (_short(xv), _short(R.aes_wrap_ref(kek, mat))))
            except Exception:
                pass
        w = sec.get("wrap") or {}
        out.judged = True
        if (w.get("eki") or {}).get("uid") != wuid or w.get("method") != "ENCRYPT":
            out.fail("wrapping-data-echo", "key wrapping data %r" % (w,))
    try:
        want = R.aes_wrap_ref(kek, mat)
    except Exception:
        out.judged = False
        out.notes.append("wrap|%s|%s|reference-n/a" % (out.mech, out.lvl))
        return out
    out.judged = True
    if got != want:
        out.fail("differential", "got %s want %s" % (_short(got), _short(want)))
        try:
            if R.aes_unwrap_ref(kek, got) != mat:
                out.fail("unwrap-mismatch", "RFC 3394 unwrap gives other material")
        except Exception as e:
            out.fail("unwrap-fails", "RFC 3394 unwrap under the stated key: %r" % (e,))
    return out


# ====================================================================== sign / verify
def _sig_params(s, hname=None, by=None):
    """Cryptographic parameters (harness spec) naming padding + hash either through a digital
    signature algorithm or through an (algorithm, hash) pair."""
    hname = hname or s["hash"]
    by = by or s["by"]
    p = {"pad": s["pad"]}
    if by == "dsa":
        p["dsa"] = R.HASH_DSA[hname]
    elif by == "both":
        p["dsa"] = R.HASH_DSA[hname]
        p["alg"] = "RSA"
        p["hash"] = hname
    else:
        p["alg"] = "RSA"
        p["hash"] = hname
    return p


def _sign_call(env, s, key, msg, params):
    _, E = _mods()
    if s["lvl"] == "d":
        try:
            sig = env.eng.sign(
                en(E.DigitalSignatureAlgorithm, params.get("dsa")),
                en(E.CryptographicAlgorithm, params.get("alg")),
                en(E.HashingAlgorithm, params.get("hash")),
                en(E.PaddingMethod, params.get("pad")), key, msg)
        except Exception as e:
            raise _Rejected(repr(e))
        if sig is None:
            raise _Rejected("none")
        return sig
    c = env.client(s.get("v", (1, 4)))
    r = c.one({"op": "Sign", "uid": key, "params": params, "data": msg.hex()})
    if r["status"] != "SUCCESS" or r["payload"] is None or r["payload"]["sig"] is None:
        raise _Rejected("%s %s" % (r.get("reason"), r.get("message")))
    return hx(r["payload"]["sig"])


def _verify_call(env, s, key, msg, sig, params):
    """-> True | False | 'err:...'"""
    _, E = _mods()
    if s["lvl"] == "d":
        try:
            v = env.eng.verify_signature(
                key, msg, sig, en(E.PaddingMethod, params.get("pad")),
                signing_algorithm=en(E.CryptographicAlgorithm, params.get("alg")),
                hashing_algorithm=en(E.HashingAlgorithm, params.get("hash")),
                digital_signature_algorithm=en(E.DigitalSignatureAlgorithm, params.get("dsa")))
        except Exception as e:
            return "err:%r" % (e,)
        return bool(v)
    c = env.client(s.get("v", (1, 4)))
    r = c.one({"op": "SignatureVerify", "uid": key, "params": params, "data": msg.hex(),
               "sig": sig.hex()})
    if r["status"] != "SUCCESS" or r["payload"] is None:
        return "err:%s %s" % (r.get("reason"), r.get("message"))
    return r["payload"]["valid"] == "VALID"


def _rsa_material(env, s, idx):
    """-> (sign_handle, verify_handle, n, e, d_or_None) for key number idx of this case."""
    bits, src, fmt = s["bits"], s["src"], s.get("fmt", "PKCS_8")
    if s["lvl"] == "d":
        priv, pub = env.rsa_direct(src, bits, idx, fmt)
        n, e = R.load_public_numbers(pub)
        return priv, pub, n, e
    c = env.client(s.get("v", (1, 4)))
    pr, pu = env.rsa_server(c, src, bits, idx, fmt)
    ck = ("pubnum", src, bits, idx, fmt)
    if ck not in env.rsa_uids:
        g = c.one({"op": "Get", "uid": pu})
        if g["status"] != "SUCCESS":
            raise core.HarnessError("Get public key failed: %r" % (g,))
        env.rsa_uids[ck] = R.load_public_numbers(hx(g["payload"]["secret"]["value"]))
    n, e = env.rsa_uids[ck]
    return pr, pu, n, e


def case_sign(env, s):
    pad, hname, by = s["pad"], s["hash"], s["by"]
    out = Out("sign", "RSA%d-%s-%s-by-%s" % (s["bits"], pad, hname, by), s["lvl"])
    msg = hx(s["msg"])
    out.tuple_extra = "src=%s|fmt=%s|len=%s" % (s["src"], s.get("fmt", "PKCS_8"), _len_class(len(msg), 64))
    priv, pub, n, e = _rsa_material(env, s, 0)
    params = _sig_params(s)
    try:
        sig = _sign_call(env, s, priv, msg, params)
    except _Rejected:
        return out.rejected()
    out.judged = True
    k = (n.bit_length() + 7) // 8
    # --- differential: the signature verifies under the independent verifier for the stated
    #     padding and hash (PKCS1v15 is deterministic: equal to the reference signature)
    if len(sig) != k:
        out.fail("signature-length", "modulus %d bytes, signature %d" % (k, len(sig)))
    if not R.verify_ref(n, e, pad, hname, msg, sig):
        others = [h for h in R.HASHES if h != hname and R.verify_ref(n, e, pad, h, msg, sig)]
        out.fail("differential", "signature does not verify for %s/%s (verifies for hash: %s)"
                 % (pad, hname, others or "none"))
    # --- Sign -> SignatureVerify round trip, both parameter styles
    for vby in ("dsa", "pair"):
        v = _verify_call(env, s, pub, msg, sig, _sig_params(s, by=vby))
        if v is not True:
            out.fail("verify-rejects-own-signature", "verify by %s -> %s" % (vby, v))
    # --- metamorphic: modified message, modified signature, other key, other hash
    mut = s.get("mut") or {}
    vparams = _sig_params(s, by="pair" if by == "dsa" else "dsa")
    m2 = _flip(msg, mut.get("msg_bit", 0)) if msg else b"\x00"
    if _verify_call(env, s, pub, m2, sig, vparams) is True:
        out.fail("verify-accepts-modified-message", "bit %s" % mut.get("msg_bit", 0))
    if _verify_call(env, s, pub, msg + b"\x00", sig, vparams) is True:
        out.fail("verify-accepts-modified-message", "appended byte")
    s2 = _flip(sig, mut.get("sig_bit", 7))
    if _verify_call(env, s, pub, msg, s2, vparams) is True:
        out.fail("verify-accepts-modified-signature", "bit %s" % mut.get("sig_bit", 7))
    _, pub2, n2, _e2 = _rsa_material(env, s, 1)
    if n2 == n:
        out.fail("key-pair-not-fresh", "two generated pairs share the modulus")
    elif _verify_call(env, s, pub2, msg, sig, vparams) is True:
        out.fail("verify-accepts-other-key", "")
    oh = mut.get("other_hash") or ("SHA_1" if hname != "SHA_1" else "SHA_256")
    if oh != hname:
        for vby in ("dsa", "pair"):
            if _verify_call(env, s, pub, msg, sig, _sig_params(s, hname=oh, by=vby)) is True:
                out.fail("verify-accepts-other-hash", "signed %s verified as %s by %s" % (hname, oh, vby))
    # --- verify side on its own: a reference-made signature must be accepted
    if s["src"] == "ref" and pad == "PKCS1v15":
        d = R.rsa_key(s["bits"], 0).private_numbers().d
        rsig = R.pkcs1_sign_ref(n, d, hname, msg)
        if sig != rsig:
            out.fail("differential", "PKCS1v15 signature differs from the reference")
        v = _verify_call(env, s, pub, msg, rsig, params)
        if v is not True:
            out.fail("verify-rejects-reference-signature", str(v))
    return out


# ====================================================================== RSA encryption (engine)
def case_rsaenc(env, s):
    _, E = _mods()
    from cryptography.hazmat.primitives import hashes as ch
    from cryptography.hazmat.primitives.asymmetric import padding as ap
    pad, hname = s["pad"], s.get("hash")
    out = Out("rsa-encrypt", "RSA%d-%s-%s" % (s["bits"], pad, hname), "d")
    msg = hx(s["msg"])
    out.tuple_extra = "len=%s" % _len_class(len(msg), 64)
    key = R.rsa_key(s["bits"], 0)
    priv, pub = env.rsa_direct("ref", s["bits"], 0, s.get("fmt", "PKCS_8"))
    A, P, HA = E.CryptographicAlgorithm, E.PaddingMethod, E.HashingAlgorithm
    try:
        r = env.eng.encrypt(A.RSA, pub, msg, padding_method=en(P, pad),
                            hashing_algorithm=en(HA, hname))
        ct = r["cipher_text"]
    except Exception:
        return out.rejected()
    hcls = {"MD5": ch.MD5, "SHA_1": ch.SHA1, "SHA_224": ch.SHA224, "SHA_256": ch.SHA256,
            "SHA_384": ch.SHA384, "SHA_512": ch.SHA512}
    if pad == "OAEP":
        rp = ap.OAEP(mgf=ap.MGF1(hcls[hname]()), algorithm=hcls[hname](), label=None)
    else:
        rp = ap.PKCS1v15()
    out.judged = True
    try:
        if key.decrypt(ct, rp) != msg:
            out.fail("differential", "independent decryption gives another message")
    except Exception as e:
        out.fail("differential", "independent decryption fails: %r" % (e,))
    try:
        pt = env.eng.decrypt(A.RSA, priv, ct, padding_method=en(P, pad),
                             hashing_algorithm=en(HA, hname))
        if pt != msg:
            out.fail("inverse", "got %s" % _short(pt))
    except Exception as e:
        out.fail("inverse-failed", repr(e))
    try:
        rct = key.public_key().encrypt(msg, rp)
        pt = env.eng.decrypt(A.RSA, priv, rct, padding_method=en(P, pad),
                             hashing_algorithm=en(HA, hname))
        if pt != msg:
            out.fail("decrypt-differential", "got %s" % _short(pt))
    except Exception as e:
        out.fail("decrypt-differential-failed", repr(e))
    return out


# ====================================================================== create / create key pair
def case_create(env, s):
    H, E = _mods()
    alg, bits = s["alg"], s["bits"]
    out = Out("create", alg, s["lvl"])
    out.tuple_extra = "bits=%d" % bits

    def once():
        if s["lvl"] == "d":
            try:
                r = env.eng.create_symmetric_key(en(E.CryptographicAlgorithm, alg), bits)
            except Exception as e:
                raise _Rejected(repr(e))
            return r["value"], None
        c = env.client(s.get("v", (1, 4)))
        M = H.MASK
        r = c.one({"op": "Create", "attrs": [["Cryptographic Length", bits],
                                             ["Cryptographic Algorithm", alg],
                                             ["Cryptographic Usage Mask", M["ENCRYPT"] | M["DECRYPT"]]]})
        if r["status"] != "SUCCESS" or r["payload"] is None:
            raise _Rejected(str(r.get("message")))
        g = c.one({"op": "Get", "uid": r["payload"]["uid"]})
        if g["status"] != "SUCCESS" or g["payload"] is None:
            raise _Rejected("get: %s" % g.get("message"))
        sec = g["payload"]["secret"]
        return hx(sec["value"] or ""), sec

    try:
        v1, sec = once()
    except _Rejected:
        return out.rejected()
    out.judged = True
    if 8 * len(v1) != bits:
        out.fail("length", "requested %d bits, got %d" % (bits, 8 * len(v1)))
    if sec is not None and (sec.get("len") != bits or sec.get("alg") != alg):
        out.fail("key-block-attributes", "requested %s/%d, key block %s/%s" % (alg, bits, sec.get("alg"), sec.get("len")))
    try:
        v2 = once()[0]
        if v2 == v1:
            v2 = once()[0]
        if v2 == v1:
            out.fail("not-fresh", "three generations gave the same %d-bit value" % bits)
    except _Rejected as e:
        out.fail("second-generation-failed", str(e))
    return out


def case_ckp(env, s):
    H, E = _mods()
    bits = s["bits"]
    out = Out("create-key-pair", "RSA%d" % bits, s["lvl"])
    pairs = []
    for _ in range(2):
        if s["lvl"] == "d":
            try:
                pub, priv = env.eng.create_asymmetric_key_pair(E.CryptographicAlgorithm.RSA, bits)
                pairs.append((pub["value"], priv["value"]))
            except Exception:
                return out.rejected()
        else:
            c = env.client(s.get("v", (1, 4)))
            r = c.one(_ckp_item(bits))
            if r["status"] != "SUCCESS" or r["payload"] is None:
                return out.rejected()
            gp = c.one({"op": "Get", "uid": r["payload"]["pub"]})
            gs = c.one({"op": "Get", "uid": r["payload"]["priv"]})
            if gp["status"] != "SUCCESS" or gs["status"] != "SUCCESS":
                out.judged = True
                out.fail("generated-key-unreadable", "%s / %s" % (gp.get("message"), gs.get("message")))
                return out
            if gp["payload"]["otype"] != "PublicKey" or gs["payload"]["otype"] != "PrivateKey":
                out.fail("pair-ids-swapped", "%s / %s" % (gp["payload"]["otype"], gs["payload"]["otype"]))
            pairs.append((hx(gp["payload"]["secret"]["value"]), hx(gs["payload"]["secret"]["value"])))
    out.judged = True
    mods = []
    for pub, priv in pairs:
        try:
            n, e = R.load_public_numbers(pub)
            n2, e2, d = R.load_private_numbers(priv)
        except Exception as ex:
            out.fail("generated-key-unparsable", repr(ex))
            return out
        mods.append(n)
        if n.bit_length() != bits:
            out.fail("length", "requested %d bits, modulus has %d" % (bits, n.bit_length()))
        if n != n2 or e != e2 or pow(pow(0x1234567, e, n), d, n) != 0x1234567:
            out.fail("not-a-pair", "public and private key do not match")
    if len(set(mods)) != len(mods):
        out.fail("not-fresh", "two generated pairs share the modulus")
    return out


CASES = {"enc": case_enc, "mac": case_mac, "derive": case_derive, "wrap": case_wrap,
         "sign": case_sign, "rsaenc": case_rsaenc, "create": case_create, "ckp": case_ckp}


# ====================================================================== one case -> buckets
def run_case(env, spec):
    """-> (Out, [(bucket key, detail)]).  A failure seen through the server is re-run as a direct
    engine call: if the engine shows the same oracle failure the root cause is the engine
    (same key as the direct case), otherwise the payload plumbing of the server."""
    env.cap.clear()
    out = CASES[spec["k"]](env, spec)
    buckets = []
    if out.fails:
        direct = None
        if spec["lvl"] == "s":
            try:
                d = dict(spec)
                d["lvl"] = "d"
                direct = set(o for o, _ in CASES[spec["k"]](env, d).fails)
            except core.HarnessError:
                raise
            except Exception:
                direct = set()
        for oracle, detail in out.fails:
            # any failure of the equivalent direct call points at the engine, not the plumbing
            where = "engine" if (direct is None or direct) else "plumbing"
            buckets.append(("%s|%s|%s|%s|%s" % (PID, out.op, oracle, out.mech, where), detail))
    return out, buckets


def replay(spec):
    env = Env()
    try:
        return run_case(env, spec)[1]
    finally:
        env.close()


# ====================================================================== finite tables -> cells
HASH_NAMES = list(R.HASHES)
HLEN = {"MD5": 16, "SHA_1": 20, "SHA_224": 28, "SHA_256": 32, "SHA_384": 48, "SHA_512": 64}
HBLOCK = {"MD5": 64, "SHA_1": 64, "SHA_224": 64, "SHA_256": 64, "SHA_384": 128, "SHA_512": 128}
QUICK_BITS = {"AES": [128, 192, 256], "TRIPLE_DES": [64, 128, 192], "BLOWFISH": [32, 128, 448],
              "CAMELLIA": [128, 192, 256], "CAST5": [40, 80, 128], "IDEA": [128],
              "RC4": [40, 128, 256]}
MODES7 = R.BLOCK_MODES + [None]
PADS3 = R.PADDINGS + [None]
LENS6 = ["0", "1", "b-1", "b", "b+1", "long"]


def _bits(alg, thorough):
    return R.key_sizes(alg) if thorough else QUICK_BITS[alg]


def build_cells(tier):
    """The full product over the finite parameter tables.  Keys, IVs, messages are not part of a
    cell; Hypothesis draws them when the cell is completed into a spec."""
    T = tier == "thorough"
    P = itertools.product
    cells = []
    add = cells.append
    algs = list(R.CIPHERS)
    # ---- symmetric encryption: engine level, every key size of the tier
    for alg in algs:
        for bits, mode, pad, ivsup, lc in P(_bits(alg, T), MODES7, PADS3, [True, False], LENS6):
            add({"k": "enc", "lvl": "d", "alg": alg, "bits": bits, "mode": mode, "pad": pad,
                 "ivsup": ivsup, "lc": lc})
    # ---- same product through the server (key size drawn per case from all valid sizes)
    for alg in algs:
        for bits, mode, pad, ivsup, lc in P([None], MODES7, PADS3, [True, False], LENS6):
            add({"k": "enc", "lvl": "s", "alg": alg, "bits": bits, "mode": mode, "pad": pad,
                 "ivsup": ivsup, "lc": lc})
    # ---- GCM: AAD class x tag length 4..16
    for lvl in "ds":
        lcs = LENS6 if T else (["0", "1", "b+1"] if lvl == "d" else [None])
        for bits, aadc, tl, ivsup, lc in P([128, 192, 256], ["absent", "empty", "some"],
                                           range(4, 17), [True, False], lcs):
            add({"k": "enc", "lvl": lvl, "alg": "AES", "bits": bits, "mode": "GCM", "pad": None,
                 "ivsup": ivsup, "lc": lc, "aadc": aadc, "tl": tl})
    for bits, tl, lc in P([128, 192, 256], [4, 12, 16], ["1", "b+1"]):
        add({"k": "enc", "lvl": "d", "alg": "AES", "bits": bits, "mode": "GCM", "pad": None,
             "ivsup": True, "lc": lc, "aadc": "some", "tl": tl, "flips": "all"})
    for bits in [128, 192, 256]:
        add({"k": "enc", "lvl": "s", "alg": "AES", "bits": bits, "mode": "GCM", "pad": None,
             "ivsup": False, "lc": "1", "aadc": "some", "tl": 4 if bits != 192 else 16,
             "flips": "all"})
    # ---- MAC
    for lvl in "ds":
        vias = ["params"] if lvl == "d" else ["params", "keyalg"]
        for alg, klen, dlc, via in P(R.HMAC_ALGS, [1, 16, 64, 65, 128, 129, 200],
                                     ["0", "1", "hb-1", "hb", "hb+1", "long"], vias):
            add({"k": "mac", "lvl": lvl, "alg": alg, "klen": klen, "dlc": dlc, "via": via})
        for alg in algs:
            for bits, dlc, via in P(_bits(alg, T), ["0", "1", "b-1", "b", "b+1", "2b", "long"], vias):
                add({"k": "mac", "lvl": lvl, "alg": alg, "klen": bits // 8, "dlc": dlc, "via": via})
    # ---- key derivation
    for lvl in "ds":
        for h in HASH_NAMES:
            hl = HLEN[h]
            for src, dlen, L in P(["key", "data"] if lvl == "d" else ["key"], [1, 64, 200],
                                  [1, hl, hl + 1]):
                add({"k": "derive", "lvl": lvl, "method": "HASH", "hash": h, "hash_src": src,
                     "dlen": dlen, "L": L})
            for saltc, datac, L in P(["none", "empty", "short", "long"], ["none", "empty", "some"],
                                     [1, hl - 1, hl, hl + 1, 64, 255 * hl, 255 * hl + 1]):
                add({"k": "derive", "lvl": lvl, "method": "HMAC", "hash": h, "saltc": saltc,
                     "datac": datac, "L": L})
            for it, saltc, L in P([1, 2, 10, 1000, 2000], ["empty", "short", "long"],
                                  [1, hl, hl + 1, 64]):
                add({"k": "derive", "lvl": lvl, "method": "PBKDF2", "hash": h, "iter": it,
                     "saltc": saltc, "L": L})
            for datac, L in P(["none", "empty", "some", "long"], [1, hl, hl + 1, 64, 300]):
                add({"k": "derive", "lvl": lvl, "method": "NIST800_108_C", "hash": h,
                     "datac": datac, "L": L})
        for alg in algs:
            for mode, pad, lc, Lc in P(MODES7, PADS3, ["b", "b+1"], ["1", "full", "beyond"]):
                add({"k": "derive", "lvl": lvl, "method": "ENCRYPT", "alg": alg, "mode": mode,
                     "pad": pad, "lc": lc, "Lc": Lc})
            for mode in MODES7:
                if alg != "RC4" and mode in R.IV_MODES:
                    # the optional Initialization Vector left out where the mode wants one
                    add({"k": "derive", "lvl": lvl, "method": "ENCRYPT", "alg": alg, "mode": mode,
                         "pad": "PKCS5", "lc": "b", "Lc": "full", "ivc": "none"})
    # ---- RFC 3394 wrapping
    for lvl in "ds":
        for kbits, mlen in P([128, 192, 256], [16, 24, 32, 40, 8, 20]):
            for mtype in (["SymmetricKey"] if lvl == "d" else ["SymmetricKey", "SecretData"]):
                add({"k": "wrap", "lvl": lvl, "kbits": kbits, "mlen": mlen, "mtype": mtype})
    # ---- sign / verify
    for lvl in "ds":
        lcs = ["0", "1", "long"] if (lvl == "d" or T) else [None]
        for bits, src, pad, h, by, lc in P([1024, 2048], ["ref", "gen"], ["PKCS1v15", "PSS"],
                                           HASH_NAMES, ["dsa", "pair"], lcs):
            add({"k": "sign", "lvl": lvl, "bits": bits, "src": src, "pad": pad, "hash": h,
                 "by": by, "lc": lc})
        for bits, pad, h in P([1024, 2048], ["PKCS1v15", "PSS"], HASH_NAMES):
            add({"k": "sign", "lvl": lvl, "bits": bits, "src": "ref", "pad": pad, "hash": h,
                 "by": "both", "lc": None})
    for bits, (pad, h), lc in P([1024, 2048], [("PKCS1v15", None)] + [("OAEP", h) for h in HASH_NAMES],
                                ["0", "1", "32"]):
        add({"k": "rsaenc", "lvl": "d", "bits": bits, "pad": pad, "hash": h, "lc": lc})
    # ---- key generation: every valid key size
    for lvl in "ds":
        for alg in algs:
            for bits in R.key_sizes(alg):
                add({"k": "create", "lvl": lvl, "alg": alg, "bits": bits})
        add({"k": "ckp", "lvl": lvl, "bits": 1024})
        add({"k": "ckp", "lvl": lvl, "bits": 2048})
    return cells


# ====================================================================== cell -> spec (Hypothesis)
def _st():
    from hypothesis import strategies as st
    return st


def _msg_len(draw, lc, bs):
    st = _st()
    bs = bs or 16
    table = {"0": 0, "1": 1, "b-1": bs - 1, "b": bs, "b+1": bs + 1, "2b": 2 * bs, "long": 1000,
             "32": 32}
    if lc is None:
        lc = draw(st.sampled_from(LENS6))
    if lc == "rand":
        return draw(st.one_of(st.integers(0, 3 * bs + 1), st.integers(0, 1100)))
    return table[lc]


def complete(cell, draw, free=False):
    """Turn a cell into a full JSON spec; all data comes from Hypothesis draws."""
    st = _st()
    k, lvl = cell["k"], cell["lvl"]
    s = {"k": k, "lvl": lvl}
    rand_len = "rand" if free else None
    if lvl == "s":
        needs14 = k == "enc" and cell.get("mode") == "GCM"
        s["v"] = draw(st.sampled_from([[1, 4], [2, 0]] if needs14 else
                                      [[1, 2], [1, 3], [1, 4], [2, 0]]))
    if k == "enc":
        alg = cell["alg"]
        bs = R.block_bytes(alg)
        bits = cell.get("bits") or draw(st.sampled_from(R.key_sizes(alg)))
        if free:
            bits = draw(st.sampled_from(R.key_sizes(alg)))
        s.update(alg=alg, key=draw(st.binary(min_size=bits // 8, max_size=bits // 8)).hex(),
                 mode=cell["mode"], pad=cell["pad"])
        n = _msg_len(draw, rand_len or cell.get("lc"), bs)
        s["msg"] = draw(st.binary(min_size=n, max_size=n)).hex()
        gcm = cell["mode"] == "GCM"
        if cell["ivsup"]:
            if gcm:
                ivn = draw(st.sampled_from([12, 12, 16, 8, 13, 32]))
            else:
                ivn = bs or 8
            s["iv"] = draw(st.binary(min_size=ivn, max_size=ivn)).hex()
        else:
            s["iv"] = None
        aadc = cell.get("aadc")
        if aadc == "empty":
            s["aad"] = ""
        elif aadc == "some":
            s["aad"] = draw(st.binary(min_size=1, max_size=40)).hex()
        else:
            s["aad"] = None
        if gcm:
            s["tl"] = cell.get("tl") or draw(st.integers(4, 16))
            if cell.get("flips") == "all":
                s["flips"] = "all"
                s["aad"] = s["aad"][:4]
            else:
                nf = 2 if lvl == "s" else 4
                s["flips"] = [[part, draw(st.integers(0, 8191))]
                              for part in ("ct", "tag", "aad", "iv") for _ in range(nf)]
        return s
    if k == "mac":
        alg = cell["alg"]
        if alg in R.HMAC_ALGS:
            hb = 128 if alg in ("HMAC_SHA384", "HMAC_SHA512") else 64
            klen = cell["klen"]
        else:
            hb = R.block_bytes(alg) or 16
            klen = cell["klen"]
        if free:
            klen = klen if alg in R.CIPHERS else draw(st.integers(1, 200))
        n = {"0": 0, "1": 1, "hb-1": hb - 1, "hb": hb, "hb+1": hb + 1, "b-1": hb - 1, "b": hb,
             "b+1": hb + 1, "2b": 2 * hb, "long": 1000}[cell["dlc"]]
        if free:
            n = draw(st.integers(0, 1100))
        s.update(alg=alg, key=draw(st.binary(min_size=klen, max_size=klen)).hex(),
                 data=draw(st.binary(min_size=n, max_size=n)).hex(), via=cell["via"])
        if lvl == "s" and cell["via"] == "params":
            s["otype"] = draw(st.sampled_from(["SymmetricKey", "SecretData"]))
            s["stored_alg"] = draw(st.sampled_from(["AES", "HMAC_SHA1", "BLOWFISH"]))
        return s
    if k == "derive":
        m = cell["method"]
        s.update(method=m, hash=cell.get("hash"))
        klen = draw(st.sampled_from([1, 16, 24, 32, 64, 65, 130]))
        if m == "ENCRYPT":
            alg = cell["alg"]
            bs = R.block_bytes(alg)
            bits = draw(st.sampled_from(R.key_sizes(alg)))
            klen = bits // 8
            e = {"alg": alg, "mode": cell["mode"], "pad": cell["pad"]}
            if alg != "RC4" and cell["mode"] in R.IV_MODES and cell.get("ivc") != "none":
                ivn = 12 if cell["mode"] == "GCM" else bs
                e["iv"] = draw(st.binary(min_size=ivn, max_size=ivn)).hex()
            s["enc"] = e
            n = _msg_len(draw, rand_len or cell["lc"], bs)
            s["data"] = draw(st.binary(min_size=n, max_size=n)).hex()
            full = n
            if alg != "RC4" and cell["mode"] in R.PAD_MODES:
                full = (n // bs + 1) * bs
            s["len"] = {"1": 1, "full": max(full, 1), "beyond": full + 1}[cell["Lc"]]
        else:
            s["len"] = cell["L"] if not free else draw(st.integers(1, 400))
            if m == "HASH":
                s["hash_src"] = cell["hash_src"]
                if cell["hash_src"] == "data":
                    n = cell["dlen"]
                    s["data"] = draw(st.binary(min_size=n, max_size=n)).hex()
                else:
                    klen = cell["dlen"]
            sizes = {"none": None, "empty": 0, "short": draw(st.integers(1, 16)),
                     "some": draw(st.integers(1, 48)), "long": draw(st.integers(129, 200))}
            if "saltc" in cell:
                n = sizes[cell["saltc"]]
                s["salt"] = None if n is None else draw(st.binary(min_size=n, max_size=n)).hex()
            if "datac" in cell:
                n = sizes[cell["datac"]]
                s["data"] = None if n is None else draw(st.binary(min_size=n, max_size=n)).hex()
            if "iter" in cell:
                s["iter"] = cell["iter"] if not free else draw(st.integers(1, 300))
        s["key"] = draw(st.binary(min_size=klen, max_size=klen)).hex()
        if lvl == "s":
            s["otype"] = draw(st.sampled_from(["SymmetricKey", "SecretData"]))
            s["base"] = draw(st.sampled_from(["SymmetricKey", "SecretData"]))
            s["out_alg"] = draw(st.sampled_from(["AES", "BLOWFISH", "HMAC_SHA256"]))
            if s.get("data"):
                s["data_obj"] = draw(st.booleans())
        return s
    if k == "wrap":
        kb, ml = cell["kbits"] // 8, cell["mlen"]
        if free:
            ml = draw(st.sampled_from([16, 24, 32, 40, 48, 64, 56, 128]))
        s.update(kek=draw(st.binary(min_size=kb, max_size=kb)).hex(),
                 mat=draw(st.binary(min_size=ml, max_size=ml)).hex(), mtype=cell["mtype"])
        if lvl == "s":
            s["malg"] = draw(st.sampled_from(["AES", "BLOWFISH", "HMAC_SHA256"]))
            s["mactive"] = draw(st.booleans())
            s["shape"] = draw(st.sampled_from(["single", "single", "batch2", "batch-commit"]))
        return s
    if k == "sign":
        n = _msg_len(draw, rand_len or cell.get("lc") or draw(st.sampled_from(["0", "1", "long"])), 64)
        fmts = ["PKCS_8", "PKCS_1"] + (["PKCS_8_PEM", "PKCS_1_PEM"] if lvl == "d" else [])
        s.update(bits=cell["bits"], src=cell["src"], pad=cell["pad"], hash=cell["hash"],
                 by=cell["by"], msg=draw(st.binary(min_size=n, max_size=n)).hex(),
                 fmt=draw(st.sampled_from(fmts)) if cell["src"] == "ref" else "PKCS_8",
                 mut={"msg_bit": draw(st.integers(0, 8191)), "sig_bit": draw(st.integers(0, 8191)),
                      "other_hash": draw(st.sampled_from(HASH_NAMES))})
        return s
    if k == "rsaenc":
        n = _msg_len(draw, rand_len or cell["lc"], 64)
        if free:
            n = draw(st.integers(0, 120))
        s.update(bits=cell["bits"], pad=cell["pad"], hash=cell["hash"],
                 msg=draw(st.binary(min_size=n, max_size=n)).hex(),
                 fmt=draw(st.sampled_from(["PKCS_8", "PKCS_1", "PKCS_8_PEM"])))
        return s
    if k == "create":
        s.update(alg=cell["alg"], bits=cell["bits"])
        return s
    if k == "ckp":
        s.update(bits=cell["bits"])
        return s
    raise core.HarnessError("unknown cell kind %r" % k)


# ====================================================================== workers
NSHARDS = 32
REQUIRED = ["encrypt|engine", "encrypt|server", "mac|engine", "mac|server", "derive|engine",
            "derive|server", "wrap|engine", "wrap|server", "sign|engine", "sign|server",
            "create|engine", "create|server", "create-key-pair|engine", "create-key-pair|server",
            "rsa-encrypt|engine", "encrypt-gcm|engine", "encrypt-gcm|server"]


def _order(cells):
    """Fixed, seed-independent permutation that spreads expensive kinds over the shards."""
    keyed = sorted(((core.spec_hash([i, c]), i) for i, c in enumerate(cells)))
    return [cells[i] for _, i in keyed]


def _cell_cost(c):
    """Rough number of bytes Hypothesis has to draw for a cell (its buffer is 8 KiB)."""
    if c.get("lc") in ("long", None) or c.get("dlc") == "long":
        return 1300
    if c["k"] == "derive":
        return 700
    return 250


def _chunks(cells, budget=3600):
    out, cur, used = [], [], 0
    for c in cells:
        w = _cell_cost(c)
        if cur and used + w > budget:
            out.append(cur)
            cur, used = [], 0
        cur.append(c)
        used += w
    if cur:
        out.append(cur)
    return out


def _chunk_strategy(chunk):
    st = _st()

    @st.composite
    def specs(draw):
        return [complete(c, draw) for c in chunk]

    return specs()


def worker(tier, seed, shard, nshards, rounds, nfree):
    from hypothesis import strategies as st
    R.selftest()
    cells = _order(build_cells(tier))
    mine = cells[shard::nshards]
    env = Env()
    col = core.Collector(PID)
    tuples = set()

    def execute(spec):
        out, buckets = run_case(env, spec)
        classes = list(out.notes)
        if out.judged:
            classes.append("%s|%s|%s" % (out.op, out.mech, out.lvl))
            tuples.add("%s|%s|%s|%s" % (out.op, out.mech, out.lvl, out.tuple_extra))
            col.bump("judged|%s|%s" % (out.op, out.lvl))
            if out.op == "encrypt" and "-GCM-" in out.mech:
                col.bump("judged|encrypt-gcm|%s" % out.lvl)
        else:
            col.bump("not_judged")
        col.record(spec, nontrivial=out.judged, classes=classes, buckets=buckets)

    try:
        chunks = _chunks(mine)
        for ci, chunk in enumerate(chunks):
            calls = [0]

            def fn(specs, ci=ci, calls=calls):
                calls[0] += 1
                if calls[0] == 1 and ci % 4:
                    return          # Hypothesis' all-simplest first example: run for 1 chunk in 4
                for spec in specs:
                    if calls[0] == 1:
                        col.bump("grid_cases_with_simplest_data")
                    execute(spec)

            core.draw_examples(_chunk_strategy(chunk), rounds + 1,
                               core.derive_seed(seed, "grid", ci), fn)
            if calls[0] < rounds + 1:
                raise core.HarnessError("Hypothesis delivered %d of %d examples for a chunk"
                                        % (calls[0], rounds + 1))
        if nfree:
            pool = [c for c in cells if c["k"] not in ("ckp",) and c.get("flips") != "all"]

            def fn2(data):
                cell = data.draw(st.sampled_from(pool))
                execute(complete(cell, data.draw, free=True))

            core.draw_examples(st.data(), nfree, core.derive_seed(seed, "free"), fn2)
    finally:
        env.close()
    d = col.to_dict()
    d["tuples"] = sorted(tuples)
    return d


def run(ctx):
    R.selftest()
    for bits in (1024, 2048):         # generated once, inherited by the forked workers
        R.rsa_key(bits, 0)
        R.rsa_key(bits, 1)
    rounds = ctx.n(1, 20)
    nfree = ctx.n(60, 1500)
    args = [(ctx.tier, core.derive_seed(ctx.seed, i), i, NSHARDS, rounds, nfree)
            for i in range(NSHARDS)]
    dicts = core.run_sharded("vlib.props.c06", "worker", args)
    tuples = set()
    for d in dicts:
        tuples.update(d.pop("tuples", []))
    col = core.merged(PID, dicts)
    col.extra["distinct_tuples_judged"] = len(tuples)
    col.extra["grid_cells"] = len(build_cells(ctx.tier))
    col.extra["grid_rounds"] = rounds
    col.extra["exhaustive"] = False
    for need in REQUIRED:
        op, lvl = need.split("|")
        if not col.extra.get("judged|%s|%s" % (op, lvl)):
            raise core.HarnessError("vacuous: no %s result at %s level reached the comparison "
                                    "(every combination was rejected)" % (op, lvl))
    return col
