"""C02 - everything emitted is spec-conformant TTLV; responses follow the envelope.

Part A (inputs, vlib/c02_a.py): every value of the codec table (all classes x versions, own seed)
is encoded by the library and judged by the independent reference vlib.ttlvref: well-formed TTLV
consuming everything; primitive and single-value classes byte-identical to the reference
encoders; spec layout (literal tag/type tables) of the main structures; leaf values emitted as
given.  Plus an exhaustive sweep over the boundary value space of the primitive types.

Part B (histories, vlib/c02_b.py): Hypothesis-generated request histories through the real
session and engine; the response-envelope invariant on every byte string the session sends.
"""
import copy

from hypothesis import strategies as st

from vlib import codec_table as T
from vlib import core
from vlib import c02_a as A
from vlib import c02_b as B
from vlib import c02_tables as L

PID = "C02"
LEVEL = "exploration"
RULE = ("Part A: cases are drawn per (class, KMIP version) from vlib/codec_table.py with the "
        "boundary-biased strategies of C01 under an own seed (40 per pair quick, 500 thorough), plus "
        "an exhaustive sweep of the primitive value space (Integer/LongInteger/DateTime/Interval "
        "edges, BigInteger +-2^k+-1 for k=0..1040, text and byte strings of every length 0..40 and "
        "around 256/1024, non-ASCII text, every member of every enumeration, both booleans, "
        "rotating tags); a part-A case is non-trivial when it has an optional field present or a "
        "boundary value (C01's rule), counted once per (class, version, presence bitmap, length "
        "residues).  Part B: request histories of 1-15 requests over 1-15 connections against a "
        "copy of the standard store: batches of 1-4 items from pools of succeeding and failing "
        "items of every operation, the General-Failure triggers stored under known/C13-*.json "
        "(none left once all are repaired), header variations (time "
        "stamp, asynchronous indicator, UNDO, missing ids, batch count, small Maximum Response "
        "Size, unsupported versions), raw and mutated undecodable requests, failing certificates; "
        "a deterministic grid runs every pool item, header variation, raw shape, failing "
        "certificate and text-echo probe sequence once per version before the random part; "
        "a history is non-trivial when at least one of its responses has >=2 batch items, a failed "
        "item, or comes from a non-batch construction path; B_path:* counts responses per "
        "construction path (observed by a spy on process_request/build_error_response)")
ASSUMPTIONS = [
    "vlib.ttlvref implements KMIP section 9.1 (tag 42xxxx/54xxxx, types 1..10 and 11 under 2.0, "
    "fixed lengths, zero padding to 8, structure length = sum of padded children)",
    "tag numbers, item types, structure layouts and the Result Status/Reason enumerations of "
    "vlib/c02_tables.py are literals transcribed from the KMIP specification",
    "a BigInteger encoding wider than the minimal multiple of 8 but correctly sign-extended is "
    "conformant (section 9.1.1.4 demands padding to a multiple of 8, not minimality) - counted",
    "a value the writer refuses to encode is judged only for the primitive and single-value "
    "classes (value inside the type's value space); for composite classes it is C01's business",
    "a constructor field the writer leaves out altogether is not judged (C01); only a leaf that is "
    "emitted with another value is",
    "the session is driven through KmipSession._handle_message_loop over a scripted connection "
    "(no real TLS); responses are what it hands to sendall",
    "response version: equal to the request's when the request bytes carry a well-formed header "
    "with a version the server documents (1.0-2.0); otherwise the request's own or any documented "
    "version",
    "non-batch responses must carry Invalid Message / Authentication Not Successful / Response "
    "Too Large for undecodable request / failed authentication / oversize replacement (KMIP "
    "section 11.1)",
]
SHRINK_BUDGET = 150


# ====================================================================== part A
def _a_classes(spec):
    return ["A:" + spec["cls"]]


def judge_a(spec):
    """-> (buckets, notes)"""
    buckets, notes, b = A.judge(spec)
    if spec.get("reemit") and b is not None:
        bk, nn = reemit(spec, b)
        buckets += bk
        notes += nn
    return buckets, notes


def reemit(spec, b):
    """The library re-emitting what it decoded: bytes must again be well-formed TTLV."""
    from vlib import ttlvref
    name, v = spec["cls"], tuple(spec["v"])
    try:
        y = T.decode(name, b, v, hint=spec)
        b2 = T.encode(y, v)
    except Exception:
        return [], ["reemit-not-possible"]
    try:
        ttlvref.parse_one(b2)
    except ttlvref.TTLVError as e:
        return [("%s|malformed-after-decode|%s" % (PID, A.malformed_label(b2, str(e))),
                 "%s KMIP %d.%d: enc(dec(b)) = %s is not well-formed: %s (b = %s)"
                 % (name, v[0], v[1], b2.hex()[:200], e, b.hex()[:200]))], ["reemit"]
    return [], ["reemit"]


def _has_text_len_mod8(b):
    def walk(o, end):
        while o + 8 <= end:
            typ = b[o + 3]
            ln = int.from_bytes(b[o + 4:o + 8], "big")
            if typ == 1:
                if walk(o + 8, min(end, o + 8 + ln)):
                    return True
            elif typ == 7 and ln % 8 == 0:
                return True
            o += 8 + (ln + 7) // 8 * 8
        return False
    try:
        return walk(0, len(b))
    except Exception:
        return False


_DEFECT = {}


def defect_present(which):
    """Self-probes for the two TextString defects that were confirmed when this check was built
    (both repaired in the repository since): while one is present its cases are excluded from
    the bulk generator and counted; once it is gone nothing is excluded."""
    if which not in _DEFECT:
        spec = {"nonascii": {"cls": "TextString", "v": [1, 0], "fields": {"value": "é"}},
                "textpad": {"cls": "TextString", "v": [1, 0], "fields": {"value": "abcdefgh"},
                            "reemit": True}}[which]
        try:
            _DEFECT[which] = bool(judge_a(spec)[0])
        except Exception:
            _DEFECT[which] = False
    return _DEFECT[which]


def _nontrivial_a(spec):
    return A.nontrivial_key(spec)


def _record_a(col, spec, seen, bulk):
    key, rule = _nontrivial_a(spec)
    first = rule and key not in seen
    if rule:
        seen.add(key)
    spec = dict(spec, part="A")
    if bulk and not spec.get("probe") and core.spec_hash(spec)[-1] in "01":
        # one bulk case in eight is also decoded and re-emitted; the confirmed padding defect
        # of decoded text (length 0 mod 8) is excluded here and reached by the sweep
        buckets, notes, b = A.judge(spec)
        if b is not None:
            if defect_present("textpad") and _has_text_len_mod8(b):
                col.exclude("re-emit of a decoded TextString with length 0 mod 8 (confirmed "
                            "padding defect; reached by the primitive sweep)")
            else:
                spec["reemit"] = True
                bk, nn = reemit(spec, b)
                buckets += bk
                notes += nn
    else:
        buckets, notes = judge_a(spec)
    for n in notes:
        col.bump("A_" + n)
    col.record(spec, nontrivial=first, classes=_a_classes(spec), buckets=buckets)


def worker_a(shard, seed, units, n):
    col = core.Collector(PID)
    seen = set()
    for unit in units:
        if unit[0] == "$sweep":
            _sweep(col, unit[1], unit[2], seen)
            continue
        name, v = unit[0], tuple(unit[1])
        row = T.ROWS[name]

        def fn(spec):
            if spec.get("probe"):
                col.bump("A_probe_cases:" + spec["probe"])
            _record_a(col, spec, seen, True)
        core.draw_examples(T.strategy_for(name, v), n,
                           core.derive_seed(seed, "c02a", name, v[0], v[1]), fn)
        if any(isinstance(f.kind, (T.Text, T.AttrName)) for f in row.fields) \
                and "nonascii" not in row.probes and defect_present("nonascii"):
            col.exclude("non-ASCII text outside the TextString row (TextString cannot encode it; "
                        "reached by the TextString probe and the primitive sweep)", n)
    return col


# ---- exhaustive sweep of the primitive value space
_SWEEP_TAGS = ["DEFAULT", "ACTIVATION_DATE", "CRYPTOGRAPHIC_LENGTH", "UNIQUE_IDENTIFIER",
               "OBJECT_GROUP", "ITERATION_COUNT", "LEASE_TIME", "FRESH", "SALT", "NAME_VALUE",
               "PRIME_FIELD_SIZE", "Q"]
_NONASCII = ["é", "naïve", "ü" * 8, "€", "key-\U0001f511", "\u0080", "日本語", "aéb"]


def sweep_cases():
    cases = []
    add = lambda cls, val, **kw: cases.append((cls, dict({"value": val}, **kw)))
    ints = sorted(set([-2 ** 31, -2 ** 31 + 1, -2 ** 24, -65536, -256, -255, -129, -128, -127, -2,
                       -1, 0, 1, 2, 127, 128, 255, 256, 65535, 65536, 2 ** 24, 2 ** 31 - 2,
                       2 ** 31 - 1] + [s * 2 ** k for s in (1, -1) for k in range(31)]))
    for x in ints:
        add("Integer", x)
    longs = sorted(set([-2 ** 63, -2 ** 63 + 1, 2 ** 63 - 1, 2 ** 63 - 2, -1, 0, 1,
                        2 ** 31, 2 ** 32, -2 ** 31 - 1, -2 ** 32]
                       + [s * 2 ** k + d for s in (1, -1) for k in range(63) for d in (-1, 0, 1)
                          if -2 ** 63 <= s * 2 ** k + d < 2 ** 63]))
    for x in longs:
        add("LongInteger", x)
    # DateTime: pre-epoch, epoch, now-ish, 2038 edge, far future
    for x in sorted(set([-2 ** 63, -2 ** 62, -62135596800, -86400, -1, 0, 1, 86399, 1_700_000_000,
                         2 ** 31 - 1, 2 ** 31, 2 ** 32 - 1, 2 ** 32, 253402300799, 253402300800,
                         2 ** 53, 2 ** 62, 2 ** 63 - 1] + [-(2 ** k) for k in range(0, 63, 3)]
                        + [2 ** k for k in range(0, 63, 3)])):
        add("DateTime", x)
    for x in sorted(set([0, 1, 2, 59, 60, 3600, 86400, 2 ** 16, 2 ** 31 - 1, 2 ** 31, 2 ** 32 - 2,
                         2 ** 32 - 1] + [2 ** k for k in range(32)])):
        add("Interval", x)
    add("Interval", 2 ** 32)            # outside the value space: must not be judged
    for k in list(range(0, 140)) + list(range(180, 200)) + list(range(250, 262)) \
            + list(range(500, 524)) + list(range(1016, 1041)):
        for s in (1, -1):
            for d in (-1, 0, 1):
                add("BigInteger", s * 2 ** k + d)
    for x in (True, False):
        add("Boolean", x)
    lens = list(range(0, 41)) + [63, 64, 65, 255, 256, 257, 263, 264, 1023, 1024, 1025]
    for n in lens:
        add("TextString", "".join(chr(0x21 + (i * 7) % 94) for i in range(n)))
        add("ByteString", bytes((i * 37 + n) % 256 for i in range(n)).hex())
    for n in (1, 7, 8, 9, 16):
        add("TextString", "\x00" * n)
        add("TextString", "\x7f" * n)
        add("ByteString", "00" * n)
        add("ByteString", "ff" * n)
    for s in _NONASCII:
        add("TextString", s)
    for en in T.INT_ENUMS:
        for m in T.enum_members(en):
            add("Enumeration", m, enum=en)
    out = []
    for i, (cls, fields) in enumerate(cases):
        fields = dict(fields)
        fields["tag"] = _SWEEP_TAGS[i % len(_SWEEP_TAGS)]
        v = T.VERSIONS[i % len(T.VERSIONS)]
        out.append({"cls": cls, "v": list(v), "fields": fields, "sweep": True, "reemit": True})
    # single-value wrapper classes: one boundary pass each (tag comes from the class)
    for row in T.concrete_rows():
        if row.name in T.PRIM_ROWS:
            continue
        f = A.single_value_field(row)
        if f is None:
            continue
        typ = A._kind_type(f.kind)
        vals = {L.TEXT: ["", "a", "abcdefg", "abcdefgh", "abcdefghi", "x" * 16, "x" * 300, "é"],
                L.BYTES: ["", "00", "ab" * 7, "ab" * 8, "ab" * 9, "cd" * 300],
                L.INT: [-2 ** 31, -1, 0, 1, 2 ** 31 - 1],
                L.LONG: [-2 ** 63, -1, 0, 2 ** 63 - 1],
                L.DATE: [-2 ** 63, -1, 0, 1_700_000_000, 2 ** 63 - 1],
                L.IVL: [0, 1, 2 ** 32 - 1],
                L.BOOL: [True, False],
                L.BIG: [0, -1, 2 ** 63, -2 ** 63, 2 ** 64, -2 ** 64 - 1]}.get(typ)
        if isinstance(f.kind, T.Mask):
            vals = [0, 1, 2 ** 20 - 1]
        if isinstance(f.kind, T.AttrName):
            vals = ["Name", "x-custom", "Cryptographic Usage Mask"]
        if typ == L.ENUM:
            vals = f.kind.members or T.enum_members(f.kind.name)
        if isinstance(f.kind, T.Text) and f.kind.min_len:
            vals = [x for x in vals if len(x) >= f.kind.min_len]
        for j, val in enumerate(vals or []):
            vs = row.versions()
            out.append({"cls": row.name, "v": list(vs[j % len(vs)]), "fields": {"value": val},
                        "sweep": True, "reemit": True})
    return out


def _sweep(col, part, nparts, seen):
    for i, spec in enumerate(sweep_cases()):
        if i % nparts != part:
            continue
        spec = dict(spec, part="A")
        buckets, notes = judge_a(spec)
        for n in notes:
            col.bump("A_" + n)
        col.bump("A_sweep_cases")
        key, rule = _nontrivial_a(spec)
        first = rule and key not in seen
        if rule:
            seen.add(key)
        col.record(spec, nontrivial=first, classes=_a_classes(spec) + ["A:sweep"],
                   buckets=buckets)


# ====================================================================== part B generator
_GOOD = {"cns": ["alice"], "eku": "client"}
_BAD_CERTS = [None, {"cns": ["alice"], "eku": None}, {"cns": ["alice"], "eku": "server"},
              {"cns": [], "eku": "client"}, {"cns": ["alice", "bob"], "eku": "client"}]
_UNSUPPORTED_VERSIONS = [[9, 9], [1, 5], [3, 0], [0, 9], [2, 1], [1, -1], [2 ** 31 - 1, 0]]
_RAW = None


def _frame(body, head=b"\x42\x00\x78\x01"):
    return (head + len(body).to_bytes(4, "big") + body).hex()


def raw_menu():
    """Self-framed byte strings that are not requests (well-formed TTLV or not)."""
    global _RAW
    if _RAW is not None:
        return _RAW
    from vlib import ttlvref as R
    pv = lambda a, b: R.encode_struct(0x420069, [R.encode_integer(0x42006A, a),
                                                 R.encode_integer(0x42006B, b)])
    hdr = lambda a, b, n=1: R.encode_struct(0x420077, [pv(a, b), R.encode_integer(0x42000D, n)])
    item = lambda op, payload=b"": R.encode_struct(0x42000F, [
        R.encode_enum(0x42005C, op), R.encode_struct(0x420079, [payload] if payload else [])])
    m = [
        ("empty-message", _frame(b"")),
        ("zero-bytes", _frame(b"\x00" * 16)),
        ("garbage", _frame(bytes(range(1, 41)))),
        ("garbage-odd-length", _frame(b"\xde\xad\xbe\xef\x01")),
        ("not-a-request-tag", _frame(b"", head=b"\x42\x00\x7b\x01")),
        ("random-head", _frame(b"abcdefgh", head=b"\x00\x00\x00\x00")),
        ("header-only-1.4", _frame(hdr(1, 4, 0))),
        ("no-header-2.0-item", _frame(item(0x18))),
        ("hdr-1.4+garbage", _frame(hdr(1, 4) + b"\xff" * 24)),
        ("hdr-2.0+garbage", _frame(hdr(2, 0) + b"\x42\x00\x0f\x01\x00\x00\x00\x10" + b"\x01" * 16)),
        ("hdr-1.1+unknown-operation", _frame(hdr(1, 1) + item(0xFF))),
        ("hdr-1.3+operation-zero", _frame(hdr(1, 3) + item(0))),
        ("hdr-1.2+item-without-payload", _frame(hdr(1, 2) + R.encode_struct(0x42000F, [R.encode_enum(0x42005C, 0x0A)]))),
        ("hdr-1.2+item-without-operation", _frame(hdr(1, 2) + R.encode_struct(0x42000F, [R.encode_struct(0x420079, [])]))),
        ("hdr-1.0+get-with-integer-uid", _frame(hdr(1, 0) + item(0x0A, R.encode_integer(0x420094, 5)))),
        ("hdr-1.4+get-with-nonascii-uid", _frame(hdr(1, 4) + item(0x0A, R.encode_text(0x420094, "clé")))),
        ("hdr-1.2+locate-name-nonascii", _frame(hdr(1, 2) + item(0x08, R.encode_struct(0x420008, [
            R.encode_text(0x42000A, "Name"), R.encode_struct(0x42000B, [
                R.encode_text(0x420055, "schlüssel"), R.encode_enum(0x420054, 1)])])))),
        ("hdr-9.9+query", _frame(hdr(9, 9) + item(0x18, R.encode_enum(0x420074, 1)))),
        ("hdr-1.2-twice", _frame(hdr(1, 2) + hdr(1, 2) + item(0x18, R.encode_enum(0x420074, 1)))),
        ("hdr-version-as-text", _frame(R.encode_struct(0x420077, [R.encode_text(0x420069, "1.2"), R.encode_integer(0x42000D, 1)]))),
        ("hdr-1.2-no-batch-count", _frame(R.encode_struct(0x420077, [pv(1, 2)]) + item(0x18, R.encode_enum(0x420074, 1)))),
        ("hdr-1.2+nonzero-integer-padding", _frame(hdr(1, 2)[:-4] + b"\x00\x00\x00\x01" + item(0x18))),
        ("hdr-1.4+boolean-2", _frame(R.encode_struct(0x420077, [pv(1, 4), R.encode_bool(0x420007, True)[:-1] + b"\x02", R.encode_integer(0x42000D, 1)]) + item(0x18))),
        ("response-as-request", _frame(R.encode_struct(0x42007A, [pv(1, 2), R.encode_datetime(0x420092, 5), R.encode_integer(0x42000D, 0)]))),
        ("deep-nesting", _frame(_nest(40))),
    ]
    _RAW = m
    return m


def _nest(n):
    from vlib import ttlvref as R
    b = b""
    for _ in range(n):
        b = R.encode_struct(0x420077, [b] if b else [])
    return b


def _probe_sequences(idx):
    """Directed sequences: text the server decoded from a request and reports back later
    (lengths that are multiples of 8 - the confirmed padding defect of decoded text)."""
    from vlib import fixtures as F
    sk = idx["SymmetricKey/PRE_ACTIVE"]
    seqs = []
    for nm in ("abcdefgh", "n" * 16, "", "x" * 24, "schl\u00fcssel", "\u043a\u043b\u044e\u0447-\u65e5\u672c"):
        for v in ([1, 0], [1, 2], [1, 4], [2, 0]):
            seqs.append([
                {"v": v, "items": [F.register_item("SymmetricKey", label="p" + nm[:2],
                                                   extra_attrs=[["Name", nm], ["Object Group", "grpgrpgr"]])]},
                {"v": v, "items": [{"op": "GetAttributes", "uid": "$last"}]},
                {"v": v, "items": [{"op": "GetAttributes", "uid": "$last", "names": ["Name", "Object Group"]}]},
                {"v": v, "items": [{"op": "Locate", "attrs": [["Name", nm]]}, {"op": "Get"}]}])
    for v in ([1, 0], [1, 3]):
        seqs.append([{"v": v, "items": [{"op": "ModifyAttribute", "uid": sk, "attr": ["Name", "abcdefgh", 0]}]},
                     {"v": v, "items": [{"op": "GetAttributes", "uid": sk, "names": ["Cryptographic Usage Mask", "Application Specific Information"]}]},
                     {"v": v, "items": [{"op": "DeleteAttribute", "uid": sk, "name": "Application Specific Information", "index": 0}]},
                     {"v": v, "items": [{"op": "ModifyAttribute", "uid": sk, "attr": ["Object Group", "sixteen-chars-grp", 0]}]}])
    # KMIP 2.0 GetAttributes that matches nothing (confirmed: the response cannot be written)
    seqs.append([{"v": [2, 0], "items": [{"op": "GetAttributes", "uid": sk, "names": ["Usage Limits"]}]},
                 {"v": [2, 0], "items": [{"op": "GetAttributes", "uid": sk, "names": []}]},
                 {"v": [1, 4], "items": [{"op": "GetAttributes", "uid": sk, "names": ["Usage Limits"]}]}])
    seqs.append([{"v": [2, 0], "items": [{"op": "SetAttribute", "uid": sk, "new": ["Contact Information", "abcdefgh"]}]},
                 {"v": [2, 0], "items": [{"op": "ModifyAttribute", "uid": sk, "cur": ["Name", "n-SymmetricKey-PRE_ACTIVE"], "new": ["Name", "12345678"]}]},
                 {"v": [2, 0], "items": [{"op": "GetAttributes", "uid": sk}]},
                 {"v": [2, 0], "items": [{"op": "DeleteAttribute", "uid": sk, "cur": ["Name", "12345678"]}]}])
    return seqs


@st.composite
def gen_history(draw):
    from vlib import harness as H, hist, menus as M, store
    _, idx = store.standard_template()
    pools = {}

    def pool(v):
        v = tuple(v)
        if v not in pools:
            p = hist.pool_items(idx, v)
            pools[v] = ([i for l, i in p if l.startswith("ok/")],
                        [i for l, i in p if l.startswith("fail/")])
        return pools[v]
    c13 = B.c13_trigger_requests()
    target = draw(st.sampled_from([1, 2, 3, 4, 5, 6, 8, 10, 12, 15]))
    reqs = []          # (request, cert, tls)
    while len(reqs) < target:
        kind = draw(st.sampled_from(
            ["batch"] * 12 + ["header"] * 4 + ["smallmax"] * 2 + ["version"] * 1 + ["raw"] * 1
            + ["mangle"] * 2 + ["c13"] * 2 + ["probe"] * 1 + ["longid"] * 1))
        cert, tls = _GOOD, True
        who = draw(st.sampled_from(["alice"] * 7 + ["bob"]))
        cert = {"cns": [who], "eku": "client"}
        c = draw(st.integers(0, 15))
        if c == 0:
            cert = draw(st.sampled_from(_BAD_CERTS))
        elif c == 1:
            cert, tls = {"cns": [who], "eku": draw(st.sampled_from([None, "server"]))}, False
        if kind == "longid":
            # identifiers of a thousand characters and more (they come back inside result messages)
            n_ = draw(st.sampled_from([1000, 1023, 1024, 1025, 1200, 5000]))
            v_ = draw(st.sampled_from(H.VERSIONS))
            its = [{"op": o_, "uid": draw(st.sampled_from(["9", "x"])) * n_}
                   for o_ in draw(st.lists(st.sampled_from(["Get", "Destroy", "GetAttributes", "Activate",
                                                            "GetAttributeList"]), min_size=1, max_size=3))]
            for k_, it_ in enumerate(its):
                it_["bid"] = "%02x" % (k_ + 1)
            r_ = {"kind": "batch", "v": list(v_), "items": its}
            if len(its) > 1:
                r_["cont"] = "CONTINUE"
            reqs.append((r_, cert, tls))
            continue
        if kind == "probe":
            seq = draw(st.sampled_from(_probe_sequences(idx)))
            for r in seq[:target - len(reqs)]:
                reqs.append((dict(copy.deepcopy(r), kind="batch"), _GOOD, True))
            continue
        if kind == "raw":
            label, hx = draw(st.sampled_from(raw_menu()))
            reqs.append(({"kind": "raw", "hex": hx, "label": label}, cert, tls))
            continue
        if kind == "c13" and c13:
            t = draw(st.sampled_from(c13))
            r = {"kind": "batch", "v": list(t["v"]), "items": [copy.deepcopy(t["item"])]}
            if draw(st.booleans()):
                v = tuple(t["v"])
                ok, _fail = pool(v if v in H.VERSIONS else (1, 2))
                r["items"].insert(draw(st.integers(0, 1)), copy.deepcopy(draw(st.sampled_from(ok))))
                r["cont"] = draw(st.sampled_from([None, "CONTINUE"]))
                for k, it in enumerate(r["items"]):
                    it["bid"] = "%02x" % (k + 1)
            reqs.append((r, {"cns": [t["who"]], "eku": "client"}, True))
            continue
        v = draw(st.sampled_from(H.VERSIONS))
        ok, fail = pool(v)
        n = draw(st.sampled_from([1, 1, 1, 2, 2, 3, 4]))
        items = []
        for _k in range(n):
            ik = draw(st.sampled_from(["ok"] * 6 + ["fail", "fail", "placeholder", "unsupported"]))
            if ik == "ok":
                it = draw(st.sampled_from(ok))
            elif ik == "fail":
                it = draw(st.sampled_from(fail))
            elif ik == "unsupported":
                it = {"op": draw(st.sampled_from(M.UNSUPPORTED_OPS)), "uid": "1"}
            else:
                op = draw(st.sampled_from(hist.PLACEHOLDER_OPS))
                if op in ("Encrypt", "MAC", "Sign") and tuple(v) < (1, 2):
                    op = "Get"
                it = hist.placeholder_item(op, v)
            items.append(copy.deepcopy(it))
        ids = draw(st.sampled_from(["all"] * 6 + ["none", "long", "dup"]))
        for k, it in enumerate(items):
            if ids == "all":
                it["bid"] = "%02x" % (k + 1)
            elif ids == "none":
                it["bid"] = None
            elif ids == "dup":
                it["bid"] = "aa"
            else:
                it["bid"] = ("%02x" % (k + 1)) * draw(st.sampled_from([8, 9, 33]))
        r = {"kind": "batch", "v": list(v), "items": items}
        co = draw(st.sampled_from([None, None, None, "STOP", "CONTINUE", "CONTINUE"]))
        if co is not None:
            r["cont"] = co
        if kind == "header":
            h = draw(st.sampled_from(["ts-now", "ts-stale", "ts-future", "ts-edge59", "ts-edge60",
                                      "async-true", "async-false", "undo", "order-true",
                                      "order-false", "no-ids", "some-ids", "count-more",
                                      "count-zero", "cred-user", "cred-device", "max-huge",
                                      "max-zero"]))
            if h.startswith("ts-"):
                r["ts"] = h[3:]
            elif h.startswith("async-"):
                r["async"] = h == "async-true"
            elif h == "undo":
                r["cont"] = "UNDO"
            elif h.startswith("order-"):
                r["order"] = h == "order-true"
            elif h in ("no-ids", "some-ids"):
                if len(items) < 2:
                    items.append(copy.deepcopy(draw(st.sampled_from(ok))))
                for k, it in enumerate(items):
                    it["bid"] = None if (h == "no-ids" or k == len(items) - 1) else "%02x" % (k + 1)
            elif h == "count-more":
                r["count"] = len(items) + 2
            elif h == "count-zero":
                r["count"] = 0
            elif h == "cred-user":
                r["cred"] = [{"kind": "user", "user": "u", "password": draw(st.sampled_from([None, "p", ""]))}]
            elif h == "cred-device":
                r["cred"] = [{"kind": "device", "serial": "s", "password": "p"}]
            elif h == "max-huge":
                r["max"] = 2 ** 31 - 1
            elif h == "max-zero":
                r["max"] = 0
            r["label"] = h
        elif kind == "smallmax":
            r["max"] = draw(st.sampled_from([1, 8, 100, 160, 168, 176, 200, 256, 400, 1000]))
        elif kind == "version":
            r["v"] = draw(st.sampled_from(_UNSUPPORTED_VERSIONS))
            # the attribute operations have version-specific request forms
            r["items"] = [it for it in items if it["op"] not in (
                "ModifyAttribute", "DeleteAttribute", "SetAttribute")] or [{"op": "Query"}]
        elif kind == "mangle":
            nops = draw(st.sampled_from([1, 1, 1, 2, 3]))
            ops = [[draw(st.sampled_from(["del", "del", "dup", "swap", "retag", "retype", "text",
                                          "flip", "flip", "cut", "tail"])),
                    draw(st.integers(0, 999)), draw(st.integers(0, 999))] for _ in range(nops)]
            r = {"kind": "mangle", "req": {k: x for k, x in r.items() if k != "kind"}, "ops": ops}
        reqs.append((r, cert, tls))
    # group into connections: a request shares the previous connection with probability 1/3 when
    # the certificate is the same
    conns = []
    for r, cert, tls in reqs:
        if conns and conns[-1]["cert"] == cert and conns[-1]["tls"] == tls \
                and draw(st.integers(0, 2)) == 0 and len(conns[-1]["reqs"]) < 4:
            conns[-1]["reqs"].append(r)
        else:
            c = {"cert": cert, "tls": tls, "reqs": [r]}
            ch = draw(st.sampled_from([None, None, None, [1], [7, 3], [8, 4096], [13]]))
            if ch:
                c["chunks"] = ch
            conns.append(c)
    return {"part": "B", "conns": conns}


def grid_histories():
    """Deterministic part of B: every pool item (succeeding and failing, every operation) alone
    and in a Continue batch under every version, every header variation, every raw shape under
    a good and every failing certificate, every stored General-Failure trigger, a small
    Maximum Response Size around every response."""
    from vlib import harness as H, hist, store
    _, idx = store.standard_template()
    out = []

    def chunked(reqs, n=10, **conn):
        for i in range(0, len(reqs), n):
            out.append({"part": "B", "grid": True,
                        "conns": [dict({"reqs": [r]}, **conn) for r in reqs[i:i + n]]})
    for v in H.VERSIONS:
        p = hist.pool_items(idx, v)
        # each item on a fresh store would be cleanest; ten per history keeps it cheap while the
        # items of the pool are independent enough (each outcome is judged by the envelope only)
        chunked([{"kind": "batch", "v": list(v), "items": [copy.deepcopy(it)], "label": lab}
                 for lab, it in p], 6)
        oks = [it for lab, it in p if lab.startswith("ok/")]
        fails = [it for lab, it in p if lab.startswith("fail/")]
        reqs = []
        for k in range(0, len(fails), 2):
            items = [copy.deepcopy(oks[k % len(oks)]), copy.deepcopy(fails[k]),
                     copy.deepcopy(oks[(k + 1) % len(oks)])]
            if k + 1 < len(fails):
                items.append(copy.deepcopy(fails[k + 1]))
            for j, it in enumerate(items):
                it["bid"] = "%02x" % (j + 1)
            reqs.append({"kind": "batch", "v": list(v), "items": items,
                         "cont": "CONTINUE" if k % 4 == 0 else "STOP"})
        chunked(reqs, 6)
        q = {"op": "Query"}
        hdrs = [{"ts": "now"}, {"ts": "stale"}, {"ts": "future"}, {"async": True},
                {"async": False}, {"cont": "UNDO"}, {"count": 3}, {"count": 0}, {"max": 0},
                {"max": 1}, {"max": 160}, {"max": 2 ** 31 - 1}, {"order": True},
                {"cred": [{"kind": "user", "user": "u", "password": "p"}]}]
        reqs = [dict({"kind": "batch", "v": list(v), "items": [dict(q)],
                      "label": ",".join("%s=%s" % (k, x if not isinstance(x, list) else "user")
                                        for k, x in sorted(h.items()))}, **h) for h in hdrs]
        reqs.append({"kind": "batch", "v": list(v),
                     "items": [dict(q, bid=None), dict(q, bid=None)], "label": "no-ids"})
        reqs.append({"kind": "batch", "v": list(v),
                     "items": [dict(q, bid="01"), {"op": "Get", "uid": "9999", "bid": None}],
                     "label": "some-ids"})
        chunked(reqs, 9)
        for bad in _BAD_CERTS:
            chunked([{"kind": "batch", "v": list(v), "items": [dict(q)]}], cert=bad)
    chunked([{"kind": "batch", "v": v, "items": [{"op": "Query"}],
              "label": "unsupported-version"} for v in _UNSUPPORTED_VERSIONS])
    raws = [{"kind": "raw", "hex": hx, "label": lab} for lab, hx in raw_menu()]
    chunked(raws, 9)
    for bad in _BAD_CERTS:
        chunked(raws[:6], cert=bad)
    chunked([{"kind": "batch", "v": list(t["v"]), "items": [copy.deepcopy(t["item"])]}
             for t in B.c13_trigger_requests()], 8)
    for seq in _probe_sequences(idx):
        chunked([dict(copy.deepcopy(r), kind="batch") for r in seq], 15)
    return out


def worker_b(n, seed, shard=0, nshards=1):
    from vlib import store
    col = core.Collector(PID)
    try:
        store.standard_template()
    except Exception as e:
        # the library under test cannot even build the standard store (requests of the harness
        # are refused): part B cannot run; run() decides what that means
        col.extra["B_unavailable"] = "%s: %s" % (type(e).__name__, str(e)[:300])
        return col

    def one(spec):
        buckets, classes, nt, counters = B.run_history(spec)
        for k, v in counters.items():
            col.bump(k, v)
        nreq = sum(len(c["reqs"]) for c in spec["conns"])
        col.bump("B_histories")
        col.bump("B_requests", nreq)
        cl = sorted(set(classes)) + ["B:history"]
        col.record(spec, nontrivial=nt, classes=cl, buckets=buckets)
    grid = grid_histories()
    for i, spec in enumerate(grid):
        if i % nshards == shard:
            one(spec)
            col.bump("B_grid_histories")
    core.draw_examples(gen_history(), n, seed, one)
    return col


def worker(kind, *args):
    if kind == "A":
        return worker_a(*args)
    return worker_b(*args)


# ====================================================================== entry points
def replay(spec):
    if spec.get("part") == "B" or "conns" in spec:
        from vlib import store
        try:
            store.standard_template()
        except Exception:
            return []       # no working server under this library: nothing can be reproduced
        return B.run_history(spec)[0]
    return judge_a(spec)[0]


def _units(jobs):
    pairs = T.pairs()
    pairs.sort(key=lambda p: (-T.ROWS[p[0]].weight, p[0], p[1]))
    shards = [[] for _ in range(jobs)]
    for i, (name, v) in enumerate(pairs):
        shards[i % jobs].append((name, list(v)))
    for i in range(jobs):
        shards[i].append(("$sweep", i, jobs))
    return shards


def run(ctx):
    jobs = max(1, min(core.NCPU, 16))
    n_a = ctx.n(40, 500)
    n_b = ctx.n(300, 5000)
    shards = _units(jobs)
    nb = jobs if ctx.quick else jobs * 4
    per = (n_b + nb - 1) // nb
    args = [("B", per, core.derive_seed(ctx.seed, "c02b", i), i, nb) for i in range(nb)]
    args += [("A", i, ctx.seed, shards[i], n_a) for i in range(jobs)]
    dicts = core.run_sharded("vlib.props.c02", "worker", args, jobs=jobs)
    col = core.merged(PID, dicts)
    # samples: real cases of both parts, one per class
    picked, seen_cls, seen_spec = [], set(), set()
    for part, quota in (("B:", 4), ("A:", 4)):
        k = 0
        for d in dicts:
            for c, sp in d["samples"]:
                h = core.spec_hash(sp)
                if c.startswith(part) and c not in seen_cls and h not in seen_spec and k < quota:
                    seen_cls.add(c)
                    seen_spec.add(h)
                    picked.append([c, sp])
                    k += 1
    if picked:
        col.samples = picked
    for r in T.ROWS.values():
        if r.abstract:
            col.exclude("class without a wire form of its own (abstract/stub): " + r.name)
        else:
            col.classes.setdefault("A:" + r.name, 0)
    for p in B.PATHS:
        col.extra.setdefault("B_path:" + p, 0)
    col.extra["A_pairs"] = len(T.pairs())
    col.extra["A_cases_per_pair"] = n_a
    col.extra["A_sweep_exhaustive_over_listed_values"] = True
    if col.extra.get("B_unavailable"):
        # Part B needs a working server.  If part A has already shown a violation that is not a
        # known finding, report that (the verdict is genuine); otherwise this is a harness error.
        known = set(e["bucket"] for e in core.load_known(PID) if e.get("status", "known") == "known")
        new = [k for k in col.buckets if k not in known]
        if not new:
            raise core.HarnessError("part B could not build the standard store: %s"
                                    % col.extra["B_unavailable"])
        core.log("C02: part B not run (%s); reporting part A only" % col.extra["B_unavailable"])
        return col
    missing = [p for p in B.PATHS if not col.extra.get("B_path:" + p)]
    if missing:
        # a path that answers malformed under the library at hand is never classified; the
        # malformed answers are findings of their own, and those are what gets reported
        known = set(e["bucket"] for e in core.load_known(PID) if e.get("status", "known") == "known")
        if [k for k in col.buckets if k not in known]:
            core.log("C02: response path(s) not classified: %s" % ", ".join(missing))
            return col
        raise core.HarnessError("part B never exercised response path(s): %s" % ", ".join(missing))
    return col
