"""C11 - requests are isolated from each other's transient state (differential: used engine vs
fresh engine on a byte copy of the same database)."""
import copy

from hypothesis import strategies as st

from vlib import core, fixtures as F, harness as H, hist, store

PID = "C11"
LEVEL = "exploration"
RULE = ("pairs (prefix history of 1-4 requests by up to 3 clients over all operations, versions and "
        "batch shapes on a standard store; probe request): the probe is answered by the engine that "
        "served the prefix and by a fresh engine opened on a byte copy of the database taken just "
        "before the probe (same harness clock); response bytes and final raw-table snapshots must be "
        "equal. Probes are biased to identifier-less requests (ID placeholder), to another identity "
        "and another protocol version than the prefix. non-trivial = the prefix contains a successful "
        "creating operation, or a different version or identity than the probe.  Prefix requests also "
        "carry header options (asynchronous indicator, undo / continue, batch order, stale or future "
        "time stamps, request credentials, maximum response size) and DiscoverVersions with client "
        "lists: none of it may change what a later request gets.  Session pairs: the "
        "same over ONE KmipSession (prefix requests with their own Maximum Response Size / batch "
        "options, chunked delivery), reference = the probe on a new session of a fresh engine on a "
        "byte copy taken when the last prefix response had been sent")
ASSUMPTIONS = ["probe responses are deterministic given the database and the clock (IVs are always "
               "supplied; key material created by the probe is masked in the snapshot comparison)",
               "operation policies are fixed for the run (they are not request state)"]

USERS = ["alice", "bob", "carol"]


@st.composite
def gen_req(draw, idx, probe=False):
    v = draw(st.sampled_from(H.VERSIONS))
    who = draw(st.sampled_from(USERS if probe else ["alice", "alice", "bob", "carol"]))
    pool = hist.pool_items(idx, v, who)
    kind = draw(st.sampled_from(["idless", "idless", "pool", "versioned"] if probe else
                                ["pool", "pool", "pool", "batch", "creator"]))
    if kind == "idless":
        op = draw(st.sampled_from(hist.PLACEHOLDER_OPS))
        if op in ("Encrypt", "MAC", "Sign") and v < (1, 2):
            v = (1, 2)
        items = [hist.placeholder_item(op, v)]
    elif kind == "versioned":
        # attribute / operation gated by version, after a prefix under another version
        items = [draw(st.sampled_from([
            {"op": "GetAttributes", "uid": idx["SymmetricKey/ACTIVE"]},
            {"op": "GetAttributeList", "uid": idx["SymmetricKey/ACTIVE"]},
            {"op": "GetAttributes", "uid": idx["SymmetricKey/ACTIVE"], "names": ["Sensitive", "Operation Policy Name"]},
            {"op": "Query"},
            {"op": "DiscoverVersions"},
            {"op": "Encrypt", "uid": idx["SymmetricKey/ACTIVE"], "params": {"alg": "AES", "mode": "CBC", "pad": "PKCS5"},
             "data": "00" * 16, "iv": "00" * 16},
            {"op": "Create", "attrs": [["Cryptographic Algorithm", "AES"], ["Cryptographic Length", 128],
                                       ["Cryptographic Usage Mask", 12], ["Sensitive", True]]},
            {"op": "ModifyAttribute", "uid": idx["SymmetricKey/PRE_ACTIVE"], "attr": ["Name", "zz", 0]},
        ]))]
    elif kind == "batch":
        n = draw(st.integers(2, 3))
        items = [pool[draw(st.integers(0, len(pool) - 1))][1] for _ in range(n)]
    elif kind == "creator":
        creators = [i for l, i in pool if i["op"] in ("Create", "Register", "CreateKeyPair", "DeriveKey") and l.startswith("ok/")]
        items = [creators[draw(st.integers(0, len(creators) - 1))]]
    else:
        items = [pool[draw(st.integers(0, len(pool) - 1))][1]]
    groups = draw(st.sampled_from([None, None, None, ["admins"], ["staff"], ["staff", "admins"], []]))
    if draw(st.integers(0, 3)) == 0:
        # the object stored under the group-based 'team' policy: the decision depends on the
        # requester's groups, which belong to the identity of THIS request only
        tu = idx["team"]
        items = [draw(st.sampled_from([{"op": "Get", "uid": tu}, {"op": "GetAttributes", "uid": tu},
                                       {"op": "Locate", "attrs": [["Name", "n-team"]]},
                                       {"op": "GetAttributeList", "uid": tu},
                                       {"op": "ModifyAttribute", "uid": tu, "attr": ["Name", "n-team-2", 0]}
                                       if tuple(v) < (2, 0) else {"op": "Get", "uid": tu}]))]
        groups = draw(st.sampled_from([["admins"], ["staff"], None, ["admins", "staff"]]))
        who = draw(st.sampled_from(["carol", "carol", "bob", "alice"]))
    if not probe and draw(st.integers(0, 5)) == 0:
        # requests whose own parameters narrow or refuse something: none of it may outlive them
        items = [draw(st.sampled_from([
            {"op": "DiscoverVersions", "versions": [[1, 4], [1, 3]]},
            {"op": "DiscoverVersions", "versions": [[2, 0]]},
            {"op": "DiscoverVersions", "versions": [[1, 0]]},
            {"op": "DiscoverVersions", "versions": [[9, 9]]},
            {"op": "DiscoverVersions", "versions": [[1, 2], [3, 0], [1, 0]]},
            {"op": "Query", "functions": ["QUERY_OPERATIONS"]},
            {"op": "Locate", "attrs": [["Object Type", "SymmetricKey"]], "max": 1},
            {"op": "Locate", "attrs": [["Name", "no-such-name"]]},
        ]))]
        if items[0]["op"] == "DiscoverVersions" and v < (1, 1):
            v = (1, 1)
    req = {"who": who, "groups": groups, "v": list(v), "items": items}
    if len(items) > 1 and draw(st.booleans()):
        req["cont"] = "CONTINUE"
    # header options: every one of them belongs to this request only
    if draw(st.integers(0, 3)) == 0:
        opt = draw(st.sampled_from(["async-true", "async-false", "undo", "order-false", "order-true",
                                    "stale-time", "future-time", "credential", "max", "time", "time"]
                                   if not probe else ["async-false", "order-true", "credential",
                                                      "time", "time"]))
        if opt == "async-true":
            req["async"] = True
        elif opt == "async-false":
            req["async"] = False
        elif opt == "undo":
            req["cont"] = "UNDO"
        elif opt.startswith("order"):
            req["order"] = opt.endswith("true")
        elif opt == "time":
            # a Time Stamp the server accepts (clients' clocks differ by seconds): whether it is
            # older or newer than one an earlier request carried is nobody's business
            req["ts_off"] = draw(st.sampled_from([0, 0, -5, -30, -55, 10, 40]))
        elif opt == "stale-time":
            req["ts"] = 1_000_000_000
        elif opt == "future-time":
            req["ts"] = 2_000_000_000
        elif opt == "credential":
            req["cred"] = [{"kind": "user", "user": "mallory", "password": "pw"}]
        elif opt == "max":
            req["max"] = draw(st.sampled_from([0, 64, 300, 100000]))
    return req


@st.composite
def gen_case(draw):
    _, idx = store.standard_template()
    n = draw(st.integers(1, 4))
    case = {"prefix": [draw(gen_req(idx)) for _ in range(n)], "probe": draw(gen_req(idx, probe=True))}
    if draw(st.integers(0, 3)) == 0:
        # the probe was already sent once or twice before (same version, same items, possibly by
        # somebody else): what the engine remembers of "the first time" must not show
        for _ in range(draw(st.integers(1, 2))):
            again = copy.deepcopy(case["probe"])
            if draw(st.booleans()):
                again["who"] = draw(st.sampled_from(USERS))
            case["prefix"].insert(draw(st.integers(0, len(case["prefix"]))), again)
    if draw(st.integers(0, 2)) == 0:
        # everybody speaks the probe's version (what is remembered per version shows only then)
        for r in case["prefix"]:
            r["v"] = list(case["probe"]["v"])
    _skew(draw, case["prefix"] + [case["probe"]])
    return case


def _skew(draw, reqs):
    """One case in six: every request carries a Time Stamp from a clock of its own."""
    if draw(st.integers(0, 5)) == 0:
        for r in reqs:
            if "ts" not in r:
                r["ts_off"] = draw(st.sampled_from([0, -5, -30, -55, 10, 40]))


def _send(server, req, now):
    req = dict(req)
    who = req.pop("who")
    groups = req.pop("groups", None)
    H.CLOCK.now = now
    if "ts_off" in req:
        req["ts"] = now + req.pop("ts_off")
    data = H.encode_request(req)
    return server.process(data, (who, groups)), data


def run_case(spec):
    srv, idx = store.fresh_server()
    buckets = []
    nontrivial = False
    classes = []
    fresh = None
    try:
        t = 1_700_000_100
        created = False
        for req in spec["prefix"]:
            t += 1
            try:
                r, _ = _send(srv, req, t)
            except Exception:
                classes.append("prefix-unencodable")
                continue
            if r["resp"] is not None:
                items = H.response_plain(r["resp"], tuple(req["v"]))
                if hist.created_uids(items):
                    created = True
        probe = spec["probe"]
        nontrivial = created or any(p["v"] != probe["v"] or p["who"] != probe["who"]
                                    or p.get("groups") != probe.get("groups") for p in spec["prefix"])
        fresh = srv.fresh_engine_on_copy()
        t += 1
        try:
            ra, data = _send(srv, probe, t)
        except Exception:
            return [], False, ["probe-unencodable"]
        rb, _ = _send(fresh, probe, t)
        idless = all("uid" not in it or it.get("uid") is None for it in probe["items"]) and \
            probe["items"][0]["op"] in hist.PLACEHOLDER_OPS
        cls = "identifier-less-probe" if idless else "probe:" + probe["items"][0]["op"]
        classes.append(cls)
        if ra["stage"] != rb["stage"]:
            buckets.append(("C11|outcome-stage-differs|" + cls, "used=%s fresh=%s" % (ra["stage"], rb["stage"])))
        elif ra["resp"] != rb["resp"]:
            pa = H.response_plain(ra["resp"], tuple(probe["v"])) if ra["resp"] else repr(ra["error"])
            pb = H.response_plain(rb["resp"], tuple(probe["v"])) if rb["resp"] else repr(rb["error"])
            if pa != pb:
                buckets.append(("C11|response-differs|" + cls,
                                "probe=%r\n used engine: %r\n fresh engine: %r" % (probe, pa, pb)))
        elif ra["resp"] is None and repr(ra["error"]) != repr(rb["error"]):
            buckets.append(("C11|request-error-differs|" + cls, "%r vs %r" % (ra["error"], rb["error"])))
        if ra["resp"] is not None and rb["resp"] is not None:
            ma = hist.random_value_uids(H.response_plain(ra["resp"], tuple(probe["v"])))
            mb = hist.random_value_uids(H.response_plain(rb["resp"], tuple(probe["v"])))
            sa, sb = hist.snapshot(srv, ma), hist.snapshot(fresh, mb)
            if sa != sb:
                buckets.append(("C11|final-store-differs|" + cls, "\n".join(hist.diff(sa, sb))))
    finally:
        srv.close()
        if fresh is not None:
            fresh.close()
    return buckets, nontrivial, classes


# ---------------------------------------------------------------- the same through ONE session
MAXES = [None, None, None, 0, 40, 152, 300, 568, 1000, 2 ** 31 - 1]


@st.composite
def gen_session_case(draw):
    """Prefix and probe travel over ONE connection (one KmipSession, one identity); the prefix
    requests carry header options of their own (Maximum Response Size, batch options) which must
    not outlive them.  Reference: the probe alone on a new session of a fresh engine opened on a
    byte copy of the database taken when the last prefix response had been sent."""
    _, idx = store.standard_template()
    who = draw(st.sampled_from(USERS))
    n = draw(st.integers(1, 4))
    reqs = []
    for k in range(n + 1):
        r = draw(gen_req(idx, probe=(k == n)))
        r["who"], r["groups"] = who, None
        mx = draw(st.sampled_from(MAXES if k < n else [None, None, None, 568, 2 ** 31 - 1]))
        if mx is not None:
            r["max"] = mx
        reqs.append(r)
    _skew(draw, reqs)
    case = {"mode": "session", "who": who, "prefix": reqs[:-1], "probe": reqs[-1],
            "chunks": draw(st.sampled_from([None, None, [7], [1, 64], [8, 8, 1000]]))}
    if draw(st.integers(0, 3)) == 0:
        # the identity comes from an authentication service that is asked for every message and
        # whose answer (the user's groups) changes while the connection stays open; the probe aims
        # at the object whose policy decides by group
        gs = st.sampled_from([["admins"], ["staff"], [], ["staff", "admins"], ["admins"], ["staff"]])
        case["slugs"] = [draw(gs) for _ in range(n + 1)]
        tu = idx["team"]
        case["probe"] = dict(case["probe"], items=[draw(st.sampled_from([
            {"op": "Get", "uid": tu}, {"op": "GetAttributes", "uid": tu}, {"op": "GetAttributeList", "uid": tu},
            {"op": "Locate", "attrs": [["Name", "n-team"]]}]))])
        case["probe"].pop("cont", None)
    return case


SESSION_NOW = 1_700_000_200
BIG_SIZES = [1 << 20, (1 << 20) + 1, (1 << 20) + 4096, 3 << 19]


def big_cases(sizes):
    """A request far larger than anything else on the connection (an opaque object of a megabyte
    and more, which the server accepts and stores) in front of ordinary requests.  The library
    handles such messages byte by byte (tens of seconds each), hence a fixed handful of cases."""
    out = []
    for k, n in enumerate(sizes):
        big = {"who": "alice", "groups": None, "v": [1, 2], "big": n}
        small = {"who": "alice", "groups": None, "v": [1, 2], "items": [{"op": "Query"}]}
        probe = {"who": "alice", "groups": None, "v": [1, 2],
                 "items": [[{"op": "Locate"}, F.create_item(), {"op": "Query"}][k % 3]]}
        out.append({"mode": "session", "who": "alice", "chunks": None,
                    "prefix": [big] if k % 2 == 0 else [small, big], "probe": probe})
    return out


def _big_frame(req):
    """Reference encoding of: Register an Opaque Object of req['big'] bytes (no attributes)."""
    from vlib import ttlvref as R
    v = req["v"]
    hdr = R.encode_struct(R.T_REQUEST_HEADER, [
        R.encode_struct(R.T_PROTOCOL_VERSION, [R.encode_integer(R.T_PROTOCOL_VERSION_MAJOR, v[0]),
                                               R.encode_integer(R.T_PROTOCOL_VERSION_MINOR, v[1])]),
        R.encode_integer(R.T_BATCH_COUNT, 1)])
    payload = R.encode_struct(R.T_REQUEST_PAYLOAD, [
        R.encode_enum(0x420057, 8),                                   # Object Type: Opaque Object
        R.encode_struct(0x420091, []),                                # Template-Attribute
        R.encode_struct(0x42005B, [R.encode_enum(0x420059, 0x80000001),   # Opaque Data Type
                                   R.encode_bytes(0x42005A, b"\x5a" * req["big"])])])
    item = R.encode_struct(R.T_BATCH_ITEM, [R.encode_enum(0x42005C, 3), payload])
    return R.encode_struct(R.T_REQUEST_MESSAGE, [hdr, item])


def _frame(req):
    req = dict(req)
    req.pop("who", None)
    req.pop("groups", None)
    if "ts_off" in req:
        req["ts"] = SESSION_NOW + req.pop("ts_off")
    if "big" in req:
        return _big_frame(req)
    return H.encode_request(req)


class _SlugsScript(object):
    """Stands in for `requests` inside auth/slugs.py: every user is known; the groups it reports
    are those scripted for the message the connection is at."""

    def __init__(self, real):
        self._real = real
        self.groups = None
        self.k = 0

    def get(self, url, **kw):
        parts = url.rstrip("/").split("/")
        if parts[-1] == "groups" and len(parts) >= 3 and parts[-3] == "users":
            return _Resp(200, {"groups": list(self.groups[min(self.k, len(self.groups) - 1)])})
        if len(parts) >= 2 and parts[-2] == "users":
            return _Resp(200, {"name": parts[-1]})
        return _Resp(404)

    def __getattr__(self, name):
        return getattr(self._real, name)


class _Resp(object):
    def __init__(self, status, body=None):
        self.status_code = status
        self._body = body

    def json(self):
        return self._body


SLUGS_SETTINGS = [("auth:slugs", {"enabled": "True", "url": "http://slugs.test:8080/slugs/"})]


def run_session_case(spec):
    if spec.get("slugs"):
        from kmip.services.server.auth import slugs as slugs_mod
        real = slugs_mod.requests
        stub = _SlugsScript(real)
        stub.groups = spec["slugs"]
        slugs_mod.requests = stub
        try:
            return _run_session_case(spec, stub)
        finally:
            slugs_mod.requests = real
    return _run_session_case(spec, None)


def _run_session_case(spec, stub):
    srv, idx = store.fresh_server()
    buckets, classes = [], ["mode:session"] + (["session:groups-from-a-service-that-changes-its-answer"] if stub else [])
    box = {"fresh": None}
    auth = list(SLUGS_SETTINGS) if stub else None
    try:
        H.CLOCK.now = SESSION_NOW
        try:
            frames = [_frame(r) for r in spec["prefix"]]
            pframe = _frame(spec["probe"])
        except Exception:
            return [], False, ["session-unencodable"]
        nprefix = len(frames)

        def hook(conn):
            plain = conn.sendall

            def sendall(b):
                plain(b)
                if stub is not None:
                    stub.k = len(conn.sent)         # the next message is message number k
                if len(conn.sent) == nprefix and box["fresh"] is None:
                    box["fresh"] = srv.fresh_engine_on_copy()
            conn.sendall = sendall

        conn, errors = srv.session(b"".join(frames) + pframe, cn=spec["who"],
                                   chunks=spec.get("chunks"), conn_hook=hook,
                                   max_loops=nprefix + 4, auth_settings=auth)
        if errors or len(conn.sent) != nprefix + 1 or box["fresh"] is None:
            # The session did not answer every frame once although every frame is a well-formed
            # request.  How a session treats bytes is C12's business; here it matters only if
            # the probe, sent alone on a new connection, IS answered: then what happened to it
            # depended on the requests before it.
            fresh = srv.fresh_engine_on_copy()
            if stub is not None:
                stub.k = nprefix
            conn2, errors2 = fresh.session(pframe, cn=spec["who"], max_loops=4, auth_settings=auth)
            if not errors2 and len(conn2.sent) == 1:
                buckets.append(("C11|session|probe-not-answered-behind-earlier-requests",
                                "%d well-formed requests on one connection: %d answers, loop exceptions %r; "
                                "the probe alone on a new connection is answered"
                                % (nprefix + 1, len(conn.sent), [repr(e)[:200] for e in errors[:3]])))
            return buckets, True, classes + ["session-irregular"]
        fresh = box["fresh"]
        if stub is not None:
            stub.k = nprefix
        conn2, errors2 = fresh.session(pframe, cn=spec["who"], max_loops=4, auth_settings=auth)
        if errors2 or len(conn2.sent) != 1:
            return [], False, classes + ["session-irregular-fresh"]
        probe = spec["probe"]
        cls = "probe:" + probe["items"][0]["op"]
        classes.append(cls)
        a, b = conn.sent[-1], conn2.sent[0]
        if a != b:
            try:
                pa = H.response_plain(a, tuple(probe["v"]))
                pb = H.response_plain(b, tuple(probe["v"]))
            except Exception:
                pa, pb = a.hex()[:200], b.hex()[:200]
            if pa != pb:
                buckets.append(("C11|session|response-differs|" + cls,
                                "probe=%r\n after %d earlier requests on the connection: %r\n on a new "
                                "connection to a fresh engine: %r" % (probe, nprefix, pa, pb)))
        try:
            ma = hist.random_value_uids(H.response_plain(a, tuple(probe["v"])))
            mb = hist.random_value_uids(H.response_plain(b, tuple(probe["v"])))
        except Exception:
            ma = mb = []
        sa, sb = hist.snapshot(srv, ma), hist.snapshot(fresh, mb)
        if sa != sb:
            buckets.append(("C11|session|final-store-differs|" + cls, "\n".join(hist.diff(sa, sb))))
        if any("max" in r for r in spec["prefix"]):
            classes.append("session:prefix-carried-maximum-response-size")
        nontrivial = nprefix >= 1
    finally:
        srv.close()
        if box["fresh"] is not None:
            box["fresh"].close()
    return buckets, nontrivial, classes


def replay(spec):
    if spec.get("mode") == "session":
        return run_session_case(spec)[0]
    return run_case(spec)[0]


def worker(n, seed, big=()):
    col = core.Collector(PID)
    for spec in big:        # first: these take long, the rest of the shard follows
        b, nt, cl = run_session_case(spec)
        col.record(spec, nontrivial=nt, classes=cl + ["session:megabyte-request-first"], buckets=b)

    def one(spec):
        b, nt, cl = run_case(spec)
        col.record(spec, nontrivial=nt, classes=cl, buckets=b)

    core.draw_examples(gen_case(), n, seed, one)

    def two(spec):
        b, nt, cl = run_session_case(spec)
        col.record(spec, nontrivial=nt, classes=cl, buckets=b)

    core.draw_examples(gen_session_case(), max(1, n // 3), core.derive_seed(seed, "session"), two)
    return col


def run(ctx):
    store.standard_template()
    n = core.NCPU
    total = ctx.n(3000, 40000)
    bigs = big_cases(BIG_SIZES[1:2] if ctx.quick else BIG_SIZES + BIG_SIZES)
    dicts = core.run_sharded("vlib.props.c11", "worker",
                             [(total // n, core.derive_seed(ctx.seed, "c11", i), bigs[i::n]) for i in range(n)])
    return core.merged(PID, dicts)
